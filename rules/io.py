"""I/O discipline: IO-COUNT (R1/W1/W2), ZERO-READ, EXACT-READ, BCJ-TAIL, INTERRUPT-LATCH (C05, C07, C16)."""
import re

from lzlint.framework import rule
from lzlint.core import (Prov, Callee, callee_of, strip_generics, last_seg, expr_walk, expr_str, op_local, op_place,
                         op_const, const_val, guards_of, norm_cmp, switch_edges, reachable_without_edge, self_field_of)

READ_TRAITS = ('std::io::Read', 'no_std::Read', 'Read')
WRITE_TRAITS = ('std::io::Write', 'no_std::Write', 'Write')


def is_trait_call(c, traits, name):
    return c.name == name and c.trait is not None and (c.trait in traits or last_seg(c.trait) == last_seg(traits[0]))


def value_closure(fn, seeds):
    """Flow-insensitive forward closure of locals that hold (a copy / payload of) the seed locals:
    through use/cast statements, Try::branch, payload projections."""
    clo = set(seeds)
    changed = True
    while changed:
        changed = False
        for bi, b in enumerate(fn.blocks):
            if b['cleanup']:
                continue
            for s in b['stmts']:
                if s['k'] != 'assign' or s['lhs']['p']:
                    continue
                rv = s['rv']
                if rv['r'] in ('use', 'cast'):
                    p = op_place(rv['o'])
                    if p is not None and p['l'] in clo and s['lhs']['l'] not in clo:
                        clo.add(s['lhs']['l'])
                        changed = True
            t = b['term']
            if t['k'] == 'call':
                c = callee_of(t)
                if c and strip_generics(c['path']).endswith(('Try::branch', 'From::from', 'Into::into')):
                    a = op_local(t['args'][0]) if t['args'] else None
                    if a in clo and not t['dest']['p'] and t['dest']['l'] not in clo:
                        clo.add(t['dest']['l'])
                        changed = True
    return clo


def scalar_count_locals(fn, result_local):
    """Locals of integer type holding the Ok payload of `result_local`."""
    clo = value_closure(fn, {result_local})
    return {l for l in clo if fn.local_ty(l) in ('usize', 'u64', 'u32', 'i32', 'i64', 'isize')}


def uses_of_count(fn, nl):
    """Classify the uses of count locals nl. Returns dict kind -> [(bb, detail)]."""
    out = {}
    def add(k, bb, d=''):
        out.setdefault(k, []).append((bb, d))
    prov = Prov(fn)
    for bi, b in enumerate(fn.blocks):
        if b['cleanup']:
            continue
        for s in b['stmts']:
            if s['k'] != 'assign':
                continue
            rv = s['rv']
            r = rv['r']
            def m(op):
                p = op_place(op)
                return p is not None and p['l'] in nl and not p['p']
            if r == 'bin':
                a, bb_ = m(rv['a']), m(rv['b'])
                if not (a or bb_):
                    continue
                other = rv['b'] if a else rv['a']
                op = rv['op']
                if op in ('Eq', 'Ne'):
                    cv = const_val(other)
                    if cv == 0:
                        add('cmp-zero', bi)
                    else:
                        add('cmp-eq-nonzero', bi, expr_str(prov.operand(other)))
                elif op in ('Lt', 'Le', 'Gt', 'Ge'):
                    cv = const_val(other)
                    add('cmp-zero' if cv == 0 else 'cmp-ord', bi)
                elif op.startswith(('Add', 'Sub', 'Mul')):
                    add('arith', bi, op)
                else:
                    add('other-bin', bi, op)
            elif r == 'agg':
                if any(m(o) for o in rv['ops']):
                    if rv.get('variant_name') == 'Ok':
                        add('returned', bi)
                    elif rv.get('kind') == 'adt' and 'Range' in (rv.get('adt') or ''):
                        add('slice-bound', bi)
                    else:
                        add('agg', bi, rv.get('kind'))
            elif r in ('use', 'cast'):
                if m(rv['o']) and s['lhs']['p']:
                    add('stored', bi)
        t = b['term']
        if t['k'] == 'switch':
            p = op_place(t['discr'])
            if p is not None and p['l'] in nl and not p['p']:
                vals = [a[0] for a in t['arms']]
                if any(v != '0' for v in vals):
                    add('switch-nonzero', bi, ','.join(vals))
                else:
                    add('cmp-zero', bi)
        elif t['k'] == 'call':
            for a in t['args']:
                p = op_place(a)
                if p is not None and p['l'] in nl and not p['p']:
                    c = callee_of(t)
                    add('call-arg', bi, strip_generics(c['path']) if c else '?')
    return out


def static_slice_len(fn, op):
    """If operand is (a copy of) `&mut [u8; N]` unsized to a slice, return N."""
    l = op_local(op)
    for _ in range(8):
        if l is None:
            return None
        ds = fn.whole_defs(l)
        if len(ds) != 1 or ds[0][2] != 'assign':
            return None
        rv = ds[0][3]['rv']
        if rv['r'] == 'cast':
            m = re.match(r'&(?:mut )?\[u8; (\d+)\]$', rv.get('from_ty', ''))
            if m:
                return int(m.group(1))
            l = op_local(rv['o'])
        elif rv['r'] == 'use':
            l = op_local(rv['o'])
        elif rv['r'] == 'ref':
            p = rv['p']
            if p['p'] == ['*']:
                l = p['l']
            else:
                return None
        else:
            return None
    return None


def io_calls(F, traits, name):
    for f in F.fns:
        for bi, t, c in f.calls():
            if is_trait_call(c, traits, name):
                yield f, bi, t, c


def _site_key(f, c, t, prov, counts):
    recv = prov.operand(t['args'][0])
    rs = expr_str(recv)
    rs = re.sub(r'[&*()]', '', rs)
    base = '%s:%s(%s)' % (f.key if f.kind != 'closure' else f.npath, c.name, rs[:40])
    counts[base] = counts.get(base, 0) + 1
    return base if counts[base] == 1 else '%s#%d' % (base, counts[base])


def slice_base(e):
    """Base object of a (sub)slice expression: strips refs, derefs, Index/IndexMut/as_ref calls."""
    while True:
        if e[0] in ('ref', 'deref'):
            e = e[1]
        elif e[0] == 'cast':
            e = e[2]
        elif e[0] == 'call' and e[1].endswith(('Index::index', 'IndexMut::index_mut', 'AsRef::as_ref', 'AsMut::as_mut',
                                               'Deref::deref', 'DerefMut::deref_mut', 'Vec::as_slice',
                                               'Vec::as_mut_slice', 'split_at', 'split_at_mut')) and e[2]:
            e = e[2][0]
        elif e[0] == 'subslice':
            e = e[1]
        else:
            return e


def buf_alias_locals(fn, prov, param):
    """Locals that are (sub)slices of parameter `param` (flow-insensitive closure)."""
    al = set()
    changed = True
    while changed:
        changed = False
        for l in range(len(fn.locals)):
            if l in al:
                continue
            for (bi, si, k, node) in fn.whole_defs(l):
                if k == 'assign':
                    e = prov.rvalue(node['rv'], 0)
                elif k == 'call':
                    c = callee_of(node)
                    e = ('call', strip_generics(c['path']) if c else '?', [prov.operand(a) for a in node['args']], node)
                else:
                    continue
                b = slice_base(e)
                if (b[0] == 'param' and b[1] == param) or (b[0] == 'local' and b[1] in al):
                    al.add(l)
                    changed = True
                    break
    return al


def derives_from_param(fn, prov, e, idx):
    b = slice_base(e)
    if b[0] == 'param' and b[1] == idx:
        return True
    if b[0] == 'local' and b[1] in buf_alias_locals(fn, prov, idx):
        return True
    return False


@rule('IO-COUNT', ['C05', 'C07'], floor=17, thorough_configs=('nostd-xzlzip',))
def io_count(ctx):
    """The byte count of a partial Read::read / Write::write is honoured: never dropped (W1),
    never returned by a transforming writer whose codec state already advanced (W2), never
    compared for equality with a required length (R1)."""
    F = ctx.facts
    nr = nw = 0
    counts = {}
    for f, bi, t, c in io_calls(F, WRITE_TRAITS, 'write'):
        nw += 1
        prov = Prov(f)
        key = _site_key(f, c, t, prov, counts)
        if t['dest']['p']:
            ctx.ok(key, f.loc(bi), 'result stored to a place')
            continue
        res = t['dest']['l']
        nl = scalar_count_locals(f, res)
        # tail position: the Result itself is the function result
        clo = value_closure(f, {res})
        returned_whole = 0 in clo
        uses = uses_of_count(f, nl)
        data = prov.operand(t['args'][1])
        in_write_impl = f.impl and last_seg(f.impl.get('trait')) == 'Write' and f.name == 'write'
        passthrough = derives_from_param(f, prov, data, 2) if in_write_impl else True
        if not returned_whole and not any(k in uses for k in ('returned', 'arith', 'slice-bound', 'stored', 'call-arg',
                                                                'cmp-ord', 'cmp-zero', 'cmp-eq-nonzero', 'agg')):
            ctx.violation(key, f.loc(bi), 'W1: the count returned by Write::write is dropped: a short write to the '
                          'sink is ignored and the rest of the data is silently lost (use write_all)')
            continue
        if in_write_impl and not passthrough and (returned_whole or 'returned' in uses):
            ctx.violation(key, f.loc(bi), 'W2: transforming writer returns the inner sink\'s partial count after its '
                          'codec state already advanced over the whole input (data written = %s): on a short write '
                          'the caller re-submits bytes against the wrong history' % expr_str(data)[:60])
            continue
        ctx.ok(key, f.loc(bi), 'count %s' % ('returned to the caller (pass-through of caller data)' if returned_whole
                                             else '/'.join(sorted(uses))))
    for f, bi, t, c in io_calls(F, READ_TRAITS, 'read'):
        nr += 1
        prov = Prov(f)
        key = _site_key(f, c, t, prov, counts)
        if t['dest']['p']:
            ctx.ok(key, f.loc(bi), 'result stored to a place')
            continue
        res = t['dest']['l']
        nl = scalar_count_locals(f, res)
        clo = value_closure(f, {res})
        uses = uses_of_count(f, nl)
        slen = static_slice_len(f, t['args'][1])
        # a match on the Result with literal arms shows up as a switch on the payload place
        lit = []
        for b2 in f.reachable:
            t2 = f.blocks[b2]['term']
            if t2['k'] == 'switch':
                p = op_place(t2['discr'])
                if p is not None and p['l'] in clo and p['p'] and p['ty'] == 'usize':
                    lit += [a[0] for a in t2['arms'] if a[0] != '0']
                    if any(a[0] == '0' for a in t2['arms']):
                        uses.setdefault('cmp-zero', []).append((b2, 'match arm Ok(0)'))
        bad = []
        if 'cmp-eq-nonzero' in uses:
            bad.append('compared for (in)equality with %s' % uses['cmp-eq-nonzero'][0][1])
        if 'switch-nonzero' in uses or lit:
            bad.append('matched against non-zero literal(s)')
        if bad and slen != 1:
            ctx.violation(key, f.loc(bi), 'R1: the count of a partial Read::read is %s: a legal short read is treated '
                          'as corruption (use read_exact)' % '; '.join(bad))
            continue
        if 0 in clo and not uses:
            ctx.ok(key, f.loc(bi), 'result returned to the caller unchanged')
            continue
        if not uses and not (0 in clo):
            ctx.violation(key, f.loc(bi), 'the count returned by Read::read is never used')
            continue
        ctx.ok(key, f.loc(bi), 'count %s%s' % ('/'.join(sorted(uses)), ' (1-byte buffer)' if slen == 1 else ''))
    if nr == 0:
        ctx.anchor_missing('Read::read call site')
    if nw == 0 and ctx.config in ('def', 'std-noopt', 'nostd-xzlzip'):
        ctx.anchor_missing('Write::write call site')


def read_impls(F):
    return [f for f in F.fns if f.impl and last_seg(f.impl.get('trait')) == 'Read' and f.name == 'read']


def effective_read(F, f):
    """The function holding the logic of an impl Read::read: `read` itself, or the same-type method it hands its
    buffer parameter to unchanged (a thin `read` that wraps the real body, e.g. to record a failure)."""
    prov = Prov(f)
    for bi, t, c in f.calls():
        if len(t['args']) < 2:
            continue
        for g in F.resolve_callee(c):
            if g.self_adt == f.self_adt and g.kind != 'closure' and g is not f and g.d.get('output') == f.d.get('output'):
                a = prov.operand(t['args'][1], 0, '%d:T' % bi)
                if a[0] == 'param' and a[1] == 2:
                    return g
    return f


def read_bodies(F):
    return [effective_read(F, f) for f in read_impls(F)]


@rule('ZERO-READ', ['C07'], floor=4)
def zero_read(ctx):
    """A zero-length read never disturbs the stream: an impl Read::read that hands the caller's own
    buffer to an inner read and reacts to a 0 count by mutating self must first return Ok(0) for an
    empty buffer."""
    F = ctx.facts
    n = 0
    for f in read_bodies(F):
        prov = Prov(f)
        for bi, t, c in f.calls():
            if not is_trait_call(c, READ_TRAITS, 'read'):
                continue
            dst = prov.operand(t['args'][1])
            if not (dst[0] == 'param' and dst[1] == 2):
                continue
            if t['dest']['p']:
                continue
            res = t['dest']['l']
            clo = value_closure(f, {res})
            nl = {l for l in clo if f.local_ty(l) == 'usize'}
            # zero edges
            zero_targets = []
            for b2 in f.reachable:
                t2 = f.blocks[b2]['term']
                if t2['k'] != 'switch':
                    continue
                p = op_place(t2['discr'])
                if p is None:
                    continue
                if p['l'] in clo and p['ty'] == 'usize':
                    for v, tgt in t2['arms']:
                        if v == '0':
                            zero_targets.append(tgt)
                    continue
                if p['p'] or f.local_ty(p['l']) != 'bool':
                    continue
                cond = prov.local(p['l'])
                nc = norm_cmp(cond, True) if cond[0] in ('bin', 'un') else None
                if not nc:
                    continue
                e = switch_edges(f, b2)
                if e is None:
                    continue
                op, a, b = nc
                def isn(x):
                    return any(y[0] == 'local' and y[1] in nl for y in [x]) or \
                        (x[0] in ('trybranch',) or x[0] == 'downcast' or x[0] == 'field') and \
                        any(y[0] == 'call' and y[3] is t for y in expr_walk(x))
                def isz(x):
                    return x[0] == 'const' and x[2] == 0
                if op == 'Eq' and ((isn(a) and isz(b)) or (isn(b) and isz(a))):
                    zero_targets.append(e[1])
                elif op == 'Ne' and ((isn(a) and isz(b)) or (isn(b) and isz(a))):
                    zero_targets.append(e[0])
                elif op == 'Lt' and isz(a) and isn(b):      # 0 < n  -> false edge is zero
                    zero_targets.append(e[0])
                elif op == 'Le' and isn(a) and isz(b):      # n <= 0 -> true edge is zero
                    zero_targets.append(e[1])
            if not zero_targets:
                continue
            # does the zero edge lead to a mutation of self?
            region = f.reach_from(zero_targets)
            mut = None
            for b3 in sorted(region):
                blk = f.blocks[b3]
                if blk['cleanup']:
                    continue
                for s in blk['stmts']:
                    if s['k'] == 'assign' and s['lhs']['l'] == 1 and s['lhs']['p']:
                        mut = (b3, 'store to self.%s' % '.'.join(str(x.get('n')) for x in s['lhs']['p'] if isinstance(x, dict) and 'f' in x))
                        break
                if mut:
                    break
                t3 = blk['term']
                if t3['k'] == 'call' and b3 != bi:
                    c3 = callee_of(t3)
                    if c3 and c3.get('local') and t3['args']:
                        a0 = prov.operand(t3['args'][0])
                        if a0[0] == 'param' and a0[1] == 1 and f.local_ty(1).startswith('&mut'):
                            mut = (b3, 'call %s(&mut self)' % last_seg(c3['path']))
                            break
            if not mut:
                continue
            n += 1
            key = '%s:zero-count-mutates-self' % f.key
            # guard: dominating is_empty / len == 0 test on buf, read on the non-empty edge
            guard = None
            for s, pol, cond in guards_of(f, bi, prov):
                cc = cond
                p2 = pol
                while cc[0] == 'un' and cc[1] == 'Not':
                    cc = cc[2]
                    p2 = not p2
                if cc[0] == 'call' and cc[1].endswith('is_empty') and cc[2] and cc[2][0][0] == 'param' and cc[2][0][1] == 2 and not p2:
                    guard = s
                nc = norm_cmp(cond, pol) if cond[0] in ('bin', 'un') else None
                if nc and nc[0] in ('Ne', 'Lt'):
                    sides = (nc[1], nc[2])
                    if any(x[0] == 'len' and x[1][0] == 'param' and x[1][1] == 2 for x in sides) and \
                            any(x[0] == 'const' and x[2] == 0 for x in sides):
                        guard = s
            if guard is not None:
                ctx.ok(key, f.loc(bi), 'empty-buffer test at bb%d guards the inner read; zero count -> %s' % (guard, mut[1]))
            else:
                ctx.violation(key, f.loc(bi), 'inner read gets the caller\'s buffer unguarded; a zero-length read '
                              'returns 0 and is taken for end of data (%s): a zero-length read disturbs the stream' % mut[1])
    if n == 0:
        ctx.anchor_missing('impl Read::read reacting to a zero count')


def fn_set_reachable(F, roots, exclude_adts=()):
    seen = {}
    stack = list(roots)
    cg = F.callgraph()
    while stack:
        f = stack.pop()
        if f.path in seen:
            continue
        if f.self_adt and last_seg(f.self_adt) in exclude_adts:
            continue
        seen[f.path] = f
        for bi, g in cg[f.path]:
            if g.path not in seen:
                stack.append(g)
    return seen


@rule('EXACT-READ', ['C16'], floor=10)
def exact_read(ctx):
    """The single-stream decoders never ask the underlying source for more than a decoded length:
    every source access is read_exact on a fixed-size array or an explicitly range-sliced buffer, a
    1-byte read, or a pass-through of the caller's own buffer; no read_to_end/BufReader/take."""
    F = ctx.facts
    roots = []
    for adt in ('LZMAReader', 'LZMA2Reader', 'XZReader'):
        fs = [f for f in F.fns if f.self_adt and last_seg(f.self_adt) == adt]
        if not fs:
            if adt == 'XZReader' and ctx.config in ('nostd', 'nostd-opt'):
                continue
            ctx.anchor_missing('type ' + adt)
            continue
        roots += fs
    filt = ('BCJReader', 'DeltaReader', 'BCJ2Reader', 'Bcj2Decoder')
    S = fn_set_reachable(F, roots, exclude_adts=filt)
    counts = {}
    for f in S.values():
        prov = Prov(f)
        for bi, t, c in f.calls():
            if c.is_('Read::read_to_end', 'Read::read_to_string', 'BufReader::new', 'BufReader::with_capacity',
                     'Read::take', 'Read::bytes', 'io::copy', 'Read::chain'):
                key = _site_key(f, c, t, prov, counts)
                ctx.violation(key, f.loc(bi), '%s on the decoder\'s source: reads past the end of the compressed '
                              'stream' % c.npath)
                continue
            if is_trait_call(c, READ_TRAITS, 'read'):
                key = _site_key(f, c, t, prov, counts)
                dst = prov.operand(t['args'][1])
                slen = static_slice_len(f, t['args'][1])
                if dst[0] == 'param':
                    ctx.ok(key, f.loc(bi), 'pass-through of the caller\'s buffer', nontrivial=False)
                elif slen == 1:
                    ctx.ok(key, f.loc(bi), '1-byte read')
                elif any(x[0] == 'call' and x[1].endswith(('IndexMut::index_mut', 'Index::index')) for x in expr_walk(dst)):
                    ix = [x for x in expr_walk(dst) if x[0] == 'call' and x[1].endswith(('IndexMut::index_mut', 'Index::index'))][0]
                    rng = ix[2][1]
                    if rng[0] == 'agg' and all(a[0] == 'const' for a in rng[2]):
                        ctx.violation(key, f.loc(bi), 'partial read into a constant-size scratch window')
                    else:
                        ctx.ok(key, f.loc(bi), 'read into a range-sliced buffer of computed length %s' % expr_str(rng)[:50])
                else:
                    ctx.violation(key, f.loc(bi), 'partial read into an unsliced scratch buffer (%s): may consume '
                                  'bytes after the end of the stream' % expr_str(dst)[:50])
            elif is_trait_call(c, READ_TRAITS, 'read_exact'):
                key = _site_key(f, c, t, prov, counts)
                dst = prov.operand(t['args'][1])
                slen = static_slice_len(f, t['args'][1])
                if slen is not None:
                    ctx.ok(key, f.loc(bi), 'read_exact of a %d-byte field' % slen, nontrivial=False)
                elif dst[0] == 'param':
                    ctx.ok(key, f.loc(bi), 'pass-through of the caller\'s buffer', nontrivial=False)
                elif any(x[0] == 'call' and x[1].endswith(('IndexMut::index_mut', 'Index::index')) for x in expr_walk(dst)):
                    ctx.ok(key, f.loc(bi), 'read_exact into an explicitly range-sliced buffer')
                elif slice_base(dst)[0] == 'local' and re.match(r'\[u8; \d+\]$', f.local_ty(slice_base(dst)[1])):
                    ctx.ok(key, f.loc(bi), 'read_exact of a %s array' % f.local_ty(slice_base(dst)[1]), nontrivial=False)
                elif slice_base(dst)[0] == 'repeat' and isinstance(slice_base(dst)[2], int):
                    ctx.ok(key, f.loc(bi), 'read_exact of a %d-byte array' % slice_base(dst)[2], nontrivial=False)
                elif slice_base(dst)[0] == 'call' and slice_base(dst)[1].endswith('from_elem') and \
                        slice_base(dst)[2][1][0] != 'const':
                    ctx.ok(key, f.loc(bi), 'read_exact into a vector of decoded length %s' % expr_str(slice_base(dst)[2][1])[:50])
                else:
                    ctx.violation(key, f.loc(bi), 'read_exact into an unsliced buffer (%s): length is not a decoded '
                                  'field' % expr_str(dst)[:50])


@rule('COUNTER-TRUTH', ['C05', 'C02'], floor=5)
def counter_truth(ctx):
    """Byte counters of pass-through wrappers count what the inner call reported, not what was
    offered: in every impl Read::read / Write::write that forwards the caller's buffer to an inner
    read/write and adds to a counter (field store or Cell::set), the addend is the returned count."""
    F = ctx.facts
    n = 0
    for f in F.fns:
        if not (f.impl and last_seg(f.impl.get('trait')) in ('Read', 'Write') and f.name in ('read', 'write')):
            continue
        if f.name == 'read':
            f = effective_read(F, f)
        prov = Prov(f)
        inner = []
        for bi, t, c in f.calls():
            if (is_trait_call(c, READ_TRAITS, 'read') or is_trait_call(c, WRITE_TRAITS, 'write')) and len(t['args']) > 1:
                d = prov.operand(t['args'][1], 0, '%d:T' % bi)
                if d[0] == 'param' and d[1] == 2 and not t['dest']['p']:
                    inner.append((bi, t))
        if len(inner) != 1:
            continue
        ib, it = inner[0]
        nl = scalar_count_locals(f, it['dest']['l'])
        # counter updates: self-referential field stores and Cell::set(get() + x)
        updates = []
        for bi, b in enumerate(f.blocks):
            if b['cleanup']:
                continue
            for si, s in enumerate(b['stmts']):
                if s['k'] == 'assign' and s['lhs']['l'] == 1 and s['lhs']['p'] and s['rv']['r'] in ('use', 'bin'):
                    e = prov.rvalue(s['rv'], 0, '%d:%d' % (bi, si))
                    adds = [x for x in expr_walk(e) if x[0] == 'bin' and x[1].startswith('Add')]
                    if adds:
                        updates.append((bi, adds[0]))
            t = b['term']
            if t['k'] == 'call':
                c = callee_of(t)
                if c and strip_generics(c['path']).endswith('Cell::set') and len(t['args']) > 1:
                    e = prov.operand(t['args'][1], 0, '%d:T' % bi)
                    adds = [x for x in expr_walk(e) if x[0] == 'bin' and x[1].startswith('Add')]
                    if adds:
                        updates.append((bi, adds[0]))
        for ub, add in updates:
            n += 1
            key = '%s:counter-adds-returned-count' % f.key
            def from_count(x):
                while x[0] == 'cast':
                    x = x[2]
                if x[0] == 'local' and x[1] in nl:
                    return True
                return any(y[0] == 'call' and len(y) > 3 and y[3] is it for y in expr_walk(x)) and \
                    not any(y[0] == 'len' or (y[0] == 'call' and y[1].endswith('::len')) for y in expr_walk(x))
            ok = from_count(add[2]) or from_count(add[3])
            bad_len = any((y[0] == 'len' or (y[0] == 'call' and y[1].endswith('::len'))) and
                          any(z[0] == 'param' and z[1] == 2 for z in expr_walk(y)) for side in (add[2], add[3]) for y in expr_walk(side))
            if ok and not bad_len:
                ctx.ok(key, f.loc(ub), 'counter += count returned by the inner %s' % f.name)
            else:
                ctx.violation(key, f.loc(ub), 'the byte counter is advanced by %s instead of the count the inner %s returned: after a '
                              'short %s the counter (which feeds padding, index sizes or member sizes) is wrong' % (
                                  expr_str(add[3])[:40], f.name, f.name))
    if n == 0:
        ctx.anchor_missing('counting pass-through wrappers')


@rule('TAIL-FORWARD', ['C07', 'C11'], floor=2)
def tail_forward(ctx):
    """A transforming writer whose transform reports how many bytes it could process (block filters
    stop short of an instruction that may straddle the end of the buffer) forwards only the processed
    prefix `buffer[..n]` within the call; the unprocessed tail `buffer[n..]` is kept for the next call.
    Forwarding the tail untransformed makes the output depend on where the caller cut its writes (and
    desynchronises the position the inverse filter assumes)."""
    F = ctx.facts
    n = 0
    for f in F.fns:
        if not (f.impl and last_seg(f.impl.get('trait')) == 'Write' and f.name == 'write'):
            continue
        prov = Prov(f)
        transforms = []
        for bi, t, c in f.calls():
            if not c.local or c.trait or not t['dest']['ty'] == 'usize':
                continue
            for a in t['args'][1:]:
                e = prov.operand(a, 0, '%d:T' % bi)
                if e[0] == 'call' and e[1].endswith('index_mut') and self_field_of(e[2][0] if e[2][0][0] != 'ref' else e[2][0][1]):
                    transforms.append(t)
        if not transforms:
            continue
        for bi, t, c in f.calls():
            if not ((is_trait_call(c, WRITE_TRAITS, 'write') or is_trait_call(c, WRITE_TRAITS, 'write_all')) and len(t['args']) > 1):
                continue
            e = prov.operand(t['args'][1], 0, '%d:T' % bi)
            if not (e[0] == 'call' and e[1].endswith('index') and len(e[2]) == 2 and e[2][1][0] == 'agg'):
                continue
            rng = e[2][1]
            kind = rng[1]
            ops = rng[2]
            start = ops[0] if ('Range::' in kind or 'RangeFrom::' in kind) and 'RangeTo' not in kind else None
            end = ops[-1] if ('RangeTo' in kind or 'Range::' in kind) and 'RangeFrom' not in kind else None
            def from_transform(x):
                return x is not None and any(y[0] == 'call' and len(y) > 3 and any(y[3] is tt for tt in transforms) for y in expr_walk(x))
            if not (from_transform(start) or from_transform(end)):
                continue
            n += 1
            if from_transform(start):
                ctx.violation('%s:unprocessed-tail-forwarded' % f.key, f.loc(bi),
                              'the bytes after the processed count (%s) are written to the sink untransformed in the same call: '
                              'the stream depends on the write partition and the decoder, which filters the stream '
                              'contiguously, sees instructions at different offsets' % expr_str(e)[:90])
            else:
                ctx.ok('%s:processed-prefix-forwarded' % f.key, f.loc(bi), 'sink gets %s' % expr_str(e)[:90])
    if n == 0:
        ctx.anchor_missing('transforming writer with a partial-progress transform')


def pulling_fns(F):
    """Local functions that (transitively) call Read::read / read_exact / read_to_end on something."""
    direct = set()
    for f in F.fns:
        for bi, t, c in f.calls():
            if any(is_trait_call(c, READ_TRAITS, nm) for nm in ('read', 'read_exact', 'read_to_end', 'read_u8', 'read_u32', 'read_u64')):
                direct.add(f.path)
    cg = F.callgraph()
    res = set(direct)
    changed = True
    while changed:
        changed = False
        for p, edges in cg.items():
            if p not in res and any(g.path in res for _, g in edges):
                res.add(p)
                changed = True
    return res


# (function key, callee name) -> reason
END_PULL_EXCEPTIONS = {
    ('LZMAReader::read_decode', 'normalize'): 'after the end marker the range decoder is normalised once: those bytes were written by '
                                               'the encoder\'s flush and belong to the stream (same as LZMAInputStream in XZ for Java); '
                                               'the call is control dependent on end_marker_detected()',
}


@rule('END-NO-PULL', ['C16'], floor=7)
def end_no_pull(ctx):
    """Typestate: once a single-stream decoder has set its end flag (the bool field whose truth makes `read`
    return Ok(0) at once) it does not pull from the source again in that call: following the store, with the
    flag known to be true at every test of it, no call that can reach Read::read/read_exact is reachable."""
    F = ctx.facts
    pull = pulling_fns(F)
    n = 0
    cg_cache = {}
    for rf in read_impls(F):
        adt = rf.self_adt
        if not adt or last_seg(adt) in ('LZMA2ReaderMT', 'LZIPReaderMT'):
            continue
        # end flags: bool self fields tested at the entry of read (or of the method read forwards to) with an Ok(0) exit
        cands = [rf]
        for bi, t, c in rf.calls():
            for g in F.resolve_callee(c):
                if g.self_adt == adt and g.kind != 'closure':
                    cands.append(g)
        flags = set()
        for g in cands:
            prov = Prov(g)
            for s in g.reachable:
                e = switch_edges(g, s)
                if e is None:
                    continue
                cond = prov.operand(g.blocks[s]['term']['discr'], 0, '%d:T' % s)
                sf = self_field_of(cond)
                if not sf or len(sf) != 1:
                    continue
                # true edge leads straight to a return of Ok(0)
                tb = e[1]
                region = g.reach_from([tb])
                if len(region) <= 4 and any(b in g.return_blocks() for b in region) and not any(
                        g.blocks[b]['term']['k'] == 'call' for b in region):
                    flags.add(sf[0])
        if not flags:
            continue
        for g in [m for m in F.fns if m.self_adt == adt and m.kind != 'closure']:
            prov = None
            for bi, b in enumerate(g.blocks):
                if b['cleanup'] or bi not in g.reachable:
                    continue
                for si, s in enumerate(b['stmts']):
                    if not (s['k'] == 'assign' and s['lhs']['l'] == 1 and s['lhs']['p']):
                        continue
                    from lzlint.core import field_path
                    fp = field_path(s['lhs'])
                    if not fp or len(fp) != 1 or fp[0] not in flags:
                        continue
                    prov = prov or Prov(g)
                    v = prov.rvalue(s['rv'], 0, '%d:%d' % (bi, si))
                    if not (v[0] == 'const' and v[2] in (1, True)):
                        continue
                    n += 1
                    flag = fp[0]
                    # forward walk with the flag known true
                    seen = set()
                    stack = [(bi, si + 1)]
                    hits = []
                    while stack:
                        cb, start = stack.pop()
                        if (cb, start) in seen:
                            continue
                        seen.add((cb, start))
                        blk = g.blocks[cb]
                        killed = False
                        for sj in range(start, len(blk['stmts'])):
                            s2 = blk['stmts'][sj]
                            if s2['k'] == 'assign' and s2['lhs']['l'] == 1 and field_path(s2['lhs']) == [flag]:
                                killed = True
                                break
                        if killed:
                            continue
                        t = blk['term']
                        if t['k'] == 'call':
                            c = callee_of(t)
                            if c:
                                cal = Callee(c)
                                tg = F.resolve_callee(cal)
                                if any(h.path in pull for h in tg) or any(is_trait_call(cal, READ_TRAITS, nm) for nm in ('read', 'read_exact')):
                                    hits.append((cb, cal))
                            if t.get('target') is not None:
                                stack.append((t['target'], 0))
                            continue
                        if t['k'] == 'switch':
                            cond = prov.operand(t['discr'], 0, '%d:T' % cb)
                            pol = True
                            while cond[0] == 'un' and cond[1] == 'Not':
                                cond = cond[2]
                                pol = not pol
                            e = switch_edges(g, cb)
                            if e is not None and self_field_of(cond) == (flag,):
                                stack.append((e[1] if pol else e[0], 0))
                                continue
                        for nb in g.succs(cb):
                            stack.append((nb, 0))
                    key = '%s:after-%s' % (g.key, flag)
                    bad = []
                    for cb, cal in hits:
                        if (g.key, cal.name) in END_PULL_EXCEPTIONS:
                            ctx.exception('%s:%s' % (key, cal.name), g.loc(cb), END_PULL_EXCEPTIONS[(g.key, cal.name)])
                        else:
                            bad.append((cb, cal))
                    if bad:
                        ctx.violation(key, g.loc(bad[0][0]), 'after `%s = true` (%s) the decoder still calls %s, which can pull bytes from the '
                                      'source: a stream embedded in a larger one is over-read' % (
                                          flag, g.loc(bi, si), ', '.join(sorted({c.name for _, c in bad}))))
                    else:
                        ctx.ok(key, g.loc(bi, si), 'no source pull reachable after the end flag is set')
    if n == 0:
        ctx.anchor_missing('end-flag stores in the single-stream decoders')


@rule('INTERRUPT-LATCH', ['C05'], floor=10)
def interrupt_latch(ctx):
    """A reader that forwards to a plain `inner.read(..)` may see ErrorKind::Interrupted, which by contract
    means "nothing happened, call again". In the Err arm of such a call inside an impl Read::read:
    (1) the error is not stored into a sticky error field unless the path tests that it is not Interrupted
    (a latched Interrupted makes every retry fail: `read_to_end` spins forever);
    (2) if the call has already copied bytes into the caller's buffer (a count accumulator that is later
    returned in Ok), the Err arm does not return an error that may be Interrupted without testing the
    accumulator: the caller would retry and the bytes already handed over are lost (success with missing
    data). An Err return that is control dependent on "not Interrupted" is fine."""
    from lzlint.core import control_conditions, field_path
    F = ctx.facts
    n = 0
    for f in read_bodies(F):
        prov = None
        for bi, t, c in f.calls():
            if not is_trait_call(c, READ_TRAITS, 'read') or t['dest']['p']:
                continue
            prov = prov or Prov(f)
            d = t['dest']['l']
            # the Err arm: switch on discr of d (possibly after moves)
            holders = value_closure(f, {d}) if 'value_closure' in globals() else {d}
            err_targets = []
            for s in f.reachable:
                tt = f.blocks[s]['term']
                if tt['k'] != 'switch':
                    continue
                dl = op_local(tt['discr'])
                dd = f.whole_defs(dl) if dl is not None else []
                if len(dd) == 1 and dd[0][2] == 'assign' and dd[0][3]['rv']['r'] == 'discr' and dd[0][3]['rv']['p']['l'] in holders \
                        and not dd[0][3]['rv']['p']['p']:
                    for a in tt['arms']:
                        if int(a[0]) == 1:
                            err_targets.append(a[1])
                    if not any(int(a[0]) == 1 for a in tt['arms']):
                        err_targets.append(tt['otherwise'])
            if not err_targets:
                continue
            n += 1
            region = set()
            for et in err_targets:
                region |= {b for b in f.reach_from([et]) if f.dominates(et, b)}
            key = '%s:err-arm-of-inner-read' % f.key
            problems = []
            # (1) sticky store
            for b in sorted(region):
                for si, st in enumerate(f.blocks[b]['stmts']):
                    if not (st['k'] == 'assign' and st['lhs']['l'] == 1 and st['lhs']['p']):
                        continue
                    sv = prov.rvalue(st['rv'], 0, '%d:%d' % (b, si))
                    if sv[0] == 'agg' and str(sv[1]).endswith('::Some'):
                        conds = [cx for _, cx in control_conditions(f, b, prov)] + [cx for _, _, cx in guards_of(f, b, prov)]
                        if not any('Interrupted' in expr_str(cx) for cx in conds):
                            problems.append((b, 'the error is latched into `%s` without excluding ErrorKind::Interrupted: after one interrupted '
                                             'read every retry fails with the stored error and `read_to_end` never returns' % '.'.join(field_path(st['lhs']) or ['?'])))
            # (2) partial progress dropped
            # count accumulators: user locals with a self-add definition that flow into an Ok(..) return
            selfadd = set()
            for l in range(f.arg_count + 1, len(f.locals)):
                if not f.locals[l].get('name') or len(f.whole_defs(l)) < 2:
                    continue
                for (b3, s3, k3, node3) in f.whole_defs(l):
                    if k3 == 'assign':
                        e3 = prov.rvalue(node3['rv'], 0, '%d:%d' % (b3, s3))
                        if any(y[0] == 'bin' and y[1].startswith('Add') and any(z[0] == 'local' and z[1] == l for z in expr_walk(y[2]))
                               for y in expr_walk(e3)):
                            selfadd.add(l)
            acc = set()
            for (b2, s2, k2, node) in f.whole_defs(0):
                if k2 == 'assign' and node['rv']['r'] == 'agg' and node['rv'].get('variant_name') == 'Ok' and node['rv']['ops']:
                    e = prov.operand(node['rv']['ops'][0], 0, '%d:%d' % (b2, s2))
                    seen = set()
                    work = [e]
                    while work:
                        x0 = work.pop()
                        for x in expr_walk(x0):
                            if x[0] == 'local' and x[1] not in seen:
                                seen.add(x[1])
                                if x[1] in selfadd:
                                    acc.add(x[1])
                                else:
                                    work.extend(ex for _, ex in prov.def_exprs(x[1]))
            if acc:
                errret = [b for b in region if any(st['k'] == 'assign' and st['lhs']['l'] == 0 and st['rv']['r'] == 'agg' and
                                                   st['rv'].get('variant_name') == 'Err' for st in f.blocks[b]['stmts'])]
                errret += [b for b in region if f.blocks[b]['term']['k'] == 'call' and f.blocks[b]['term']['dest']['l'] == 0 and
                           callee_of(f.blocks[b]['term']) and callee_of(f.blocks[b]['term'])['path'].endswith('from_residual')]
                for b in errret:
                    conds = [cx for _, cx in control_conditions(f, b, prov)] + [cx for _, _, cx in guards_of(f, b, prov)]
                    if not any(any(y[0] == 'local' and y[1] in acc for y in expr_walk(cx)) or 'Interrupted' in expr_str(cx) for cx in conds):
                        # can accumulation precede the inner read? (the read sits in a loop with the add)
                        adds = [b3 for l in acc for (b3, s3, k3, n3) in f.whole_defs(l) if f.in_loop(b3)]
                        if adds and f.in_loop(bi):
                            problems.append((b, 'the Err arm returns the error although `%s` bytes may already have been copied into the caller\'s '
                                             'buffer in this call: on a retry (Interrupted) those bytes are lost and the stream continues '
                                             'after them' % '/'.join(sorted(f.local_name(l) for l in acc))))
            if problems:
                ctx.violation(key, f.loc(problems[0][0]), '; '.join(dict.fromkeys(p[1] for p in problems)))
            else:
                ctx.ok(key, f.loc(bi), 'Err arm neither latches an Interrupted error nor drops bytes already copied')
    if n == 0:
        ctx.anchor_missing('impl Read::read forwarding to a plain inner read')


@rule('INTERRUPT-RETRY', ['C05'], floor=3)
def interrupt_retry(ctx):
    """A decoder that reads into a buffer of its own (not the caller's buffer handed through) with a plain
    `read` is in the middle of parsing: it cannot give ErrorKind::Interrupted back to its caller and be resumed
    by a retry of `read` (the bytes parsed so far in this step are gone). Every such call therefore sits in
    a retry loop: its Err edge tests for Interrupted and re-issues the call."""
    from lzlint.core import control_conditions
    F = ctx.facts
    n = 0
    cnt = {}
    for f in F.fns:
        if f.file.endswith('no_std.rs'):
            continue
        prov = None
        for bi, t, c in f.calls():
            if not is_trait_call(c, READ_TRAITS, 'read') or len(t['args']) < 2:
                continue
            prov = prov or Prov(f)
            buf = prov.operand(t['args'][1], 0, '%d:T' % bi)
            # pass-through of a caller's buffer parameter (any &mut [u8] parameter of f)
            bparams = [i for i in range(1, f.arg_count + 1) if f.local_ty(i).replace(' ', '') in ('&mut[u8]',)]
            if any(derives_from_param(f, prov, buf, i) for i in bparams):
                continue
            n += 1
            base = '%s:read-into-own-buffer' % f.key
            cnt[base] = cnt.get(base, 0) + 1
            key = base if cnt[base] == 1 else '%s#%d' % (base, cnt[base])
            # an Interrupted test somewhere in the blocks reachable from the call inside its innermost loop
            loops = [body for h, body in f.loops().items() if bi in body]
            ok = False
            if loops:
                body = min(loops, key=len)
                for sb in body:
                    tt = f.blocks[sb]['term']
                    if tt['k'] == 'switch':
                        cond = prov.operand(tt['discr'], 0, '%d:T' % sb)
                        if 'Interrupted' in expr_str(cond):
                            ok = True
            if ok:
                ctx.ok(key, f.loc(bi), 'the call is re-issued when the source reports Interrupted')
            else:
                ctx.violation(key, f.loc(bi), 'a plain read into the decoder\'s own buffer propagates ErrorKind::Interrupted to the caller in the '
                              'middle of a parsing step; the caller\'s retry (read_to_end, read_exact) resumes in a different state and '
                              'a correct stream is reported as damaged')
    if n == 0:
        ctx.anchor_missing('plain reads into decoder-owned buffers')


@rule('FILL-LOOP', ['C05', 'C12'], floor=1)
def fill_loop(ctx):
    """A free helper that reads into the caller's buffer with a plain `read` and whose callers compare the
    returned count with a required length (to decide "not present" / "end of data") must have fill
    semantics: the read sits in a loop that accumulates the counts and is left only when the buffer is full
    or a read returns 0. A single read may legally return fewer bytes than are available (pipes, buffered
    readers), which would then be mistaken for the end of the data."""
    F = ctx.facts
    n = 0
    for h in F.fns:
        if h.kind != 'fn' or h.self_adt or h.file.endswith('no_std.rs'):
            continue
        if 'usize' not in h.d.get('output', ''):
            continue
        reads = [(bi, t) for bi, t, c in h.calls() if is_trait_call(c, READ_TRAITS, 'read') and len(t['args']) > 1]
        if not reads:
            continue
        ph = Prov(h)
        bparams = [i for i in range(1, h.arg_count + 1) if h.local_ty(i).replace(' ', '') == '&mut[u8]']
        reads = [(bi, t) for bi, t in reads if any(derives_from_param(h, ph, ph.operand(t['args'][1], 0, '%d:T' % bi), i) for i in bparams)]
        if not reads:
            continue
        # do callers compare the result with a required length?
        needs = None
        for g in F.fns:
            pg = None
            for bi, t, c in g.calls():
                if h not in F.resolve_callee(c):
                    continue
                pg = pg or Prov(g)
                holders = value_closure(g, {t['dest']['l']})
                cnt = {l for l in holders if g.local_ty(l) == 'usize'}
                # payload of `?`
                for (b2, blk) in enumerate(g.blocks):
                    for st in blk['stmts']:
                        if st['k'] == 'assign' and not st['lhs']['p'] and st['rv']['r'] == 'use':
                            p = op_place(st['rv']['o'])
                            if p is not None and p['l'] in holders and p['p'] and g.local_ty(st['lhs']['l']) == 'usize':
                                cnt.add(st['lhs']['l'])
                cnt = set(value_closure(g, cnt)) if cnt else cnt
                for s in g.reachable:
                    tt = g.blocks[s]['term']
                    if tt['k'] != 'switch':
                        continue
                    cond = pg.operand(tt['discr'], 0, '%d:T' % s)
                    nc = norm_cmp(cond, True) if cond[0] in ('bin', 'un') else None
                    if nc and nc[0] in ('Lt', 'Le', 'Eq', 'Ne'):
                        for side, other in ((nc[1], nc[2]), (nc[2], nc[1])):
                            if any(x[0] == 'local' and x[1] in cnt for x in expr_walk(side)) or \
                                    any(x[0] == 'call' and len(x) > 3 and x[3] is t for x in expr_walk(side)):
                                if not (other[0] == 'const' and other[2] == 0):
                                    needs = (g, s, expr_str(cond)[:60])
        if needs is None:
            continue
        n += 1
        key = '%s:fills-or-eof' % h.key
        ok = False
        why = 'the read is not inside a loop'
        for bi, t in reads:
            loops = [body for hd, body in h.loops().items() if bi in body]
            if not loops:
                continue
            body = min(loops, key=len)
            d = t['dest']['l']
            nl = scalar_count_locals(h, d)
            clo = value_closure(h, {d})
            zero_exit = False
            for sb in body:
                tt = h.blocks[sb]['term']
                if tt['k'] == 'switch':
                    p = op_place(tt['discr'])
                    if p is not None and p['l'] in clo and p['p'] and any(a[0] == '0' and a[1] not in body for a in tt['arms']):
                        zero_exit = True
                    if p is not None and p['l'] in clo and p['p'] and any(a[0] == '0' for a in tt['arms']):
                        # Ok(0) arm that breaks
                        tgt = [a[1] for a in tt['arms'] if a[0] == '0'][0]
                        if any(x not in body for x in h.reach_from([tgt]) if h.blocks[x]['term']['k'] in ('goto', 'return')) and \
                                not any(x in body and x == min(body) for x in [tgt]):
                            zero_exit = zero_exit or (tgt not in body or any(su not in body for su in h.succs(tgt)))
                    cond = ph.operand(tt['discr'], 0, '%d:T' % sb)
                    nc = norm_cmp(cond, True) if cond[0] in ('bin', 'un') else None
                    if nc and nc[0] in ('Eq', 'Ne') and any(x[0] == 'local' and x[1] in nl for x in expr_walk(cond)) and \
                            any(x[0] == 'const' and x[2] == 0 for x in (nc[1], nc[2])):
                        zero_exit = True
            acc = False
            for l in range(h.arg_count + 1, len(h.locals)):
                for (b3, s3, k3, node3) in h.whole_defs(l):
                    if k3 == 'assign' and b3 in body:
                        e3 = ph.rvalue(node3['rv'], 0, '%d:%d' % (b3, s3))
                        if any(y[0] == 'bin' and y[1].startswith('Add') and any(z[0] == 'local' and z[1] == l for z in expr_walk(y[2])) and
                               any(z[0] == 'local' and z[1] in nl or (z[0] == 'field' and z[2] == '0') for z in expr_walk(y[3])) for y in expr_walk(e3)):
                            acc = True
            if zero_exit and acc:
                ok = True
            else:
                why = 'the loop around the read %s' % ('does not accumulate the counts' if zero_exit else 'has no exit on a zero count (it is left after the first successful read)')
        g, s, ctext = needs
        if ok:
            ctx.ok(key, h.loc(reads[0][0]), 'fill loop (accumulates, leaves on 0); result compared in %s (%s)' % (g.key, ctext))
        else:
            ctx.violation(key, h.loc(reads[0][0]), '%s compares the count returned by %s with a required length (%s) but %s: a short read of a '
                          'source that still has data is taken for the end of the data' % (g.key, h.key, ctext, why))
    if n == 0:
        ctx.anchor_missing('read helper whose count is compared with a required length')


@rule('NO-READAHEAD', ['C16'], floor=1)
def no_readahead(ctx):
    """No reader of the crate puts a read-ahead buffer between itself and the caller's source: wrapping the
    source in `BufReader` (or an equivalent `take`/`read_to_end` on it) pulls bytes that belong to whatever
    follows the compressed stream and loses them when the reader is dropped. Who-may-call rule over the
    whole crate (tests excluded): there is no call to BufReader::new / BufReader::with_capacity at all."""
    F = ctx.facts
    hits = []
    for f in F.fns:
        for bi, t, c in f.calls():
            if c.is_('BufReader::new', 'BufReader::with_capacity'):
                hits.append((f, bi))
        # a field or local of type BufReader<..> is the same thing
    for p, a in F.adts.items():
        for v in a.get('variants', [])[:1]:
            for fl in v['fields']:
                if 'BufReader<' in fl['ty']:
                    hits.append((None, '%s.%s' % (p, fl['name'])))
    if hits:
        f, where = hits[0]
        ctx.violation('crate:no-read-ahead-buffer', f.loc(where) if f is not None else str(where),
                      'a BufReader wraps a decoder source (%s): after the end of the compressed stream the source is positioned up to a buffer '
                      'size past it' % (f.key if f is not None else where))
    else:
        ctx.ok('crate:no-read-ahead-buffer', '-', 'no BufReader construction and no BufReader-typed field in the crate (%d functions, %d types scanned)' % (len(F.fns), len(F.adts)))


# --------------------------------------------------------------------------- FLUSH-FORWARD

@rule('FLUSH-FORWARD', ['C05'], floor=8)
def flush_forward(ctx):
    """A writer that forwards `flush` to its sink forwards it on every successful path: in each `Write::flush`
    implementation that calls `flush` on something else (the sink, or an inner writer that owns the sink) at all,
    no `Ok(())` return is reachable from the entry without passing such a call. A shortcut (`if nothing pending
    { return Ok(()) }`) makes a retry after a failed sink flush report success without the sink ever having been
    flushed, and hides the sink's error from the second call on."""
    F = ctx.facts
    n = 0
    impls = [f for f in F.fns if f.impl and f.impl.get('trait') and last_seg(f.impl.get('trait')) == 'Write' and f.name == 'flush']
    # which implementations reach a sink at all: a flush call on a generic/dyn receiver, or on an implementation that does
    fwd = set()
    changed = True
    while changed:
        changed = False
        for f in impls:
            if f.key in fwd:
                continue
            for bi, t, c in f.calls():
                if c.name != 'flush' or not t['args']:
                    continue
                tg = F.resolve_callee(c)
                if (not tg and c.trait is not None) or any(g.key in fwd for g in tg):
                    fwd.add(f.key)
                    changed = True
                    break
    for f in impls:
        inner = set()
        for bi, t, c in f.calls():
            if c.name == 'flush' and t['args']:
                tg = F.resolve_callee(c)
                if tg and all(g is f for g in tg):
                    continue   # recursion on self
                if (not tg and c.trait is not None) or any(g.key in fwd for g in tg):
                    inner.add(bi)
        key = '%s:sink-flushed-on-every-Ok-path' % f.key
        if not inner:
            ctx.info(key, f.loc(0), 'does not forward flush at all (nothing buffered on behalf of the sink, or by design)')
            continue
        n += 1
        free = f.reach_from([0], stop=inner)
        bad = [b for b in sorted(free) for s in f.blocks[b]['stmts'] if s['k'] == 'assign' and s['lhs']['l'] == 0 and not s['lhs']['p'] and
               s['rv']['r'] == 'agg' and s['rv'].get('variant_name') == 'Ok']
        if bad:
            ctx.violation(key, f.loc(bad[0]), 'returns Ok(()) on a path that never calls the sink\'s flush although other paths do: after a failed '
                          'sink flush a retry takes this path and reports success; the sink\'s error is returned at most once')
        else:
            ctx.ok(key, f.loc(sorted(inner)[0]), 'every Ok return lies behind one of %d forwarded flush call(s)' % len(inner))
    if not n:
        ctx.anchor_missing('Write::flush implementations that forward to a sink')


# --------------------------------------------------------------------------- FRESH-LIMIT / NORMALIZE-AFTER-MARKER

@rule('FRESH-LIMIT', ['C07', 'C06'], floor=1)
def fresh_limit(ctx):
    """LZMAReader::read_decode runs the decoder in a loop (a second round is needed when the LZ window wraps inside one
    read call). The limit it hands to `LZDecoder::set_limit` in each round must be computed from what is left of the
    caller's buffer in THAT round: the value passed is defined inside the loop. A limit computed once before the loop
    lets the second round decode more than the buffer still holds, and `LZDecoder::flush` runs past its end (panic)
    for buffer sizes that straddle a wrap position - the result depends on the caller's read sizes."""
    F = ctx.facts
    fs = [f for f in F.fns if f.key == 'LZMAReader::read_decode']
    if not fs:
        ctx.anchor_missing('LZMAReader::read_decode')
        return
    f = fs[0]
    key = '%s:limit-recomputed-every-round' % f.key
    calls = [(bi, t) for bi, t, c in f.calls() if c.name == 'set_limit' and f.in_loop(bi)]
    if not calls:
        ctx.violation(key, f.loc(0), 'no set_limit call inside the decode loop: anchor lost (fail closed)')
        return
    bi, t = calls[0]
    body = min((b for h, b in f.loops().items() if bi in b), key=len)
    # locals the argument is computed from (through use/cast), and where they are defined
    roots = set()
    work = [op_local(t['args'][1])]
    seen = set()
    while work:
        l = work.pop()
        if l is None or l in seen:
            continue
        seen.add(l)
        for (db, ds, dk, node) in f.whole_defs(l):
            if dk == 'assign' and node['rv']['r'] in ('use', 'cast') and op_local(node['rv']['o']) is not None and not f.locals[l].get('name'):
                work.append(op_local(node['rv']['o']))
            else:
                roots.add((l, db))
    named = {l for l, _ in roots}
    stale = [l for l in named if not any(db in body for (l2, db) in roots if l2 == l)]
    if stale:
        ctx.violation(key, f.loc(bi), 'the limit passed to set_limit (`%s`) is only defined before the loop: the second round of one read call (window '
                      'wrap) uses the limit of the first and decodes more than the caller\'s buffer still holds' % (f.local_name(stale[0])))
    else:
        ctx.ok(key, f.loc(bi), 'the limit is assigned inside the loop in every round')


@rule('NORMALIZE-AFTER-MARKER', ['C16'], floor=1)
def normalize_after_marker(ctx):
    """`LZMADecoder::decode` ends with a range-coder normalisation, except when it meets the end marker: it returns
    early (as an Err sentinel) and skips it. The stream's last byte is only pulled from the source by that
    normalisation when the range is below 2^24 at that point, so the owner of the decoder has to do it: on the path
    of LZMAReader::read_decode where `end_marker_detected()` holds, `RangeDecoder::normalize` is called before the
    function can return. Without it the reader stops one byte short of the end of about one stream in eight and what
    follows the stream is mis-read."""
    F = ctx.facts
    fs = [f for f in F.fns if f.key == 'LZMAReader::read_decode']
    if not fs:
        ctx.anchor_missing('LZMAReader::read_decode')
        return
    f = fs[0]
    prov = Prov(f)
    key = '%s:marker-path-normalizes' % f.key
    norm = {bi for bi, t, c in f.calls() if c.name == 'normalize' and 'RangeDecoder' in c.path}
    starts = []
    for b in sorted(f.reachable):
        t = f.blocks[b]['term']
        if t['k'] != 'switch':
            continue
        se = switch_edges(f, b)
        if not se:
            continue
        cond = prov.operand(t['discr'], 0, '%d:T' % b)
        c = cond
        pol = True
        while c[0] == 'un' and c[1] == 'Not':
            c = c[2]
            pol = not pol
        if c[0] == 'call' and last_seg(c[1]) == 'end_marker_detected':
            starts.append((b, se[1] if pol else se[0]))
    if not starts:
        ctx.violation(key, f.loc(0), 'cannot find the test of end_marker_detected(): anchor lost (fail closed)')
        return
    b, tgt = starts[0]
    free = f.reach_from([tgt], stop=norm)
    rets = [x for x in free if f.blocks[x]['term']['k'] == 'return']
    if rets:
        ctx.violation(key, f.loc(b), 'after the end marker was detected a return is reachable without RangeDecoder::normalize: decode() skips its final '
                      'normalisation on the marker path, so the last byte of the stream may stay unread in the source')
    else:
        ctx.ok(key, f.loc(b), 'every path from the end-marker branch to a return calls RangeDecoder::normalize')


@rule('NORMALIZE-AT-END', ['C16'], floor=1)
def normalize_at_end(ctx):
    """Every symbol decoder normalises the range coder BEFORE its first bit, so after the last symbol of a stream one
    input byte can still be owed. `LZMADecoder::decode` pays it with a final `RangeDecoder::normalize` before it
    returns Ok: every owner relies on that (LZMAReader with a declared size and no end marker returns as soon as the
    size is reached and hands the source back; LZIP and LZMA2 check `is_finished` right after). Obligation: no
    `Ok(..)` result of the symbol-loop function (the LZMADecoder method that calls the window's copy method and takes
    the range decoder) is built on a path from the entry that does not pass a normalize call. Hoisting the call to
    'the owner' leaves the declared-size end of LZMAReader one byte short for about one stream in nine."""
    F = ctx.facts
    fs = [f for f in F.fns if f.self_adt and last_seg(f.self_adt) == 'LZMADecoder' and f.kind != 'closure' and f.loops()
          and any(c.name == 'repeat' for _, _, c in f.calls()) and 'Result' in str(f.d.get('output'))]
    if len(fs) != 1:
        return ctx.anchor_missing('LZMADecoder symbol loop (method with a loop that calls LZDecoder::repeat and returns a Result)')
    f = fs[0]
    key = '%s:Ok-only-after-normalize' % f.key
    norm = {bi for bi, t, c in f.calls() if c.name == 'normalize' and 'RangeDecoder' in c.path}
    okb = []
    for bi, b in enumerate(f.blocks):
        if b['cleanup'] or bi not in f.reachable:
            continue
        for s in b['stmts']:
            if s['k'] == 'assign' and s['lhs']['l'] == 0 and not s['lhs']['p'] and s['rv']['r'] == 'agg' and s['rv'].get('variant_name') == 'Ok':
                okb.append(bi)
    if not okb:
        return ctx.violation(key, f.loc(0), 'the symbol loop builds no Ok result: anchor lost (fail closed)')
    free = f.reach_from([0], stop=norm) | {0}
    bad = [b for b in okb if b in free and b not in norm]
    if bad:
        ctx.violation(key, f.loc(bad[0]), 'an Ok result is reachable without RangeDecoder::normalize: the byte the last symbol still owes stays in the '
                      'source, and a reader that stops on a declared size (no end marker) hands the source back one byte short')
    else:
        ctx.ok(key, f.loc(okb[0]), '%d normalize call(s); every Ok result is built behind one' % len(norm))


def _end_flags(F, rf):
    """(cands, flags): methods `read` forwards to on the same type, and the bool self fields whose truth leads straight to Ok(0)."""
    adt = rf.self_adt
    cands = [rf]
    for bi, t, c in rf.calls():
        for g in F.resolve_callee(c):
            if g.self_adt == adt and g.kind != 'closure' and g not in cands:
                cands.append(g)
    flags = set()
    for g in cands:
        prov = Prov(g)
        for s in g.reachable:
            e = switch_edges(g, s)
            if e is None:
                continue
            cond = prov.operand(g.blocks[s]['term']['discr'], 0, '%d:T' % s)
            sf = self_field_of(cond)
            if not sf or len(sf) != 1:
                continue
            region = g.reach_from([e[1]])
            if len(region) <= 4 and any(b in g.return_blocks() for b in region) and not any(
                    g.blocks[b]['term']['k'] == 'call' for b in region):
                flags.add(sf[0])
    return cands, flags


END_GATE_EXCEPTIONS = {}


@rule('END-FLAG-GATES', ['C16'], floor=3)
def end_flag_gates(ctx):
    """Across calls: a single-stream decoder that has reported the end of its stream must not touch the source when it is
    called again (`io::copy` followed by a defensive `read_to_end`, a caller that polls) - what follows the stream belongs
    to the caller. Each end flag (END-NO-PULL's notion: the bool field whose truth makes `read` return Ok(0) at once, and
    that some method stores `true` into) gates the source: in `read`, every call that can pull from the source is only
    reachable through the FALSE edge of a test of the flag, or is a call of a method of the same type for which the same
    holds (recursively). A flag that is set at the end but no longer tested in front of the next header read lets every
    further `read` parse the bytes behind the stream as a header."""
    from lzlint.core import field_path
    F = ctx.facts
    pull = pulling_fns(F)
    n = 0
    for rf in read_impls(F):
        adt = rf.self_adt
        # scope = the three readers C16 names; LZIPReader gates its source by an Option that is emptied at the end of a
        # member (a different idiom, and outside the property's wording), the filter readers have no stream end of their own
        if not adt or last_seg(adt) not in ('LZMAReader', 'LZMA2Reader', 'XZReader'):
            continue
        cands, flags = _end_flags(F, rf)
        set_true = set()
        for g in [m for m in F.fns if m.self_adt == adt and m.kind != 'closure']:
            for bi, b in enumerate(g.blocks):
                for st in b['stmts']:
                    if st['k'] == 'assign' and st['lhs']['l'] == 1 and st['lhs']['p'] and st['rv']['r'] == 'use':
                        fp = field_path(st['lhs'])
                        k = op_const(st['rv']['o'])
                        if fp and len(fp) == 1 and k is not None and k.get('v') in (1, True):
                            set_true.add(fp[0])
        for flag in sorted(flags & set_true):
            memo = {}

            def ungated(g, depth=0):
                """first pull site of g (block, callee, fn) not behind `!flag`, None if all are"""
                if g.path in memo:
                    return memo[g.path]
                memo[g.path] = None          # cycles: assume gated
                prov = Prov(g)
                res = None
                for bi, t, c in g.calls():
                    tg = F.resolve_callee(c)
                    direct = any(is_trait_call(c, READ_TRAITS, nm) for nm in ('read', 'read_exact'))
                    if not (direct or any(h.path in pull for h in tg)):
                        continue
                    gated = False
                    for sb, pol, cond in guards_of(g, bi, prov):
                        p, cc = pol, cond
                        while cc[0] == 'un' and cc[1] == 'Not':
                            cc = cc[2]
                            p = not p
                        if cc[0] != 'bin' and self_field_of(cc) == (flag,) and not p:
                            gated = True
                    if gated:
                        continue
                    same = [h for h in tg if h.self_adt == adt and h.kind != 'closure']
                    if same and not direct and depth < 4:
                        sub = [ungated(h, depth + 1) for h in same]
                        if all(x is None for x in sub):
                            continue
                        res = [x for x in sub if x is not None][0]
                        break
                    if (g.key, c.name) in END_GATE_EXCEPTIONS:
                        ctx.exception('%s:%s:%s' % (g.key, flag, c.name), g.loc(bi), END_GATE_EXCEPTIONS[(g.key, c.name)])
                        continue
                    res = (bi, c, g)
                    break
                memo[g.path] = res
                return res

            n += 1
            key = '%s:pulls-gated-by-%s' % (rf.key, flag)
            bad = ungated(rf)
            if bad:
                bi, c, g = bad
                ctx.violation(key, g.loc(bi), 'after the end of the stream was reported (`%s` is true) a further `read` can reach %s in %s, which pulls '
                              'from the source, without passing the false edge of a test of `%s`: bytes behind the stream are consumed' % (
                                  flag, c.name, g.key, flag))
            else:
                ctx.ok(key, rf.loc(0), 'every source pull reachable from read is behind `!%s`' % flag)
    if n == 0:
        ctx.anchor_missing('a single-stream reader with an end flag')


@rule('COPYOUT-BEFORE-OK', ['C07', 'C05'], floor=1)
def copyout_before_ok(ctx):
    """BCJReader keeps converted bytes (and, at the end of the input, the unconvertible tail) in a buffer of its own and
    copies them into the caller's buffer at the top of its loop. Whatever it returns as Ok must therefore come after
    that copy-out step in the same call: every block that builds an Ok result is dominated by the branch that guards the
    copy into the caller's buffer - except the one reached only through the true edge of `buf.is_empty()`. A shortcut
    `if buf.is_empty() || end_reached { return Ok(0) }` in front of it reports end of stream while the last 1-3 bytes
    (x86: up to 4, IA-64 more) still wait in the buffer, but only when the call that discovered the end of the input had
    less room than the tail is long - it depends on the caller's read sizes."""
    F = ctx.facts
    fs = [f for f in read_impls(F) if f.self_adt and last_seg(f.self_adt) == 'BCJReader']
    if not fs:
        return ctx.anchor_missing('impl Read for BCJReader')
    f = effective_read(F, fs[0]) if 'effective_read' in globals() else fs[0]
    prov = Prov(f)
    key = '%s:Ok-only-after-the-copy-out-step' % f.key
    # the copy-out: copy_from_slice whose destination derives from the caller's buffer parameter
    cp = []
    for bi, t, c in f.calls():
        if c.name == 'copy_from_slice' and any(x[0] == 'param' and x[1] == 2 for x in expr_walk(prov.operand(t['args'][0], 0, '%d:T' % bi))):
            cp.append(bi)
    if not cp:
        return ctx.violation(key, f.loc(0), 'no copy into the caller\'s buffer found: anchor lost (fail closed)')
    gates = [sb for sb, pol, cond in guards_of(f, cp[0], prov) if pol]
    if not gates:
        return ctx.violation(key, f.loc(cp[0]), 'the copy-out step is not guarded by a test: anchor lost (fail closed)')
    gate = max(gates, key=lambda b: sum(1 for g in gates if f.dominates(g, b)))   # innermost guard
    bad = None
    nok = 0
    for bi, b in enumerate(f.blocks):
        if b['cleanup'] or bi not in f.reachable:
            continue
        for s in b['stmts']:
            if s['k'] == 'assign' and s['lhs']['l'] == 0 and not s['lhs']['p'] and s['rv']['r'] == 'agg' and s['rv'].get('variant_name') == 'Ok':
                nok += 1
                if f.dominates(gate, bi):
                    continue
                gs = list(guards_of(f, bi, prov))
                empty_only = any(pol and cond[0] == 'call' and last_seg(cond[1]) == 'is_empty' for sb, pol, cond in gs)
                if not empty_only:
                    bad = bi
    if bad is not None:
        ctx.violation(key, f.loc(bad), 'an Ok result is built without passing the copy-out step (%s) and not only for an empty caller buffer: bytes that '
                      'wait in the reader\'s own buffer are never delivered when the end of the input was seen by an earlier call' % f.loc(gate))
    else:
        ctx.ok(key, f.loc(gate), '%d Ok result(s): all behind the copy-out step or for an empty buffer only' % nok)
