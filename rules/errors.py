"""Error discipline: ERR-SWALLOW (C04, C05, C08, C09)."""
from lzlint.framework import rule
from lzlint.core import (Prov, Callee, callee_of, strip_generics, last_seg, expr_walk, expr_str, op_local, op_place,
                         op_const)


def is_err_result(ty):
    ty = ty.replace('core::result::Result', 'std::result::Result')
    if not ty.startswith('std::result::Result<'):
        return False
    return ty.endswith(', std::io::Error>') or ty.endswith(', no_std::Error>') or ty.endswith(', Error>')


def is_err_ty(ty):
    return ty in ('std::io::Error', 'no_std::Error', 'Error')


WRAPPERS = ('Error::new', 'Error::other', 'From::from', 'Into::into', 'Box::new', 'ToString::to_string',
            'Error::kind', 'copy_error', 'Error::from', 'Error::to_string', 'Clone::clone', 'Some', 'Option::Some',
            'Result::Err', 'fmt::format', 'Arguments::new', 'Argument::new_display', 'Argument::new_debug',
            'Option::take', 'Option::replace')


class SinkSummary:
    """param i of local fn is 'sunk' (stored into shared/object state or returned as Err) on all paths."""

    def __init__(self, F):
        self.F = F
        self.memo = {}

    def param_sunk(self, fn, i, depth=0):
        k = (fn.path, i)
        if k in self.memo:
            return self.memo[k]
        self.memo[k] = False  # recursion guard
        if depth > 4:
            return False
        res, sunk, _places = walk_taint(self.F, fn, [0], {i}, self, depth + 1, want_sunk=True)
        ok = not res
        if res and sunk:
            # "first error wins": every non-storing path runs under `store.is_none() == false`
            prov = Prov(fn)
            ok = all(_path_has_cond(fn, prov, p, _is_store_occupied) for (_, _, p) in res)
        self.memo[k] = ok
        return ok


def path_conds(fn, prov, path):
    """Yield (cond_expr, polarity) for the bool switch edges of a path."""
    from lzlint.core import switch_edges
    for (sb, tgt) in path:
        e = switch_edges(fn, sb)
        if e is None:
            continue
        pol = (tgt == e[1])
        if e[0] == e[1]:
            continue
        yield prov.operand(fn.blocks[sb]['term']['discr']), pol


def _path_has_cond(fn, prov, path, pred):
    return any(pred(c, pol) for c, pol in path_conds(fn, prov, path))


def _is_store_occupied(cond, pol):
    """cond/polarity says: an Option store (mutex guard / field) already holds a value."""
    while cond[0] == 'un' and cond[1] == 'Not':
        cond = cond[2]
        pol = not pol
    if cond[0] == 'call':
        n = cond[1]
        if n.endswith('Option::is_none'):
            return pol is False
        if n.endswith('Option::is_some'):
            return pol is True
    return False


def _mentions_tainted(op, taint):
    p = op_place(op)
    return p is not None and p['l'] in taint


def _rv_tainted(rv, taint):
    r = rv['r']
    if r in ('use', 'cast', 'repeat', 'un'):
        return _mentions_tainted(rv['o'], taint)
    if r in ('ref', 'rawptr'):
        return rv['p']['l'] in taint
    if r == 'agg':
        return any(_mentions_tainted(o, taint) for o in rv['ops'])
    if r == 'bin':
        # comparisons do not carry the payload
        return False
    if r == 'discr':
        return False
    return False


def walk_taint(F, fn, starts, taint0, summ, depth=0, budget=20000, want_sunk=False):
    """Explore paths from `starts` with tainted locals taint0. Returns list of violating
    outcomes: (kind, bb) with kind in 'return-without-sink' / 'dropped'."""
    bad = []
    seen = set()
    stack = [(b, frozenset(taint0), ()) for b in starts]
    steps = 0
    sunk_any = [False]
    sink_locals = set()
    while stack:
        bb, taint, path = stack.pop()
        if (bb, taint) in seen:
            continue
        seen.add((bb, taint))
        steps += 1
        if steps > budget:
            bad.append(('budget-exceeded', bb, path))
            break
        taint = set(taint)
        sunk = False
        b = fn.blocks[bb]
        for s in b['stmts']:
            k = s['k']
            if k == 'assign':
                lhs = s['lhs']
                rv = s['rv']
                t = _rv_tainted(rv, taint)
                if t:
                    # sink: Err aggregate; store through pointer / into object state
                    if rv['r'] == 'agg' and rv.get('kind') == 'adt' and rv.get('variant_name') == 'Err':
                        sunk = True
                        break
                    if lhs['p'] and (lhs['p'][0] == '*' or 1 <= lhs['l'] <= fn.arg_count):
                        sunk = True
                        sink_locals.add(lhs['l'])
                        break
                    if lhs['l'] == 0:
                        # stored into the return place (e.g. Option<Error> return)
                        sunk = True
                        break
                    taint.add(lhs['l'])
                else:
                    if not lhs['p']:
                        taint.discard(lhs['l'])
            elif k == 'dead':
                taint.discard(s['l'])
        if sunk:
            sunk_any[0] = True
            continue
        if not taint:
            bad.append(('dropped', bb, path))
            continue
        t = b['term']
        k = t['k']
        if k == 'return':
            bad.append(('return-without-sink', bb, path))
            continue
        if k == 'drop':
            p = t['place']
            if not p['p']:
                taint.discard(p['l'])
            if not taint:
                bad.append(('dropped', bb, path))
                continue
        if k in ('call', 'tailcall'):
            c = callee_of(t)
            targs = [i for i, a in enumerate(t['args']) if _mentions_tainted(a, taint)]
            dest = t.get('dest')
            if targs:
                name = strip_generics(c['path']) if c else '<indirect>'
                if name.endswith('FromResidual::from_residual'):
                    sunk_any[0] = True
                    continue  # propagated with `?`
                handled = False
                if c:
                    cal = Callee(c)
                    locs = F.resolve_callee(cal)
                    if locs and not any(name.endswith(w) for w in ('copy_error',)):
                        # all candidate callees sink the argument
                        if all(summ.param_sunk(g, i + 1, depth) for g in locs for i in targs if i + 1 <= g.arg_count):
                            handled = True
                if handled:
                    sunk_any[0] = True
                    continue
                # moved into an opaque call: wrappers keep the taint on the result, mem::drop kills
                moved = [op_local(a) for i, a in enumerate(t['args']) if i in targs and 'm' in a]
                for l in moved:
                    if l is not None:
                        taint.discard(l)
                if name.endswith(('mem::drop', 'drop_in_place')):
                    pass
                else:
                    if dest is not None and not dest['p']:
                        taint.add(dest['l'])
                    elif dest is not None and dest['p']:
                        # result stored into a place: treat as store
                        if dest['p'][0] == '*' or 1 <= dest['l'] <= fn.arg_count:
                            sunk_any[0] = True
                            continue
            else:
                if dest is not None and not dest['p']:
                    taint.discard(dest['l'])
            if not taint:
                bad.append(('dropped', bb, path))
                continue
        succ = fn.succs(bb)
        if not succ:
            continue  # diverges (panic / unreachable): not a success
        for s in succ:
            stack.append((s, frozenset(taint), path + ((bb, s),) if k == 'switch' else path))
    if want_sunk:
        return bad, sunk_any[0], sink_locals
    return bad


def err_branch_sites(fn):
    """Yield (bb, place, err_targets) for switches on the discriminant of a crate-error Result."""
    for bb in fn.reachable:
        t = fn.blocks[bb]['term']
        if t['k'] != 'switch':
            continue
        d = op_local(t['discr'])
        if d is None:
            continue
        dd = fn.whole_defs(d)
        if len(dd) != 1 or dd[0][2] != 'assign' or dd[0][3]['rv']['r'] != 'discr':
            continue
        # the discr statement must be in this block (MIR puts it right before the switch)
        p = dd[0][3]['rv']['p']
        if not is_err_result(p['ty']):
            continue
        arms = {a[0]: a[1] for a in t['arms']}
        errs = []
        if '1' in arms:
            errs.append(arms['1'])
        else:
            errs.append(t['otherwise'])
        yield bb, p, errs


def _exc_end_marker(ctx, fn, prov, bb, place, bad):
    """LZMAReader::read_decode: the decoder raises an Err sentinel when it meets the end-marker
    distance; it may be dropped only under `remaining_size == u64::MAX && end_marker_detected()`."""
    U64MAX = 18446744073709551615
    for (_, _, path) in bad:
        size_ok = False
        marker_ok = False
        for cond, pol in path_conds(fn, prov, path):
            from lzlint.core import norm_cmp
            nc = norm_cmp(cond, pol) if cond[0] in ('bin', 'un') else None
            if nc and nc[0] == 'Eq':
                sides = [nc[1], nc[2]]
                if any(x[0] == 'const' and x[2] == U64MAX for x in sides) and \
                        any('remaining_size' in expr_str(x) for x in sides):
                    size_ok = True
            c = cond
            p = pol
            while c[0] == 'un' and c[1] == 'Not':
                c = c[2]
                p = not p
            if c[0] == 'call' and c[1].endswith('end_marker_detected') and p:
                marker_ok = True
        if not (size_ok and marker_ok):
            return False, ''
    return True, ('end-marker sentinel: the dropped Err is only reachable under remaining_size == u64::MAX && '
                  'end_marker_detected() (checked on the path conditions of every non-propagating path)')


def _exc_bcj2(ctx, fn, prov, bb, place, bad):
    """Bcj2Decoder::decode turns a short in-memory read into `false`; every caller must turn
    `false` into Err."""
    F = ctx.facts
    callers = 0
    for g in F.fns:
        for bi, t, c in g.calls():
            if c.path != fn.path:
                continue
            callers += 1
            pg = Prov(g)
            okc = False
            for sb in g.reachable:
                tt = g.blocks[sb]['term']
                if tt['k'] != 'switch':
                    continue
                cond = pg.operand(tt['discr'])
                pol_false_edge = None
                c2 = cond
                neg = False
                while c2[0] == 'un' and c2[1] == 'Not':
                    c2 = c2[2]
                    neg = not neg
                if c2[0] == 'call' and c2[3] is t:
                    from lzlint.core import switch_edges
                    e = switch_edges(g, sb)
                    if e is None:
                        continue
                    false_tgt = e[1] if neg else e[0]
                    # every path from the `false` result reaches an Err aggregate before return
                    region = g.reach_from([false_tgt], stop=set())
                    errb = {b for b in region for s in g.blocks[b]['stmts']
                            if s['k'] == 'assign' and s['rv']['r'] == 'agg' and s['rv'].get('variant_name') == 'Err'}
                    noerr = g.reach_from([false_tgt], stop=errb)
                    if errb and not any(g.blocks[b]['term']['k'] == 'return' for b in noerr):
                        okc = True
            if not okc:
                return False, ''
    if callers == 0:
        return False, ''
    return True, ('in-memory slice read converted to `false`; all %d callers turn `false` into Err on every path '
                  '(checked)' % callers)


def _retry_idiom(ctx, fn, prov, bb, place, bad):
    """Generic, checked exception: `Err(e) if e is Interrupted => retry`. Every non-propagating path
    must (a) run under a test that the payload is the Interrupted kind/variant and (b) end inside a
    loop that contains the call which produced the Result (the call is re-issued)."""
    # the call that produced the Result
    src_blocks = [bi for (bi, si, k, node) in fn.whole_defs(place['l']) if k == 'call']
    if not src_blocks:
        return False, ''
    loops = [body for h, body in fn.loops().items() if src_blocks[0] in body]
    if not loops:
        return False, ''
    body = min(loops, key=len)
    for (kind, endb, path) in bad:
        if endb not in body:
            return False, ''
        hit = False
        for (sb, tgt) in path:
            t = fn.blocks[sb]['term']
            cond = prov.operand(t['discr'], 0, '%d:T' % sb)
            # std: PartialEq::eq(&e.kind(), &ErrorKind::Interrupted) == true
            txt = expr_str(cond)
            if 'Interrupted' in txt and 'kind' in txt:
                from lzlint.core import switch_edges
                e = switch_edges(fn, sb)
                if e is not None and tgt == e[1]:
                    hit = True
            # no_std: match on the payload enum, arm = Interrupted variant
            dl = op_local(t['discr'])
            dd = fn.whole_defs(dl) if dl is not None else []
            if len(dd) == 1 and dd[0][2] == 'assign' and dd[0][3]['rv']['r'] == 'discr':
                p = dd[0][3]['rv']['p']
                if p['ty'].endswith('Error') and p['l'] == place['l']:
                    adt = ctx.facts.adt('Error')
                    if adt:
                        idx = [v['idx'] for v in adt['variants'] if v['name'] == 'Interrupted']
                        arms = {a[1]: int(a[0]) for a in t['arms']}
                        if idx and arms.get(tgt) == idx[0]:
                            hit = True
        if not hit:
            return False, ''
    return True, ('retry idiom: the dropped error is only the Interrupted kind (checked on the path conditions) and the call '
                  'that produced it is re-issued by the enclosing loop')


EXCEPTIONS = {
    'LZMAReader::read_decode:on-Err-of:decode': _exc_end_marker,
    'Bcj2Decoder::decode:on-Err-of:read_u32_be': _exc_bcj2,
}


def _only_err_returns_from(fn, bb):
    """Every path from block bb to a return passes a block that builds `_0 = Err(..)`."""
    errb = {b for b in fn.reach_from([bb]) for s in fn.blocks[b]['stmts']
            if s['k'] == 'assign' and s['lhs']['l'] == 0 and not s['lhs']['p'] and s['rv']['r'] == 'agg'
            and s['rv'].get('variant_name') == 'Err'}
    if not errb or bb in errb:
        return bool(errb)
    noerr = fn.reach_from([bb], stop=errb)
    return not any(fn.blocks[b]['term']['k'] == 'return' for b in noerr)


def _is_drop_elaboration(fn, starts):
    """The Err edge of a compiler-generated re-test of a Result's discriminant on a scope exit: everything up to
    the return is drop glue (drops, drop-flag updates, discriminant reads), no user statement."""
    seen = set()
    stack = list(starts)
    while stack:
        b = stack.pop()
        if b in seen:
            continue
        seen.add(b)
        if len(seen) > 40:
            return False
        blk = fn.blocks[b]
        for s in blk['stmts']:
            if s['k'] != 'assign':
                continue
            rv = s['rv']
            if rv['r'] == 'discr':
                continue
            if rv['r'] == 'use' and op_const(rv['o']) is not None and not s['lhs']['p'] and s['lhs']['l'] > fn.arg_count and fn.locals[s['lhs']['l']]['ty'] == 'bool' \
                    and not fn.locals[s['lhs']['l']].get('name'):
                continue
            return False
        k = blk['term']['k']
        if k == 'return':
            continue
        if k not in ('drop', 'goto', 'switch'):
            return False
        stack.extend(fn.succs(b))
    return True


def _source_of(fn, prov, place):
    e = prov.place(place)
    for x in expr_walk(e):
        if x[0] == 'call':
            return last_seg(x[1])
    return expr_str(e)[:40]


def run_err_swallow(ctx, scope=None):
    F = ctx.facts
    summ = SinkSummary(F)
    nsite = 0
    for fn in F.fns:
        if scope is not None and not scope(fn):
            continue
        sites = list(err_branch_sites(fn))
        if not sites:
            continue
        prov = Prov(fn)
        counts = {}
        # drop-elaboration re-switches on the same Result: keep the site dominating the others
        keep = []
        for s1 in sites:
            if any(s2 is not s1 and s2[1]['l'] == s1[1]['l'] and fn.dominates(s2[0], s1[0]) and s2[0] != s1[0]
                   for s2 in sites):
                continue
            keep.append(s1)
        keep = [s1 for s1 in keep if not _is_drop_elaboration(fn, s1[2])]
        for bb, place, errs in keep:
            src = _source_of(fn, prov, place)
            base = '%s:on-Err-of:%s' % (fn.key if fn.kind != 'closure' else fn.npath, src)
            counts[base] = counts.get(base, 0) + 1
            key = base if counts[base] == 1 else '%s#%d' % (base, counts[base])
            nsite += 1
            bad, sunk, places = walk_taint(F, fn, errs, {place['l']}, summ, want_sunk=True)
            if not bad:
                ctx.ok(key, fn.loc(bb), 'error payload reaches Err return / error store / shared state on every path')
                continue

            def _slot_occupied(cond, pol, places=places):
                # the test must be on the very slot the other paths store into (an out-parameter / a place behind a pointer local)
                if not _is_store_occupied(cond, pol):
                    return False
                c = cond
                while c[0] == 'un':
                    c = c[2]
                return any((x[0] == 'param' and x[1] in places) or (x[0] == 'local' and x[1] in places) for a in c[2] for x in expr_walk(a))
            if sunk and places and all(_path_has_cond(fn, prov, p, _slot_occupied) for (_, _, p) in bad):
                ctx.ok(key, fn.loc(bb), 'error payload is stored into an error slot; the only paths that do not store it run under '
                       '"the slot already holds an error" (first error wins)')
                continue
            if all(k == 'dropped' and _only_err_returns_from(fn, b) for k, b, _ in bad):
                ctx.ok(key, fn.loc(bb), 'error payload is propagated, or dropped only on paths that go on to return another Err '
                       '(the caller still gets an error)')
                continue
            kinds = sorted({k for k, _, _ in bad})
            where = fn.loc(bad[0][1])
            exc = EXCEPTIONS.get(key)
            if exc:
                ok, reason = exc(ctx, fn, prov, bb, place, bad)
                if ok:
                    ctx.exception(key, where, reason)
                    continue
            ok, reason = _retry_idiom(ctx, fn, prov, bb, place, bad)
            if ok:
                ctx.exception(key, where, reason)
                continue
            ctx.violation(key, where, 'an Err of %s is turned into data or success (%s): the error never reaches '
                          'the caller' % (src, ', '.join(kinds)))
    return nsite


def result_method_sites(ctx, scope=None):
    """`.ok()`, `.unwrap_or*()`, `.is_err()/.is_ok()` with the value dropped, on crate-error Results."""
    F = ctx.facts
    for fn in F.fns:
        if scope is not None and not scope(fn):
            continue
        for bi, t, c in fn.calls():
            if not c.is_('Result::ok', 'Result::unwrap_or', 'Result::unwrap_or_default', 'Result::unwrap_or_else',
                         'Result::map_or', 'Result::map_or_else', 'Result::or', 'Result::or_else', 'Result::is_err',
                         'Result::is_ok', 'Result::err', 'Result::unwrap_or_else', 'Result::is_ok_and',
                         'Result::is_err_and'):
                continue
            args = c.d.get('args', [])
            if len(args) < 2 or not is_err_ty(args[1]):
                continue
            prov = Prov(fn)
            src = _source_of(fn, prov, op_place(t['args'][0])) if op_place(t['args'][0]) else '?'
            key = '%s:%s-on:%s' % (fn.key if fn.kind != 'closure' else fn.npath, c.name, src)
            if c.name in ('is_err', 'is_ok', 'err'):
                ctx.info(key, fn.loc(bi), 'inspection of a crate-error Result')
                continue
            ctx.violation(key, fn.loc(bi), 'Result<_, crate error>::%s discards the error' % c.name)


@rule('ERR-SWALLOW', ['C05'], configs=('def',), floor=15, thorough_configs=('std-noopt',))
def err_swallow(ctx):
    """No crate error is converted into data or success: from the Err edge of every branch on a
    Result<_, crate error>, the payload reaches the function's Err return, an error field/store,
    or shared state on every path to a normal exit."""
    n = run_err_swallow(ctx)
    result_method_sites(ctx)
    if n == 0:
        ctx.anchor_missing('branch on Result<_, crate error>')


CONTAINER_READER_ADTS = ('XZReader', 'LZIPReader', 'LZIPReaderMT', 'StreamHeader', 'BlockHeader', 'Index', 'StreamFooter',
                         'LZIPHeader', 'LZIPTrailer', 'LZMA2Reader', 'LZMAReader', 'ChecksumCalculator')


@rule('ERR-SWALLOW-DEC', ['C04'], configs=('def',), floor=4)
def err_swallow_dec(ctx):
    """Container readers (XZ, LZIP and the LZMA/LZMA2 readers below them): a header/trailer/check
    failure is never converted into data, an empty result or a clean end of stream."""
    scope = lambda f: (f.self_adt and last_seg(f.self_adt) in CONTAINER_READER_ADTS) or f.file in ('src/lzip.rs', 'src/xz.rs')
    n = run_err_swallow(ctx, scope)
    result_method_sites(ctx, scope)
    if n == 0:
        ctx.anchor_missing('branch on Result<_, crate error> in the container readers')


@rule('ERR-SWALLOW-MT', ['C08', 'C09'], configs=('def',), floor=9)
def err_swallow_mt(ctx):
    """Multi-threaded pipelines: every error a coordinator or worker obtains (inner reader, sink,
    codec) reaches the shared error store or the caller."""
    from rules.concurrency import mt_types, worker_fns
    F = ctx.facts
    mts = {p for p, _, _, _ in mt_types(F)}
    ws = {f.path for f, _, _ in worker_fns(F)}
    scope = lambda f: f.self_adt in mts or f.path in ws
    n = run_err_swallow(ctx, scope)
    if n == 0:
        ctx.anchor_missing('branch on Result<_, crate error> in the MT pipelines')


# --------------------------------------------------------------------------- ERR-SLOT

@rule('ERR-SLOT', ['C05', 'C06', 'C10'], configs=('def',), floor=2)
def err_slot(ctx):
    """The stream range decoder cannot fail on its hot path: `read_u8` returns a zero byte for a failing source
    and parks the first error in a slot (`RangeDecoder.read_error`). That is only sound if the owner of a stream
    decoder empties the slot before anything decoded from those zero bytes gets out. For every type that holds a
    `RangeDecoder<R>` over a byte stream (not the in-memory chunk buffer of LZMA2): in each of its methods, every
    path from a call that hands out `&mut self.<rc>` (decode, normalize: they may read bytes) to a release of
    decoded data (`LZDecoder::flush`) or to an Ok return passes through `take_read_error`, and a `Some` from
    `take_read_error` leads to an Err return on every path. Clause 0: the slot exists - the stream `read_u8`
    stores the Err payload through its out-parameter (otherwise ERR-SWALLOW reports it as swallowed)."""
    from lzlint.core import switch_edges
    F = ctx.facts
    # clause 0: slot writer
    writers = [f for f in F.fns if f.key.endswith('RangeReader>::read_u8') and 'RangeDecoderBuffer' not in f.key]
    if not writers:
        ctx.anchor_missing('stream implementation of RangeReader::read_u8')
    for f in writers:
        key = '%s:source-error-parked-in-slot' % f.key
        st = [(bi, s) for bi in f.reachable for s in f.blocks[bi]['stmts'] if s['k'] == 'assign' and s['lhs']['p'] and
              s['lhs']['p'][0] == '*' and 1 <= s['lhs']['l'] <= f.arg_count and 'Option<' in s['lhs'].get('ty', 'Option<')]
        slot_params = [i for i in range(1, f.arg_count + 1) if 'Option<' in f.locals[i]['ty'] and 'Error' in f.locals[i]['ty']]
        stores = [(bi, s) for bi, s in st if s['lhs']['l'] in slot_params]
        if slot_params and stores:
            ctx.ok(key, f.loc(stores[0][0]), 'stores into its `&mut Option<Error>` parameter')
        else:
            ctx.violation(key, f.loc(0), 'the stream read_u8 has no error slot parameter it stores into: a failing source becomes zero bytes '
                          'and nobody can find out')
    # owners of a stream range decoder
    n = 0
    for path, adt in F.adts.items():
        for fl in (adt['variants'][0]['fields'] if adt.get('variants') else []):
            ty = fl['ty']
            if not ty.startswith('range_dec::RangeDecoder<') or 'RangeDecoderBuffer' in ty:
                continue
            fname = fl['name']
            for f in F.fns:
                if f.self_adt != path or f.kind == 'closure':
                    continue
                feeders, takers, releases = set(), set(), set()
                for bi, t, c in f.calls():
                    hands_rc = False
                    for a in t['args']:
                        l = op_local(a)
                        if l is None:
                            continue
                        for (dbi, dsi, dk, node) in f.whole_defs(l):
                            if dk != 'assign':
                                continue
                            rv = node['rv']
                            # &mut (*self).rc  or a reborrow of it
                            seen_l = set()
                            while rv['r'] == 'ref' and rv['p']['p'] == ['*'] and rv['p']['l'] not in seen_l and rv['p']['l'] > f.arg_count:
                                seen_l.add(rv['p']['l'])
                                dd = [d for d in f.whole_defs(rv['p']['l']) if d[2] == 'assign']
                                if len(dd) != 1:
                                    break
                                rv = dd[0][3]['rv']
                            if rv['r'] == 'ref' and rv.get('mut') and rv['p']['l'] == 1 and len(rv['p']['p']) == 2 and \
                                    isinstance(rv['p']['p'][1], dict) and rv['p']['p'][1].get('n') == fname:
                                hands_rc = True
                    if c.name == 'take_read_error':
                        takers.add(bi)
                    elif hands_rc:
                        feeders.add(bi)
                    if c.name == 'flush' and c.path.endswith('LZDecoder::flush'):
                        releases.add(bi)
                if not feeders:
                    continue
                n += 1
                key = '%s:slot-emptied-before-data-is-released' % f.key
                okret = {b for b in f.reachable for s in f.blocks[b]['stmts'] if s['k'] == 'assign' and s['lhs']['l'] == 0 and
                         not s['lhs']['p'] and s['rv']['r'] == 'agg' and s['rv'].get('variant_name') == 'Ok'}
                bad = None
                for fb in sorted(feeders):
                    tgt = f.blocks[fb]['term'].get('target')
                    if tgt is None:
                        continue
                    free = f.reach_from([tgt], stop=takers)
                    hit = sorted((free & releases) | (free & okret))
                    if hit:
                        bad = (fb, hit[0])
                        break
                if bad:
                    ctx.violation(key, f.loc(bad[0]), 'after the range decoder was run (call at line %s) decoded data is released / Ok is returned (line %s) '
                                  'without looking at the error slot: bytes decoded from the zeros that stand in for a failed or exhausted source '
                                  'reach the caller as data' % (f.blocks[bad[0]]['term'].get('line'), f.loc(bad[1])))
                    continue
                # a Some from take_read_error becomes an Err return
                bad2 = None
                for tb in sorted(takers):
                    t = f.blocks[tb]['term']
                    dest = t['dest']['l']
                    nb = t.get('target')
                    sw = None
                    cur = nb
                    for _ in range(4):
                        tt = f.blocks[cur]['term']
                        if tt['k'] == 'switch':
                            sw = cur
                            break
                        if tt['k'] != 'goto':
                            break
                        cur = tt['target']
                    if sw is None:
                        bad2 = (tb, 'its result is not tested')
                        break
                    arms = {a[0]: a[1] for a in f.blocks[sw]['term']['arms']}
                    some = arms.get('1', None)
                    if some is None:
                        some = f.blocks[sw]['term']['otherwise']
                    if not _only_err_returns_from(f, some):
                        bad2 = (tb, 'a path from `Some(error)` reaches a return without building an Err')
                        break
                if bad2:
                    ctx.violation(key, f.loc(bad2[0]), 'take_read_error: %s' % bad2[1])
                else:
                    ctx.ok(key, f.loc(sorted(feeders)[0]), '%d call(s) hand out &mut self.%s; each is followed by take_read_error (%d call(s)) before '
                           'LZDecoder::flush / an Ok return, and Some(error) always becomes an Err return' % (len(feeders), fname, len(takers)))
    if not n:
        ctx.anchor_missing('a method of a type holding a stream RangeDecoder that runs the decoder')
