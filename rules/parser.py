"""PARSER-REPS (C01): the optimal parser's bookkeeping of the four repeat distances must rotate them exactly
as the coder does, otherwise the rep index the parser priced refers to a different distance than the one the
encoder (and then the decoder) uses."""
import re

from lzlint.core import *
from lzlint.framework import rule
from lzlint.constexec import ConstExec, Undecided

REPS_CELL = re.compile(r'^(.*)\.reps\[(\d+)\]$')


def _perm(ce):
    """{dst_base: [source index | 'NEW' | None] * 4} from the final memory of a ConstExec."""
    out = {}
    for k, v in ce.mem.items():
        m = REPS_CELL.match(k)
        if not m or not (k.startswith('*') or '.coder' in k or '[' in m.group(1)):
            continue
        base, i = m.group(1), int(m.group(2))
        src = 'NEW'
        if isinstance(v, tuple) and v[0] == 'sym' and v[1].startswith('PRE:'):
            m2 = REPS_CELL.match(v[1][4:])
            if m2:
                src = int(m2.group(2))
        out.setdefault(base, [None] * 4)
        if i < 4:
            out[base][i] = src
    return out


def _run_perm(f, assume, start, stop=()):
    """Run with forking on symbolic branches; all completed paths must agree on the reps cells."""
    ce = ConstExec(f)
    ce.fork = True
    for k, v in assume.items():
        ce.write(k, v)
    ce.run(start, stop=stop, tracked=lambda key: '.reps' in key)
    perms = [_perm(x) for x in [ce] + ce.finals]
    first = perms[0]
    for p in perms[1:]:
        if p != first:
            raise Undecided('paths disagree on the repeat distances: %s vs %s' % (first, p))
    return first, len(perms)


def _reps_owners(f, blocks=None):
    """owner ADTs of the `reps` fields stored to in f (optionally only in the given blocks)"""
    out = []
    for bi, b in enumerate(f.blocks):
        if b['cleanup'] or (blocks is not None and bi not in blocks):
            continue
        for s in b['stmts']:
            if s['k'] == 'assign':
                for e in s['lhs']['p']:
                    if isinstance(e, dict) and e.get('n') == 'reps':
                        out.append(e.get('o'))
    return out


def _const_store_count(f):
    return len(_reps_owners(f))


@rule('PARSER-REPS', ['C01'], floor=9)
def parser_reps(ctx):
    """For each value 0..3 of the selector the encoder's own update of its repeat distances (coder side) and
    the optimal parser's copy into the next optimum node (parser side) are read off by constant-propagating
    evaluation of the MIR (loops over concrete integer ranges unrolled, every other value symbolic) and must
    be the same permutation of the old distances; a normal match must shift all four down."""
    F = ctx.facts
    # coder side: a method with a u32 parameter compared for equality with constants, storing into `reps`
    coder = None
    for f in F.fns:
        if f.kind == 'closure' or _const_store_count(f) < 3 or f.loops():
            continue
        prov = Prov(f)
        eq_params = {}
        for s in f.reachable:
            t = f.blocks[s]['term']
            if t['k'] != 'switch':
                continue
            cond = prov.operand(t['discr'], 0, '%d:T' % s)
            for x in expr_walk(cond):
                if x[0] == 'bin' and x[1] in ('Eq', 'Ne') and x[2][0] == 'param' and x[3][0] == 'const':
                    eq_params.setdefault(x[2][1], set()).add(x[3][2])
        sel = [p for p, cs in eq_params.items() if len(cs) >= 3]
        if len(sel) == 1 and 'Enc' in (f.self_adt or ''):
            coder = (f, sel[0])
    if coder is None:
        return ctx.anchor_missing('encoder method that rotates the repeat distances by a rep index parameter')
    cf, cparam = coder
    coder_owners = set(_reps_owners(cf))
    expected = {}
    for k in range(4):
        try:
            p, npaths = _run_perm(cf, {'_%d' % cparam: k}, 0)
        except Undecided as e:
            return ctx.violation('coder:%s:rep%d' % (cf.key, k), cf.loc(0), 'cannot read off the coder\'s rotation: %s' % e)
        perm = list(range(4))
        for base, cells in p.items():
            for i, s in enumerate(cells):
                if s is not None:
                    perm[i] = s
        expected[k] = perm
        ctx.ok('coder:rep%d' % k, cf.loc(0), '%s: reps := %s' % (cf.key, ['r%s' % x if isinstance(x, int) else x for x in perm]))
    # parser side: switches `X < 4` on an i32 local with stores into `.reps` in the true region
    n = 0
    for f in F.fns:
        if f.kind == 'closure' or f is cf:
            continue
        for s in f.reachable:
            blk = f.blocks[s]
            t = blk['term']
            if t['k'] != 'switch':
                continue
            dl = op_local(t['discr'])
            if dl is None:
                continue
            X = None
            for st in blk['stmts']:
                if st['k'] == 'assign' and st['lhs']['l'] == dl and not st['lhs']['p'] and st['rv']['r'] == 'bin' and st['rv']['op'] == 'Lt':
                    la = op_local(st['rv']['a'])
                    # right operand: constant 4 (possibly through a cast temp)
                    for st2 in blk['stmts']:
                        if st2['k'] == 'assign' and st2['lhs']['l'] == la and not st2['lhs']['p'] and st2['rv']['r'] == 'use':
                            X = op_local(st2['rv']['o'])
            if X is None or f.local_ty(X) != 'i32':
                continue
            e = switch_edges(f, s)
            if e is None:
                continue
            region = f.reach_from([e[1]], stop={b for b in f.pdom.get(s, set()) if b != s})
            owners = set(_reps_owners(f, region))
            if not owners or owners & coder_owners:
                continue   # no reps stores here, or this is the coder's own state (checked by CODEC-MIRROR)
            stop = {b for b in f.pdom.get(s, set()) if b != s and b != -1}
            for k in range(4):
                n += 1
                key = '%s:rep%d' % (f.key, k)
                try:
                    p, npaths = _run_perm(f, {'_%d' % X: k}, s, stop)
                except Undecided as ex:
                    ctx.violation(key, f.loc(s), 'the parser\'s update of the repeat distances for rep index %d cannot be read off (%s): '
                                  'it is no longer provably the coder\'s rotation %s' % (k, ex, expected[k]))
                    continue
                dsts = [(b, c) for b, c in p.items() if any(x is not None for x in c)]
                if len(dsts) != 1:
                    ctx.violation(key, f.loc(s), 'expected one destination `reps` array, found %d' % len(dsts))
                    continue
                got = dsts[0][1]
                if got == expected[k]:
                    ctx.ok(key, f.loc(s), 'parser copies reps as %s = coder' % got)
                else:
                    ctx.violation(key, f.loc(s), 'for rep index %d the parser\'s next node gets old distances %s but the coder rotates them to %s: '
                                  'the rep indices priced by the parser then denote other distances than the ones encoded' % (
                                      k, got, expected[k]))
            # normal match: selector >= 4
            n += 1
            key = '%s:match' % f.key
            try:
                p, npaths = _run_perm(f, {'_%d' % X: 4 + 5}, s, stop)
                dsts = [c for b, c in p.items() if any(x is not None for x in c)]
                got = dsts[0] if len(dsts) == 1 else None
                if got is not None and got[1:] == [0, 1, 2] and got[0] == 'NEW':
                    ctx.ok(key, f.loc(s), 'a match shifts the old distances down: %s' % got)
                else:
                    ctx.violation(key, f.loc(s), 'after a normal match the parser\'s node holds %s instead of [NEW, r0, r1, r2]' % got)
            except Undecided as ex:
                ctx.violation(key, f.loc(s), 'the parser\'s update for a normal match cannot be read off (%s)' % ex)
    if n == 0:
        ctx.anchor_missing('parser-side rotation of the repeat distances')


# --------------------------------------------------------------------------- SLOT-TABLE-EXTENT

@rule('SLOT-TABLE-EXTENT', ['C01'], floor=1)
def slot_table_extent(ctx):
    """The encoder's distance-slot price table has one entry per slot a distance can fall into. Distances are
    coded minus one, so the largest value is `dict_size - 1`, and the table is indexed with `get_dist_slot(dist)`
    (non-decreasing in dist; that is an assumption about get_dist_slot, stated here, not proved). The table size
    must therefore be `get_dist_slot(e) + k` with e >= dict_size - 1 and k >= 1 (or a constant covering all 64
    slots). `get_dist_slot(dict_size)` without the + 1 is one entry short whenever dict_size and dict_size - 1
    share a slot, i.e. for every dictionary size that is not 2^n or 3*2^(n-1): a match in the topmost slot indexes
    past the table."""
    F = ctx.facts
    fs = [f for f in F.fns if f.key == 'LZMAEncoder::new']
    if not fs:
        ctx.anchor_missing('LZMAEncoder::new')
        return
    f = fs[0]
    prov = Prov(f)
    key = 'LZMAEncoder::new:dist-slot-price-table-covers-the-topmost-slot'
    size_exprs = []
    for b in f.reachable:
        for si, s in enumerate(f.blocks[b]['stmts']):
            if s['k'] == 'assign' and s['rv']['r'] == 'agg':
                names = s['rv'].get('field_names') or []
                for i, o in enumerate(s['rv']['ops']):
                    nm = names[i] if i < len(names) else None
                    if nm and 'dist_slot_prices_size' in nm:
                        size_exprs.append((b, prov.operand(o, 0, '%d:%d' % (b, si))))
    if not size_exprs:
        # fall back: the local named dist_slot_price_size
        for i, l in enumerate(f.locals):
            if (l.get('name') or '').startswith('dist_slot_price'):
                for (bi, si, k, node) in f.whole_defs(i):
                    if k == 'assign':
                        size_exprs.append((bi, prov.rvalue(node['rv'], 0, '%d:%d' % (bi, si))))
    if not size_exprs:
        ctx.violation(key, f.loc(0), 'cannot find the size of the distance-slot price table (anchor lost, fail closed)')
        return
    b, e = size_exprs[0]
    x = e
    while x[0] == 'cast':
        x = x[-1]
    if x[0] == 'const' and isinstance(x[2], int):
        if x[2] >= 64:
            ctx.ok(key, f.loc(b), 'constant size %d covers all 64 slots' % x[2])
        else:
            ctx.violation(key, f.loc(b), 'constant table size %d is below the 64 distance slots' % x[2])
        return
    k = 0
    if x[0] == 'field' and isinstance(x[1], tuple) and x[1][0] == 'bin' and x[1][1] == 'AddWithOverflow' and str(x[2]) == '0':
        x = ('bin', 'Add', x[1][2], x[1][3])
    if x[0] == 'bin' and x[1] == 'Add':
        for a, c in ((x[2], x[3]), (x[3], x[2])):
            if c[0] == 'const' and isinstance(c[2], int):
                k = c[2]
                x = a
                break
    if not (x[0] == 'call' and last_seg(x[1]) == 'get_dist_slot' and len(x[2]) == 1):
        ctx.violation(key, f.loc(b), 'table size %s is not of the form get_dist_slot(e) + k: not decided (fail closed)' % expr_str(e)[:80])
        return
    arg = x[2][0]
    while arg[0] == 'cast':
        arg = arg[-1]
    off = 0
    if arg[0] == 'field' and isinstance(arg[1], tuple) and arg[1][0] == 'bin' and arg[1][1] in ('SubWithOverflow', 'AddWithOverflow') and str(arg[2]) == '0':
        arg = ('bin', arg[1][1][:3], arg[1][2], arg[1][3])
    if arg[0] == 'bin' and arg[1] in ('Sub', 'Add') and arg[3][0] == 'const' and isinstance(arg[3][2], int):
        off = -arg[3][2] if arg[1] == 'Sub' else arg[3][2]
        arg = arg[2]
    is_dict = 'dict_size' in expr_str(arg)
    if not is_dict:
        ctx.violation(key, f.loc(b), 'get_dist_slot is applied to %s, not to the dictionary size: not decided (fail closed)' % expr_str(arg)[:60])
        return
    if off >= -1 and k >= 1:
        ctx.ok(key, f.loc(b), 'size = get_dist_slot(dict_size%+d) + %d: covers the slot of the largest coded distance dict_size - 1' % (off, k))
    else:
        ctx.violation(key, f.loc(b), 'size = get_dist_slot(dict_size%+d) + %d: the slot of the largest coded distance (dict_size - 1) needs '
                      'get_dist_slot(dict_size - 1) + 1 entries; this is one short whenever dict_size and dict_size - 1 fall into the same slot '
                      '(every dictionary size that is not 2^n or 3*2^(n-1)): a match in the topmost slot indexes past the price table' % (off, k))
