"""Container format rules: BYTE-CONTRA, STREAM-RESET (C12), GUARD-COMPARE (C04), TABLE-INVERSE (C02),
SPEC-CONST (C03)."""
from lzlint.framework import rule
from lzlint.core import (Prov, Callee, callee_of, strip_generics, last_seg, expr_walk, expr_str, op_local, op_place,
                         const_val, guards_of, norm_cmp, switch_edges, self_field_of, reachable_without_edge)
from lzlint.byteeval import ByteEval, fold, Unknown
from rules.units import methods_of, self_field_stores, mentions_self_field

READER_PARSE_ADTS = ('XZReader', 'StreamHeader', 'BlockHeader', 'Index', 'StreamFooter', 'LZIPReader', 'LZIPHeader',
                     'LZIPTrailer', 'LZIPReaderMT')


def const_bytes(e):
    """Byte tuple of a constant array/slice expression (possibly behind refs/casts)."""
    while isinstance(e, tuple) and e[0] in ('ref', 'deref', 'cast'):
        e = e[-1] if e[0] == 'cast' else e[1]
    if isinstance(e, tuple) and e[0] == 'const' and isinstance(e[2], tuple):
        return e[2]
    if isinstance(e, tuple) and e[0] == 'agg' and e[1] == 'array' and all(x[0] == 'const' for x in e[2]):
        return tuple(x[2] for x in e[2])
    return None


def array_local(e):
    while isinstance(e, tuple) and e[0] in ('ref', 'deref', 'cast'):
        e = e[-1] if e[0] == 'cast' else e[1]
    if isinstance(e, tuple) and e[0] == 'local':
        return e[1]
    return None


@rule('BYTE-CONTRA', ['C12'], floor=1)
def byte_contra(ctx):
    """No success exit of a parser may be dead because of contradictory tests on the same input
    byte: where an array is compared with a constant magic and element k of the array was stored
    from a byte whose value set on every path to the comparison excludes magic[k], the equality edge
    (and the success behind it) can never be taken."""
    F = ctx.facts
    n = 0
    for f in F.fns:
        if not f.self_adt or last_seg(f.self_adt) not in READER_PARSE_ADTS:
            continue
        prov = None
        for bi, t, c in f.calls():
            if not (c.trait and last_seg(c.trait) == 'PartialEq' and c.name in ('eq', 'ne')):
                continue
            prov = prov or Prov(f)
            a0, a1 = prov.operand(t['args'][0], 0, '%d:T' % bi), prov.operand(t['args'][1], 0, '%d:T' % bi)
            cb, arr = const_bytes(a1), array_local(a0)
            if cb is None or arr is None:
                cb, arr = const_bytes(a0), array_local(a1)
            if cb is None or arr is None:
                continue
            # element stores arr[k] = X with constant k
            stores = []
            for b2, blk in enumerate(f.blocks):
                if blk['cleanup']:
                    continue
                for si, s in enumerate(blk['stmts']):
                    if s['k'] != 'assign' or s['lhs']['l'] != arr or len(s['lhs']['p']) != 1:
                        continue
                    pe = s['lhs']['p'][0]
                    k = None
                    if isinstance(pe, dict) and 'ci' in pe:
                        k = pe['ci']
                    elif isinstance(pe, dict) and 'i' in pe:
                        ie = prov.local(pe['i'], 0, '%d:%d' % (b2, si))
                        if ie[0] == 'const':
                            k = ie[2]
                    if k is None or k >= len(cb):
                        continue
                    stores.append((b2, si, k, prov.rvalue(s['rv'], 0, '%d:%d' % (b2, si))))
            for (b2, si, k, val) in stores:
                x = val
                while x[0] == 'cast':
                    x = x[2]
                be = ByteEval(f, x, prov)
                if be.first_test_block() is None:
                    continue
                n += 1
                key = '%s:magic[%d]-vs-earlier-tests' % (f.key, k)
                feasible = set()
                for v in range(256):
                    try:
                        if bi in be.reachable(v, max_visits=8):
                            feasible.add(v)
                    except RuntimeError:
                        feasible.add(v)
                if cb[k] in feasible:
                    ctx.ok(key, f.loc(bi), 'element %d of the compared array may equal magic[%d]=0x%02X on a path to the '
                           'comparison (%d feasible values)' % (k, k, cb[k], len(feasible)))
                else:
                    ctx.violation(key, f.loc(bi), 'contradictory tests: the array compared with the magic %s has element %d '
                                  ':= %s, but every path to this comparison has already excluded the value 0x%02X for that '
                                  'byte, so the comparison can never succeed and the success exit behind it is dead' % (
                                      ' '.join('%02X' % b for b in cb), k, expr_str(x), cb[k]))
    if n == 0:
        ctx.anchor_missing('magic comparison fed by an individually tested byte')


@rule('STREAM-RESET', ['C12'], floor=2)
def stream_reset(ctx):
    """On the success path of the next-stream detector the per-stream state is re-initialised and
    the stream padding length is tested to be a multiple of four."""
    F = ctx.facts
    ms = methods_of(F, 'XZReader')
    # the detector = the self method called after the footer was parsed that itself reads from the source
    cands = []
    for g in ms:
        foot = [bi for bi, t, c in g.calls() if c.name in ('parse_index_and_footer',) or c.is_('StreamFooter::parse')]
        if not foot:
            continue
        for bi, t, c in g.calls():
            if not any(bi in g.reach_from(g.succs(fb)) for fb in foot):
                continue
            for h in F.resolve_callee(c):
                if h.self_adt == g.self_adt and h.path != g.path and h.d.get('output', '').startswith('std::result::Result<bool') and \
                        any(c2.trait and last_seg(c2.trait) == 'Read' for _, _, c2 in h.calls()) and h not in cands:
                    cands.append(h)
    if not cands:
        return ctx.anchor_missing('XZReader next-stream detector (Result<bool>, loops, parses a header)')
    f = cands[0]
    prov = Prov(f)
    # Ok(true) return blocks
    okb = []
    for bi, b in enumerate(f.blocks):
        for si, s in enumerate(b['stmts']):
            if s['k'] == 'assign' and s['lhs']['l'] == 0 and s['rv']['r'] == 'agg' and s['rv'].get('variant_name') == 'Ok':
                v = prov.operand(s['rv']['ops'][0], 0, '%d:%d' % (bi, si))
                if v[0] == 'const' and v[2] in (1, True):
                    okb.append(bi)
    if not okb:
        return ctx.anchor_missing('Ok(true) exit of the next-stream detector')
    for ob in okb:
        # padding % 4 test dominates
        found = None
        for s, pol, cond in guards_of(f, ob, prov):
            nc = norm_cmp(cond, pol) if cond[0] in ('bin', 'un') else None
            if nc and nc[0] == 'Eq':
                for side, other in ((nc[1], nc[2]), (nc[2], nc[1])):
                    if any(x[0] == 'bin' and x[1] == 'Rem' and x[3][0] == 'const' and x[3][2] == 4 for x in expr_walk(side)) and \
                            other[0] == 'const' and other[2] == 0:
                        found = s
        if found is not None:
            ctx.ok('%s:padding-multiple-of-4' % f.key, f.loc(found), 'success requires padding %% 4 == 0')
        else:
            ctx.violation('%s:padding-multiple-of-4' % f.key, f.loc(ob), 'a new stream is accepted without testing that the '
                          'stream padding is a multiple of four bytes')
        # state reset: stores to self fields dominate Ok(true)
        st = [(bi, name) for bi, si, name, rv in self_field_stores(f) if f.dominates(bi, ob)]
        names = sorted({n for _, n in st})
        if len(names) >= 2:
            ctx.ok('%s:per-stream-state-reset' % f.key, f.loc(ob), 'reassigns %s before reporting a new stream' % names)
        else:
            ctx.violation('%s:per-stream-state-reset' % f.key, f.loc(ob), 'per-stream state (header, block counter) is not '
                          're-initialised on the success path (only %s)' % names)


# --------------------------------------------------------------------------- GUARD-COMPARE (C04)

PARSED_RECORDS = ('LZIPHeader', 'LZIPTrailer', 'StreamHeader', 'BlockHeader', 'Index', 'StreamFooter', 'IndexRecord')

# (ADT, field) -> reason: parsed but deliberately not verified
GUARD_EXCEPTIONS = {
    ('StreamFooter', 'backward_size'): 'redundant description of the index size; the index itself is CRC-protected and parsed forward',
    ('IndexRecord', 'unpadded_size'): 'redundant description of block sizes; block content is covered by the block check (only zero is rejected)',
    ('IndexRecord', 'uncompressed_size'): 'redundant description of block sizes; block content is covered by the block check',
    ('BlockHeader', 'compressed_size'): 'optional redundant size; content covered by the block check',
    ('BlockHeader', 'uncompressed_size'): 'optional redundant size; content covered by the block check',
    ('Index', 'records'): 'container of IndexRecord (see its fields)',
}


def _err_edge(f, s):
    """Does one edge of bool switch s lead into a region that it dominates and that returns Err?"""
    e = switch_edges(f, s)
    if e is None:
        return False
    for tgt in e:
        region = f.reach_from([tgt])
        for b in region:
            if not f.dominates(tgt, b):
                continue
            for st in f.blocks[b]['stmts']:
                if st['k'] == 'assign' and st['lhs']['l'] == 0 and st['rv']['r'] == 'agg' and st['rv'].get('variant_name') == 'Err':
                    return True
    return False


@rule('GUARD-COMPARE', ['C04'], floor=14)
def guard_compare(ctx):
    """Every integrity field a container parser reads decides an error: each field of the parsed
    header/trailer records flows into a comparison with an Err edge (or is consumed to configure the
    decoder); every stored CRC32 is compared with a computed checksum; the block check is verified."""
    F = ctx.facts
    found_adts = 0
    for an in PARSED_RECORDS:
        adt = F.adt(an)
        if adt is None:
            if an in ('LZIPHeader', 'LZIPTrailer') or an in ('StreamHeader', 'BlockHeader', 'Index', 'StreamFooter'):
                ctx.anchor_missing('parsed record type ' + an)
            continue
        found_adts += 1
        for fl in adt['variants'][0]['fields']:
            name = fl['name']
            key = '%s.%s' % (an, name)
            compared = None
            consumed = None
            for f in F.fns:
                if f.impl and f.impl.get('trait') and last_seg(f.impl['trait']) in ('Debug', 'Clone', 'PartialEq', 'Default'):
                    continue
                prov = None
                # comparisons
                for s in f.reachable:
                    t = f.blocks[s]['term']
                    if t['k'] != 'switch':
                        continue
                    prov = prov or Prov(f)
                    cond = prov.operand(t['discr'], 0, '%d:T' % s)
                    if any(x[0] == 'field' and x[2] == name and len(x) > 3 and x[3] == an for x in expr_walk(cond)):
                        if cond[0] in ('bin', 'un', 'call') and _err_edge(f, s):
                            compared = (f, s)
                # other reads
                for bi, b in enumerate(f.blocks):
                    if b['cleanup']:
                        continue
                    for st in b['stmts']:
                        if st['k'] != 'assign':
                            continue
                        rv = st['rv']
                        for k2 in ('o', 'a', 'b', 'p'):
                            p = rv.get(k2)
                            if isinstance(p, dict) and ('c' in p or 'm' in p):
                                p = op_place(p)
                            if isinstance(p, dict) and 'p' in p:
                                for pe in p['p']:
                                    if isinstance(pe, dict) and pe.get('n') == name and last_seg(pe.get('o')) == an:
                                        consumed = (f, bi)
            if compared:
                ctx.ok(key, compared[0].loc(compared[1]), 'compared in %s; the failing edge returns Err' % compared[0].key)
            elif (an, name) in GUARD_EXCEPTIONS:
                ctx.exception(key, adt['span'], 'parsed, unchecked: ' + GUARD_EXCEPTIONS[(an, name)])
            elif consumed:
                ctx.ok(key, consumed[0].loc(consumed[1]), 'consumed (configures the decoder) in %s' % consumed[0].key, nontrivial=False)
            else:
                ctx.violation(key, adt['span'], 'field %s.%s is parsed from the file but never compared or used: an integrity '
                              'field that no longer decides an error lets altered files decode as valid' % (an, name))
    # stored CRC32 vs computed checksum in every parse function
    ncrc = 0
    for f in F.fns:
        if f.kind == 'closure' or not any(c.name in ('checksum', 'finalize') for _, _, c in f.calls()):
            continue
        if not (f.self_adt and last_seg(f.self_adt) in PARSED_RECORDS + ('LZIPReader', 'XZReader')):
            continue
        prov = Prov(f)
        okc = None
        for s in f.reachable:
            t = f.blocks[s]['term']
            if t['k'] != 'switch':
                continue
            cond = prov.operand(t['discr'], 0, '%d:T' % s)
            nc = norm_cmp(cond, True) if cond[0] in ('bin', 'un') else None
            if not nc or nc[0] not in ('Eq', 'Ne'):
                continue
            sides = (nc[1], nc[2])
            comp = [x for x in sides if any(y[0] == 'call' and y[1].split('::')[-1] in ('checksum', 'finalize') for y in expr_walk(x))]
            stored = [x for x in sides if x not in comp]
            if comp and stored and _err_edge(f, s):
                okc = s
        ncrc += 1
        key = '%s:stored-crc-compared' % f.key
        if okc is not None:
            ctx.ok(key, f.loc(okc), 'stored CRC compared with the computed checksum; mismatch returns Err')
        else:
            ctx.violation(key, f.loc(0), 'a checksum is computed here but never compared with the stored value on an edge that '
                          'returns Err')
    # block check verification
    nver = 0
    for f in methods_of(F, 'XZReader'):
        prov = None
        cnt = 0
        for bi, t, c in f.calls():
            if c.name == 'verify' and c.self_adt and last_seg(c.self_adt) == 'ChecksumCalculator' or c.is_('ChecksumCalculator::verify'):
                nver += 1
                cnt += 1
                prov = prov or Prov(f)
                key = '%s:block-check-verified%s' % (f.key, '' if cnt == 1 else '#%d' % cnt)
                good = False
                for s in f.reachable:
                    tt = f.blocks[s]['term']
                    if tt['k'] != 'switch':
                        continue
                    cond = prov.operand(tt['discr'], 0, '%d:T' % s)
                    if any(x[0] == 'call' and len(x) > 3 and x[3] is t for x in expr_walk(cond)) and _err_edge(f, s):
                        good = True
                if good:
                    ctx.ok(key, f.loc(bi), 'verify() result decides an Err')
                else:
                    ctx.violation(key, f.loc(bi), 'block check verify() result does not lead to an error')
    if ncrc < 4:
        ctx.violation('crc-sites', '-', 'only %d functions compare a stored CRC (expected stream header, block header, index, footer)' % ncrc)
    if nver == 0:
        ctx.anchor_missing('ChecksumCalculator::verify call in XZReader')


@rule('CHECKSUM-FEED', ['C04'], floor=2)
def checksum_feed(ctx):
    """Every decoded byte handed to the caller was fed to the running integrity check: in the XZ and
    LZIP readers each `Ok(n)` with n the count of the inner read is dominated by `update(&buf[..n])`
    on the same n; the trailer/check verification result is propagated."""
    from rules.io import is_trait_call, READ_TRAITS, value_closure
    F = ctx.facts
    n_inst = 0
    for adt in ('XZReader', 'LZIPReader'):
        fs = [f for f in methods_of(F, adt) if f.impl and last_seg(f.impl.get('trait')) == 'Read' and f.name == 'read']
        if not fs:
            ctx.anchor_missing('<%s as Read>::read' % adt)
            continue
        f = fs[0]
        prov = Prov(f)
        reads = [(bi, t) for bi, t, c in f.calls() if is_trait_call(c, READ_TRAITS, 'read')]
        for rb, rt in reads:
            if rt['dest']['p']:
                continue
            clo = value_closure(f, {rt['dest']['l']})
            nl = {l for l in clo if f.local_ty(l) == 'usize'}
            # Ok(n) hand-outs
            for bi, b in enumerate(f.blocks):
                if b['cleanup']:
                    continue
                for si, s in enumerate(b['stmts']):
                    if s['k'] != 'assign' or s['lhs']['l'] != 0 or s['rv']['r'] != 'agg' or s['rv'].get('variant_name') != 'Ok':
                        continue
                    ol = op_local(s['rv']['ops'][0])
                    pl = op_place(s['rv']['ops'][0])
                    if ol not in nl and not (pl and pl['l'] in clo):
                        continue
                    n_inst += 1
                    key = '%s:handout-is-checksummed' % f.key
                    ups = []
                    fields = set()
                    for ub, ut, uc in f.calls():
                        if uc.name != 'update':
                            continue
                        data = prov.operand(ut['args'][1], 0, '%d:T' % ub)
                        okd = False
                        for x in expr_walk(data):
                            if x[0] == 'call' and x[1].endswith('Index::index') and len(x[2]) == 2:
                                base, rng = x[2]
                                while base[0] in ('ref', 'deref'):
                                    base = base[1]
                                end = rng[2][-1] if rng[0] == 'agg' and rng[2] else None
                                if base[0] == 'param' and base[1] == 2 and end is not None:
                                    e = end
                                    while e[0] == 'cast':
                                        e = e[2]
                                    if (e[0] == 'local' and e[1] in nl) or any(y[0] == 'call' and len(y) > 3 and y[3] is rt for y in expr_walk(e)):
                                        okd = True
                        if okd:
                            ups.append(ub)
                            recv = prov.operand(ut['args'][0], 0, '%d:T' % ub)
                            for y in expr_walk(recv):
                                if y[0] == 'field':
                                    sf = self_field_of(y)
                                    if sf:
                                        fields.add(sf[0])
                    # bypass edges: the None arm of a match on the Option field that holds the calculator
                    bypass = set()
                    for sb in f.reachable:
                        tt = f.blocks[sb]['term']
                        if tt['k'] != 'switch':
                            continue
                        dl = op_local(tt['discr'])
                        if dl is None:
                            continue
                        dd = f.whole_defs(dl)
                        if len(dd) == 1 and dd[0][2] == 'assign' and dd[0][3]['rv']['r'] == 'discr':
                            pe = prov.place(dd[0][3]['rv']['p'], 0, '%d:T' % sb)
                            sf = self_field_of(pe) if pe[0] in ('field', 'deref') else None
                            if sf and sf[0] in fields and 'Option' in dd[0][3]['rv']['p']['ty']:
                                arms = {a[0]: a[1] for a in tt['arms']}
                                none_t = arms.get('0', tt['otherwise'] if '1' in arms else None)
                                if none_t is not None:
                                    bypass.add((sb, none_t))
                    # Ok block reachable from the read without update and without the None bypass?
                    seen = set()
                    stack = list(f.succs(rb))
                    leak = False
                    while stack:
                        x = stack.pop()
                        if x in seen or x in ups:
                            continue
                        seen.add(x)
                        if x == bi:
                            leak = True
                            break
                        for y in f.succs(x):
                            if (x, y) in bypass:
                                continue
                            stack.append(y)
                    if ups and not leak:
                        ctx.ok(key, f.loc(bi, si), 'every path from the inner read to Ok(n) passes update(&buf[..n]) (or the '
                               'no-calculator arm of self.%s)' % sorted(fields))
                    else:
                        ctx.violation(key, f.loc(bi, si), 'decoded bytes are returned to the caller without being fed to the running '
                                      'CRC/SHA over exactly buf[..n]: corruption in them is no longer detected')
    if n_inst == 0:
        ctx.anchor_missing('Ok(n) hand-out in the container readers')
