"""Container format rules: BYTE-CONTRA, STREAM-RESET (C12), GUARD-COMPARE (C04), TABLE-INVERSE (C02),
SPEC-CONST (C03)."""
from collections import deque
from lzlint.framework import rule
from lzlint.core import (Prov, Callee, callee_of, strip_generics, last_seg, expr_walk, expr_str, op_local, op_place,
                         const_val, guards_of, norm_cmp, switch_edges, self_field_of, reachable_without_edge)
from lzlint.byteeval import ByteEval, fold, Unknown
from rules.units import methods_of, self_field_stores, mentions_self_field, _pulls

READER_PARSE_ADTS = ('XZReader', 'StreamHeader', 'BlockHeader', 'Index', 'StreamFooter', 'LZIPReader', 'LZIPHeader',
                     'LZIPTrailer', 'LZIPReaderMT')


def const_bytes(e):
    """Byte tuple of a constant array/slice expression (possibly behind refs/casts)."""
    while isinstance(e, tuple) and e[0] in ('ref', 'deref', 'cast'):
        e = e[-1] if e[0] == 'cast' else e[1]
    if isinstance(e, tuple) and e[0] == 'const' and isinstance(e[2], tuple):
        return e[2]
    if isinstance(e, tuple) and e[0] == 'agg' and e[1] == 'array' and all(x[0] == 'const' for x in e[2]):
        return tuple(x[2] for x in e[2])
    return None


def array_local(e):
    while isinstance(e, tuple) and e[0] in ('ref', 'deref', 'cast'):
        e = e[-1] if e[0] == 'cast' else e[1]
    if isinstance(e, tuple) and e[0] == 'local':
        return e[1]
    return None


@rule('BYTE-CONTRA', ['C12'], floor=1)
def byte_contra(ctx):
    """No success exit of a parser may be dead because of contradictory tests on the same input
    byte: where an array is compared with a constant magic and element k of the array was stored
    from a byte whose value set on every path to the comparison excludes magic[k], the equality edge
    (and the success behind it) can never be taken."""
    F = ctx.facts
    n = 0
    for f in F.fns:
        if not f.self_adt or last_seg(f.self_adt) not in READER_PARSE_ADTS:
            continue
        prov = None
        for bi, t, c in f.calls():
            if not (c.trait and last_seg(c.trait) == 'PartialEq' and c.name in ('eq', 'ne')):
                continue
            prov = prov or Prov(f)
            a0, a1 = prov.operand(t['args'][0], 0, '%d:T' % bi), prov.operand(t['args'][1], 0, '%d:T' % bi)
            cb, arr = const_bytes(a1), array_local(a0)
            if cb is None or arr is None:
                cb, arr = const_bytes(a0), array_local(a1)
            if cb is None or arr is None:
                continue
            # element stores arr[k] = X with constant k
            stores = []
            for b2, blk in enumerate(f.blocks):
                if blk['cleanup']:
                    continue
                for si, s in enumerate(blk['stmts']):
                    if s['k'] != 'assign' or s['lhs']['l'] != arr or len(s['lhs']['p']) != 1:
                        continue
                    pe = s['lhs']['p'][0]
                    k = None
                    if isinstance(pe, dict) and 'ci' in pe:
                        k = pe['ci']
                    elif isinstance(pe, dict) and 'i' in pe:
                        ie = prov.local(pe['i'], 0, '%d:%d' % (b2, si))
                        if ie[0] == 'const':
                            k = ie[2]
                    if k is None or k >= len(cb):
                        continue
                    stores.append((b2, si, k, prov.rvalue(s['rv'], 0, '%d:%d' % (b2, si))))
            for (b2, si, k, val) in stores:
                x = val
                while x[0] == 'cast':
                    x = x[2]
                be = ByteEval(f, x, prov)
                if be.first_test_block() is None:
                    continue
                n += 1
                key = '%s:magic[%d]-vs-earlier-tests' % (f.key, k)
                feasible = set()
                for v in range(256):
                    try:
                        if bi in be.reachable(v, max_visits=8):
                            feasible.add(v)
                    except RuntimeError:
                        feasible.add(v)
                if cb[k] in feasible:
                    ctx.ok(key, f.loc(bi), 'element %d of the compared array may equal magic[%d]=0x%02X on a path to the '
                           'comparison (%d feasible values)' % (k, k, cb[k], len(feasible)))
                else:
                    ctx.violation(key, f.loc(bi), 'contradictory tests: the array compared with the magic %s has element %d '
                                  ':= %s, but every path to this comparison has already excluded the value 0x%02X for that '
                                  'byte, so the comparison can never succeed and the success exit behind it is dead' % (
                                      ' '.join('%02X' % b for b in cb), k, expr_str(x), cb[k]))
    if n == 0:
        ctx.anchor_missing('magic comparison fed by an individually tested byte')


@rule('STREAM-RESET', ['C12'], floor=4)
def stream_reset(ctx):
    """On the success path of the next-stream detector the per-stream state is re-initialised and
    the stream padding length is tested to be a multiple of four."""
    F = ctx.facts
    ms = methods_of(F, 'XZReader')
    # the detector = the self method called after the footer was parsed that itself reads from the source
    cands = []
    for g in ms:
        foot = [bi for bi, t, c in g.calls() if c.name in ('parse_index_and_footer',) or c.is_('StreamFooter::parse')]
        if not foot:
            continue
        for bi, t, c in g.calls():
            if not any(bi in g.reach_from(g.succs(fb)) for fb in foot):
                continue
            for h in F.resolve_callee(c):
                if h.self_adt == g.self_adt and h.path != g.path and h.d.get('output', '').startswith('std::result::Result<bool') and \
                        _pulls(F, h, set()) and h not in cands:
                    cands.append(h)
    if not cands:
        return ctx.anchor_missing('XZReader next-stream detector (Result<bool>, loops, parses a header)')
    f = cands[0]
    prov = Prov(f)
    # Ok(true) return blocks
    okb = []
    for bi, b in enumerate(f.blocks):
        for si, s in enumerate(b['stmts']):
            if s['k'] == 'assign' and s['lhs']['l'] == 0 and s['rv']['r'] == 'agg' and s['rv'].get('variant_name') == 'Ok':
                v = prov.operand(s['rv']['ops'][0], 0, '%d:%d' % (bi, si))
                if v[0] == 'const' and v[2] in (1, True):
                    okb.append(bi)
    if not okb:
        return ctx.anchor_missing('Ok(true) exit of the next-stream detector')
    for ob in okb:
        # padding % 4 test dominates
        found = None
        for s, pol, cond in guards_of(f, ob, prov):
            nc = norm_cmp(cond, pol) if cond[0] in ('bin', 'un') else None
            if nc and nc[0] == 'Eq':
                for side, other in ((nc[1], nc[2]), (nc[2], nc[1])):
                    if any(x[0] == 'bin' and x[1] == 'Rem' and x[3][0] == 'const' and x[3][2] == 4 for x in expr_walk(side)) and \
                            other[0] == 'const' and other[2] == 0:
                        found = s
        if found is not None:
            ctx.ok('%s:padding-multiple-of-4' % f.key, f.loc(found), 'success requires padding %% 4 == 0')
        else:
            ctx.violation('%s:padding-multiple-of-4' % f.key, f.loc(ob), 'a new stream is accepted without testing that the '
                          'stream padding is a multiple of four bytes')
        # state reset: stores to self fields dominate Ok(true)
        st = [(bi, name) for bi, si, name, rv in self_field_stores(f) if f.dominates(bi, ob)]
        names = sorted({n for _, n in st})
        if len(names) >= 2:
            ctx.ok('%s:per-stream-state-reset' % f.key, f.loc(ob), 'reassigns %s before reporting a new stream' % names)
        else:
            ctx.violation('%s:per-stream-state-reset' % f.key, f.loc(ob), 'per-stream state (header, block counter) is not '
                          're-initialised on the success path (only %s)' % names)
    # sibling agreement: whatever the first-stream initialiser derives from the stream header and stores in the
    # reader, the next-stream detector must store again (a cached check type, size limit, ...)
    adt = F.adt('XZReader') or {}
    hdr_fields = {fl['name'] for v in adt.get('variants', [])[:1] for fl in v['fields'] if 'StreamHeader' in fl['ty']}
    mine = {name for bi, si, name, rv in self_field_stores(f)}
    for g in ms:
        if g is f or g.name == 'new':
            continue
        theirs = {name for bi, si, name, rv in self_field_stores(g)}
        if not (theirs & hdr_fields):
            continue
        key = '%s:stores-what-%s-stores' % (f.key, g.name)
        missing = sorted(theirs - mine)
        if missing:
            ctx.violation(key, g.loc(0), 'the first stream\'s initialiser %s stores %s, the next-stream detector does not store %s again: '
                          'later streams of a concatenated file are decoded with the first stream\'s value' % (g.key, sorted(theirs), missing))
        else:
            ctx.ok(key, g.loc(0), 'every field %s sets from the stream header (%s) is set again for each further stream' % (g.key, sorted(theirs)))
    # "no further stream" exits: once padding bytes were counted, Ok(false) also needs padding % 4 == 0
    rem_blocks = []
    for sb in f.reachable:
        t = f.blocks[sb]['term']
        if t['k'] == 'switch':
            cond = prov.operand(t['discr'], 0, '%d:T' % sb)
            if any(x[0] == 'bin' and x[1] == 'Rem' and x[3][0] == 'const' and x[3][2] == 4 for x in expr_walk(cond)):
                rem_blocks.append(sb)
    inc_blocks = []
    pad_local = None
    for sb in rem_blocks:
        cond = prov.operand(f.blocks[sb]['term']['discr'], 0, '%d:T' % sb)
        for x in expr_walk(cond):
            if x[0] == 'bin' and x[1] == 'Rem' and x[2][0] == 'local':
                pad_local = x[2][1]
    if pad_local is not None:
        inc_blocks = [bi for (bi, si, k, node) in f.whole_defs(pad_local) if k == 'assign' and f.in_loop(bi)]
    okfalse = []
    for bi, b in enumerate(f.blocks):
        for si, st_ in enumerate(b['stmts']):
            if st_['k'] == 'assign' and st_['lhs']['l'] == 0 and st_['rv']['r'] == 'agg' and st_['rv'].get('variant_name') == 'Ok':
                v = prov.operand(st_['rv']['ops'][0], 0, '%d:%d' % (bi, si))
                if v[0] == 'const' and v[2] in (0, False):
                    okfalse.append(bi)
    if inc_blocks and okfalse:
        key = '%s:trailing-padding-multiple-of-4' % f.key
        reach = f.reach_from([x for ib in inc_blocks for x in f.succs(ib)], stop=set(rem_blocks))
        bad = [b for b in okfalse if b in reach]
        if bad:
            ctx.violation(key, f.loc(bad[0]), 'after stream padding bytes were counted the detector can report "no further stream" (Ok(false)) '
                          'without testing padding %% 4 == 0: 1, 2, 3, 5.. zero bytes after the last stream are accepted at end of input')
        else:
            ctx.ok(key, f.loc(okfalse[0]), 'Ok(false) after counted padding passes the padding %% 4 test')


# --------------------------------------------------------------------------- GUARD-COMPARE (C04)

PARSED_RECORDS = ('LZIPHeader', 'LZIPTrailer', 'StreamHeader', 'BlockHeader', 'Index', 'StreamFooter', 'IndexRecord')

# (ADT, field) -> reason: parsed but deliberately not verified
GUARD_EXCEPTIONS = {
    ('StreamFooter', 'backward_size'): 'redundant description of the index size; the index itself is CRC-protected and parsed forward',
    ('Index', 'records'): 'container of IndexRecord (see its fields)',
}


def _err_edge(f, s):
    """Does one edge of bool switch s lead into a region that it dominates and that returns Err?"""
    e = switch_edges(f, s)
    if e is None:
        return False
    for tgt in e:
        region = f.reach_from([tgt])
        for b in region:
            if not f.dominates(tgt, b):
                continue
            for st in f.blocks[b]['stmts']:
                if st['k'] == 'assign' and st['lhs']['l'] == 0 and st['rv']['r'] == 'agg' and st['rv'].get('variant_name') == 'Err':
                    return True
    return False


def _straight_to_err(f, sb):
    """One edge of switch sb leads, through blocks with a single successor (an `a || b` chain shares the block), to `_0 = Err(..)`."""
    e = switch_edges(f, sb)
    if e is None:
        return False
    for tgt in e:
        b = tgt
        for _ in range(5):
            blk = f.blocks[b]
            if any(st['k'] == 'assign' and st['lhs']['l'] == 0 and not st['lhs']['p'] and st['rv']['r'] == 'agg' and st['rv'].get('variant_name') == 'Err'
                   for st in blk['stmts']):
                return True
            nx = [x for x in f.succs(b)]
            if len(nx) != 1:
                break
            b = nx[0]
    return False


@rule('GUARD-COMPARE', ['C04'], floor=14)
def guard_compare(ctx):
    """Every integrity field a container parser reads decides an error: each field of the parsed
    header/trailer records flows into a comparison with an Err edge (or is consumed to configure the
    decoder); every stored CRC32 is compared with a computed checksum; the block check is verified."""
    F = ctx.facts
    found_adts = 0
    measured = {}
    for an in PARSED_RECORDS:
        adt = F.adt(an)
        if adt is None:
            if an in ('LZIPHeader', 'LZIPTrailer') or an in ('StreamHeader', 'BlockHeader', 'Index', 'StreamFooter'):
                ctx.anchor_missing('parsed record type ' + an)
            continue
        found_adts += 1
        for fl in adt['variants'][0]['fields']:
            name = fl['name']
            key = '%s.%s' % (an, name)
            compared = None
            consumed = None
            for f in F.fns:
                if f.impl and f.impl.get('trait') and last_seg(f.impl['trait']) in ('Debug', 'Clone', 'PartialEq', 'Default'):
                    continue
                prov = None
                # comparisons
                for s in f.reachable:
                    t = f.blocks[s]['term']
                    if t['k'] != 'switch':
                        continue
                    prov = prov or Prov(f)
                    cond = prov.operand(t['discr'], 0, '%d:T' % s)
                    if any(x[0] == 'field' and x[2] == name and len(x) > 3 and x[3] == an for x in expr_walk(cond)):
                        if cond[0] in ('bin', 'un', 'call') and _err_edge(f, s):
                            compared = (f, s)
                            # comparisons of the field with another *measured* quantity (not a constant limit)
                            for x in expr_walk(cond):
                                if x[0] == 'bin' and x[1] in ('Eq', 'Ne', 'Lt', 'Le', 'Gt', 'Ge'):
                                    for mine, other in ((x[2], x[3]), (x[3], x[2])):
                                        if any(y[0] == 'field' and y[2] == name and len(y) > 3 and y[3] == an for y in expr_walk(mine)) and \
                                                not all(z[0] in ('const',) for z in expr_walk(other) if z[0] in ('const', 'field', 'local', 'param', 'call')) and \
                                                any(z[0] == 'field' and self_field_of(z) for z in expr_walk(other)):
                                            measured.setdefault(key, []).append((x[1] if mine is x[2] else {'Lt': 'Gt', 'Le': 'Ge', 'Gt': 'Lt', 'Ge': 'Le'}.get(x[1], x[1]), f, s))
                # other reads
                for bi, b in enumerate(f.blocks):
                    if b['cleanup']:
                        continue
                    for st in b['stmts']:
                        if st['k'] != 'assign':
                            continue
                        rv = st['rv']
                        for k2 in ('o', 'a', 'b', 'p'):
                            p = rv.get(k2)
                            if isinstance(p, dict) and ('c' in p or 'm' in p):
                                p = op_place(p)
                            if isinstance(p, dict) and 'p' in p:
                                for pe in p['p']:
                                    if isinstance(pe, dict) and pe.get('n') == name and last_seg(pe.get('o')) == an:
                                        consumed = (f, bi)
            if an == 'IndexRecord' and name in ('unpadded_size', 'uncompressed_size'):
                # the index is the only thing that fixes the ORDER and NUMBER of bytes per block: it has to be compared
                # with what the reader measured while decoding the blocks, i.e. in the reader, not inside the index parser
                if compared and compared[0].self_adt and last_seg(compared[0].self_adt) == 'XZReader':
                    ctx.ok(key, compared[0].loc(compared[1]), 'index record compared with the decoded block in %s' % compared[0].key)
                else:
                    ctx.violation(key, adt['span'], 'the index record field %s is parsed but never compared with the size of the block that '
                                  'was actually decoded: two whole blocks of a multi-block file can be swapped (or a block replaced by another '
                                  'valid block) and the file still decodes "successfully" to different data' % name)
                continue
            if an == 'BlockHeader' and name in ('compressed_size', 'uncompressed_size') and not compared:
                # a declared size is honoured only if the reader compares it with what it measured. The header value is kept in a
                # field of the reader (a tuple component); that component has to reach a branch with an Err edge in the reader.
                slot = None
                for f in F.fns:
                    if not (f.self_adt and last_seg(f.self_adt) == 'XZReader'):
                        continue
                    prov = Prov(f)
                    for bi, b in enumerate(f.blocks):
                        for si, st in enumerate(b['stmts']):
                            if st['k'] == 'assign' and st['lhs']['l'] == 1 and st['lhs']['p'] and st['rv']['r'] == 'agg' and st['rv'].get('kind') == 'tuple':
                                for oi, o in enumerate(st['rv']['ops']):
                                    e = prov.operand(o, 0, '%d:%d' % (bi, si))
                                    if any(x[0] == 'field' and x[2] == name and len(x) > 3 and x[3] == an for x in expr_walk(e)):
                                        from lzlint.core import field_path as _fp
                                        slot = (_fp(st['lhs'])[0], str(oi))
                decided = None
                if slot:
                    for f in F.fns:
                        if not (f.self_adt and last_seg(f.self_adt) == 'XZReader'):
                            continue
                        prov = Prov(f)
                        for sb in f.reachable:
                            t = f.blocks[sb]['term']
                            if t['k'] != 'switch':
                                continue
                            cond = prov.operand(t['discr'], 0, '%d:T' % sb)
                            hit = any(x[0] == 'field' and x[2] == slot[1] and x[1][0] == 'field' and x[1][2] == slot[0] for x in expr_walk(cond))
                            if hit and (_err_edge(f, sb) or _straight_to_err(f, sb)):
                                decided = (f, sb)
                if decided:
                    ctx.ok(key, decided[0].loc(decided[1]), 'kept in XZReader.%s.%s and compared there; the failing edge returns Err' % slot)
                else:
                    ctx.violation(key, adt['span'], 'the block header field %s is parsed%s but never decides an error in the reader: a block whose '
                                  'header declares a different size than the block has decodes with Ok (liblzma rejects the file)' % (
                                      name, ' and kept in XZReader.%s.%s' % slot if slot else ''))
                continue
            ms = measured.get(key, [])
            ops = {m[0] for m in ms}
            if ms and not (ops & {'Eq', 'Ne'}) and not ({'Lt', 'Le'} & ops and {'Gt', 'Ge'} & ops):
                ctx.violation(key + ':two-sided', ms[0][1].loc(ms[0][2]), 'the field %s.%s is checked against the value the reader measured only in one '
                              'direction (%s): a file whose field is off in the other direction (e.g. an index that lists more records than '
                              'blocks were decoded, i.e. a whole block cut out) is accepted' % (an, name, '/'.join(sorted(ops))))
                continue
            if compared:
                ctx.ok(key, compared[0].loc(compared[1]), 'compared in %s; the failing edge returns Err' % compared[0].key)
            elif (an, name) in GUARD_EXCEPTIONS:
                ctx.exception(key, adt['span'], 'parsed, unchecked: ' + GUARD_EXCEPTIONS[(an, name)])
            elif consumed:
                ctx.ok(key, consumed[0].loc(consumed[1]), 'consumed (configures the decoder) in %s' % consumed[0].key, nontrivial=False)
            else:
                ctx.violation(key, adt['span'], 'field %s.%s is parsed from the file but never compared or used: an integrity '
                              'field that no longer decides an error lets altered files decode as valid' % (an, name))
    # stored CRC32 vs computed checksum in every parse function
    ncrc = 0
    for f in F.fns:
        if f.kind == 'closure' or not any(c.name in ('checksum', 'finalize') for _, _, c in f.calls()):
            continue
        if not (f.self_adt and last_seg(f.self_adt) in PARSED_RECORDS + ('LZIPReader', 'XZReader')):
            continue
        prov = Prov(f)
        okc = None
        for s in f.reachable:
            t = f.blocks[s]['term']
            if t['k'] != 'switch':
                continue
            cond = prov.operand(t['discr'], 0, '%d:T' % s)
            nc = norm_cmp(cond, True) if cond[0] in ('bin', 'un') else None
            if not nc or nc[0] not in ('Eq', 'Ne'):
                continue
            sides = (nc[1], nc[2])
            comp = [x for x in sides if any(y[0] == 'call' and y[1].split('::')[-1] in ('checksum', 'finalize') for y in expr_walk(x))]
            stored = [x for x in sides if x not in comp]
            if comp and stored and _err_edge(f, s):
                okc = s
        ncrc += 1
        key = '%s:stored-crc-compared' % f.key
        if okc is not None:
            ctx.ok(key, f.loc(okc), 'stored CRC compared with the computed checksum; mismatch returns Err')
        else:
            ctx.violation(key, f.loc(0), 'a checksum is computed here but never compared with the stored value on an edge that '
                          'returns Err')
    # block check verification
    nver = 0
    for f in methods_of(F, 'XZReader'):
        prov = None
        cnt = 0
        for bi, t, c in f.calls():
            if c.name == 'verify' and c.self_adt and last_seg(c.self_adt) == 'ChecksumCalculator' or c.is_('ChecksumCalculator::verify'):
                nver += 1
                cnt += 1
                prov = prov or Prov(f)
                key = '%s:block-check-verified%s' % (f.key, '' if cnt == 1 else '#%d' % cnt)
                good = False
                for s in f.reachable:
                    tt = f.blocks[s]['term']
                    if tt['k'] != 'switch':
                        continue
                    cond = prov.operand(tt['discr'], 0, '%d:T' % s)
                    if any(x[0] == 'call' and len(x) > 3 and x[3] is t for x in expr_walk(cond)) and _err_edge(f, s):
                        good = True
                if good:
                    ctx.ok(key, f.loc(bi), 'verify() result decides an Err')
                else:
                    ctx.violation(key, f.loc(bi), 'block check verify() result does not lead to an error')
    if ncrc < 4:
        ctx.violation('crc-sites', '-', 'only %d functions compare a stored CRC (expected stream header, block header, index, footer)' % ncrc)
    if nver == 0:
        ctx.anchor_missing('ChecksumCalculator::verify call in XZReader')


@rule('CHECKSUM-FEED', ['C04'], floor=2)
def checksum_feed(ctx):
    """Every decoded byte handed to the caller was fed to the running integrity check: in the XZ and
    LZIP readers each `Ok(n)` with n the count of the inner read is dominated by `update(&buf[..n])`
    on the same n; the trailer/check verification result is propagated."""
    from rules.io import is_trait_call, READ_TRAITS, value_closure
    F = ctx.facts
    n_inst = 0
    for adt in ('XZReader', 'LZIPReader'):
        fs = [f for f in methods_of(F, adt) if f.impl and last_seg(f.impl.get('trait')) == 'Read' and f.name == 'read']
        if not fs:
            ctx.anchor_missing('<%s as Read>::read' % adt)
            continue
        from rules.io import effective_read
        f = effective_read(F, fs[0])
        prov = Prov(f)
        reads = [(bi, t) for bi, t, c in f.calls() if is_trait_call(c, READ_TRAITS, 'read')]
        for rb, rt in reads:
            if rt['dest']['p']:
                continue
            clo = value_closure(f, {rt['dest']['l']})
            nl = {l for l in clo if f.local_ty(l) == 'usize'}
            # Ok(n) hand-outs
            for bi, b in enumerate(f.blocks):
                if b['cleanup']:
                    continue
                for si, s in enumerate(b['stmts']):
                    if s['k'] != 'assign' or s['lhs']['l'] != 0 or s['rv']['r'] != 'agg' or s['rv'].get('variant_name') != 'Ok':
                        continue
                    ol = op_local(s['rv']['ops'][0])
                    pl = op_place(s['rv']['ops'][0])
                    if ol not in nl and not (pl and pl['l'] in clo):
                        continue
                    n_inst += 1
                    key = '%s:handout-is-checksummed' % f.key
                    ups = []
                    fields = set()
                    for ub, ut, uc in f.calls():
                        if uc.name != 'update':
                            continue
                        data = prov.operand(ut['args'][1], 0, '%d:T' % ub)
                        okd = False
                        for x in expr_walk(data):
                            if x[0] == 'call' and x[1].endswith('Index::index') and len(x[2]) == 2:
                                base, rng = x[2]
                                while base[0] in ('ref', 'deref'):
                                    base = base[1]
                                end = rng[2][-1] if rng[0] == 'agg' and rng[2] else None
                                if base[0] == 'param' and base[1] == 2 and end is not None:
                                    e = end
                                    while e[0] == 'cast':
                                        e = e[2]
                                    # the slice end must be the count itself, not an expression over it
                                    if (e[0] == 'local' and e[1] in nl) or (e[0] in ('field', 'downcast', 'trybranch') and
                                                                              any(y[0] == 'call' and len(y) > 3 and y[3] is rt for y in expr_walk(e))
                                                                              and not any(y[0] in ('bin',) or (y[0] == 'call' and y[3] is not rt) for y in expr_walk(e) if y[0] in ('bin', 'call'))):
                                        okd = True
                        if okd:
                            ups.append(ub)
                            recv = prov.operand(ut['args'][0], 0, '%d:T' % ub)
                            for y in expr_walk(recv):
                                if y[0] == 'field':
                                    sf = self_field_of(y)
                                    if sf:
                                        fields.add(sf[0])
                    # bypass edges: the None arm of a match on the Option field that holds the calculator
                    bypass = set()
                    for sb in f.reachable:
                        tt = f.blocks[sb]['term']
                        if tt['k'] != 'switch':
                            continue
                        dl = op_local(tt['discr'])
                        if dl is None:
                            continue
                        dd = f.whole_defs(dl)
                        if len(dd) == 1 and dd[0][2] == 'assign' and dd[0][3]['rv']['r'] == 'discr':
                            pe = prov.place(dd[0][3]['rv']['p'], 0, '%d:T' % sb)
                            sf = self_field_of(pe) if pe[0] in ('field', 'deref') else None
                            if sf and sf[0] in fields and 'Option' in dd[0][3]['rv']['p']['ty']:
                                arms = {a[0]: a[1] for a in tt['arms']}
                                none_t = arms.get('0', tt['otherwise'] if '1' in arms else None)
                                if none_t is not None:
                                    bypass.add((sb, none_t))
                    # Ok block reachable from the read without update and without the None bypass?
                    seen = set()
                    stack = list(f.succs(rb))
                    leak = False
                    while stack:
                        x = stack.pop()
                        if x in seen or x in ups:
                            continue
                        seen.add(x)
                        if x == bi:
                            leak = True
                            break
                        for y in f.succs(x):
                            if (x, y) in bypass:
                                continue
                            stack.append(y)
                    if ups and not leak:
                        ctx.ok(key, f.loc(bi, si), 'every path from the inner read to Ok(n) passes update(&buf[..n]) (or the '
                               'no-calculator arm of self.%s)' % sorted(fields))
                    else:
                        ctx.violation(key, f.loc(bi, si), 'decoded bytes are returned to the caller without being fed to the running '
                                      'CRC/SHA over exactly buf[..n]: corruption in them is no longer detected')
    if n_inst == 0:
        ctx.anchor_missing('Ok(n) hand-out in the container readers')


# --------------------------------------------------------------------------- TABLE-INVERSE (C02)

def arm_regions(f, sb):
    """{arm value (int) or 'else': set of blocks exclusively reached through that arm}."""
    t = f.blocks[sb]['term']
    out = {}
    targets = [(int(a[0]), a[1]) for a in t['arms']] + [('else', t['otherwise'])]
    for v, tgt in targets:
        region = {b for b in f.reach_from([tgt]) if f.dominates(tgt, b)}
        out[v] = region
    return out


def switches_on(f, prov, pred):
    """Switch blocks whose scrutinee satisfies pred(kind, place/expr)."""
    out = []
    for sb in f.reachable:
        t = f.blocks[sb]['term']
        if t['k'] != 'switch':
            continue
        dl = op_local(t['discr'])
        p = None
        if dl is not None:
            dd = f.whole_defs(dl)
            if len(dd) == 1 and dd[0][2] == 'assign' and dd[0][3]['rv']['r'] == 'discr':
                p = ('discr', dd[0][3]['rv']['p'])
        if p is None:
            pl = op_place(t['discr'])
            if pl is not None:
                p = ('value', pl)
        if p and pred(p[0], p[1]):
            out.append(sb)
    return out


def region_consts(f, region, ty_prefix=('u', 'i')):
    """integer constants assigned to whole locals inside a region: {local: const}."""
    out = {}
    for b in region:
        for s in f.blocks[b]['stmts']:
            if s['k'] == 'assign' and not s['lhs']['p'] and s['rv']['r'] == 'use':
                k = s['rv']['o'].get('k')
                if k is not None and isinstance(k.get('v'), int) and k['ty'].startswith(ty_prefix) and k['ty'] != '()':
                    out[s['lhs']['l']] = k['v']
    return out


def region_variants(f, region, adt):
    out = []
    for b in region:
        for s in f.blocks[b]['stmts']:
            if s['k'] == 'assign' and s['rv']['r'] == 'agg' and s['rv'].get('kind') == 'adt' and last_seg(s['rv']['adt']) == adt:
                out.append(s['rv']['variant_name'])
    return out


def region_calls(f, region):
    out = []
    for b in region:
        t = f.blocks[b]['term']
        if t['k'] == 'call':
            c = callee_of(t)
            if c:
                out.append(strip_generics(c['path']))
    return out


def variant_table(F, adt):
    a = F.adt(adt)
    if a is None:
        return None
    return {v['name']: (v['idx'], int(v['discr']) if v['discr'] is not None else v['idx']) for v in a['variants']}


@rule('TABLE-INVERSE', ['C02', 'C03'], floor=30)
def table_inverse(ctx):
    """Writer and reader tables are inverse: XZ filter ids (write_block_header <-> TryFrom<u64> for
    FilterType), check ids (CheckType discriminants <-> from_byte), check sizes (writer size table
    <-> reader buffer lengths), filter constructor per FilterType variant (XZWriter <-> XZReader),
    delta property (-1 <-> +1), filter chain order (both reversed)."""
    F = ctx.facts
    ft = variant_table(F, 'FilterType')
    ct = variant_table(F, 'CheckType')
    if ft is None or ct is None:
        return ctx.anchor_missing('FilterType / CheckType enums')
    ft_by_discr = {d: n for n, (i, d) in ft.items()}
    ct_by_discr = {d: n for n, (i, d) in ct.items()}
    # ---- (1) filter ids
    w_ids = {}
    wfn = None
    for f in methods_of(F, 'XZWriter'):
        prov = Prov(f)
        for sb in switches_on(f, prov, lambda k, p: k == 'discr' and p['ty'].endswith('FilterType')):
            regs = arm_regions(f, sb)
            table = {}
            locals_ = None
            for v, region in regs.items():
                if v == 'else':
                    continue
                cs = region_consts(f, region)
                # the id local: assigned in every arm
                table[v] = cs
            common = None
            for v, cs in table.items():
                common = set(cs) if common is None else common & set(cs)
            if common and len(table) >= 8:
                idl = sorted(common)[0]
                cand = {ft_by_discr.get(v, v): cs[idl] for v, cs in table.items()}
                w_ids = cand
                wfn = (f, sb)
    r_ids = {}
    rfn = None
    for f in F.fns:
        if f.impl and last_seg(f.impl.get('trait')) == 'TryFrom' and f.self_adt and last_seg(f.self_adt) == 'FilterType':
            prov = Prov(f)
            for sb in switches_on(f, prov, lambda k, p: k == 'value'):
                for v, region in arm_regions(f, sb).items():
                    if v == 'else':
                        continue
                    vs = region_variants(f, region, 'FilterType')
                    if vs:
                        r_ids[v] = vs[0]
                rfn = (f, sb)
    if not w_ids or not r_ids:
        ctx.anchor_missing('XZ filter id tables (writer %d rows, reader %d rows)' % (len(w_ids), len(r_ids)))
    else:
        for name in sorted(ft):
            key = 'filter-id:%s' % name
            wid = w_ids.get(name)
            back = [c for c, n in r_ids.items() if n == name]
            if wid is None:
                ctx.violation(key, wfn[0].loc(wfn[1]), 'writer has no id for filter %s' % name)
            elif back != [wid]:
                ctx.violation(key, wfn[0].loc(wfn[1]), 'writer emits id 0x%02X for %s but the reader maps %s to it: a block written '
                              'with this filter is decoded with another filter or rejected' % (
                                  wid, name, ['0x%02X' % b for b in back] or 'no id'))
            else:
                ctx.ok(key, wfn[0].loc(wfn[1]), 'id 0x%02X in both directions' % wid)
    # ---- (2) check ids
    for f in F.fns:
        if f.self_adt and last_seg(f.self_adt) == 'CheckType' and f.d.get('output', '').startswith('std::result::Result<xz::CheckType') and f.kind != 'closure':
            prov = Prov(f)
            for sb in switches_on(f, prov, lambda k, p: k == 'value' and p['ty'] == 'u8'):
                for v, region in arm_regions(f, sb).items():
                    if v == 'else':
                        continue
                    vs = region_variants(f, region, 'CheckType')
                    if not vs:
                        continue
                    key = 'check-id:%s' % vs[0]
                    if ct.get(vs[0], (None, None))[1] == v:
                        ctx.ok(key, f.loc(sb), 'byte 0x%02X <-> discriminant of %s (written as `check_type as u8`)' % (v, vs[0]))
                    else:
                        ctx.violation(key, f.loc(sb), 'reader maps byte 0x%02X to CheckType::%s whose discriminant (the byte the writer '
                                      'emits) is 0x%02X' % (v, vs[0], ct.get(vs[0], (0, -1))[1]))
    # ---- (3) check sizes
    wsz = {}
    for f in methods_of(F, 'XZWriter'):
        if f.d.get('output') != 'u64':
            continue
        prov = Prov(f)
        for sb in switches_on(f, prov, lambda k, p: k == 'discr' and p['ty'].endswith('CheckType')):
            for v, region in arm_regions(f, sb).items():
                if v == 'else':
                    continue
                for b in region:
                    for s in f.blocks[b]['stmts']:
                        if s['k'] == 'assign' and s['lhs']['l'] == 0 and s['rv']['r'] == 'use' and s['rv']['o'].get('k'):
                            wsz[ct_by_discr.get(v, v)] = (s['rv']['o']['k']['v'], f, sb)
    rsz = {}
    cc = variant_table(F, 'ChecksumCalculator')
    for f in methods_of(F, 'XZReader'):
        prov = Prov(f)
        for sb in switches_on(f, prov, lambda k, p: k == 'discr' and p['ty'].endswith('ChecksumCalculator')):
            byidx = {i: n for n, (i, d) in (cc or {}).items()}
            for v, region in arm_regions(f, sb).items():
                if v == 'else':
                    continue
                n = 0
                for b in region:
                    for s in f.blocks[b]['stmts']:
                        if s['k'] == 'assign' and s['rv']['r'] == 'repeat' and isinstance(s['rv'].get('n'), int):
                            n = max(n, s['rv']['n'])
                rsz[byidx.get(v, v)] = (n, f, sb)
    if len(wsz) < 4 or len(rsz) < 4:
        ctx.anchor_missing('check size tables (writer %d, reader %d rows)' % (len(wsz), len(rsz)))
    else:
        for name in sorted(wsz):
            key = 'check-size:%s' % name
            w = wsz[name][0]
            r = rsz.get(name, (None,))[0]
            if w == r:
                ctx.ok(key, wsz[name][1].loc(wsz[name][2]), '%s: %d bytes written and read' % (name, w))
            else:
                ctx.violation(key, wsz[name][1].loc(wsz[name][2]), 'check size of %s: writer accounts %s bytes, reader reads %s' % (name, w, r))
    # ---- (4) filter constructors
    def ctor_table(adt):
        best = {}
        where = None
        for f in methods_of(F, adt):
            prov = Prov(f)
            for sb in switches_on(f, prov, lambda k, p: k == 'discr' and p['ty'].endswith('FilterType')):
                tab = {}
                for v, region in arm_regions(f, sb).items():
                    if v == 'else':
                        continue
                    cs = [c for c in region_calls(f, region) if '::new' in c and any(x in c for x in ('BCJ', 'Delta', 'LZMA2'))]
                    if cs:
                        nm = cs[0].split('::')
                        tab[ft_by_discr.get(v, v)] = '%s::%s' % (nm[-2].replace('Writer', '').replace('Reader', ''), nm[-1])
                if len(tab) > len(best):
                    best = tab
                    where = (f, sb)
        return best, where
    wt, ww = ctor_table('XZWriter')
    rt, rw = ctor_table('XZReader')
    if len(wt) < 8 or len(rt) < 8:
        ctx.anchor_missing('filter constructor tables (writer %d, reader %d rows)' % (len(wt), len(rt)))
    else:
        for name in sorted(ft):
            key = 'filter-ctor:%s' % name
            if wt.get(name) == rt.get(name) and wt.get(name):
                ctx.ok(key, ww[0].loc(ww[1]), '%s on both sides' % wt[name])
            else:
                ctx.violation(key, ww[0].loc(ww[1]), 'FilterType::%s builds %s in the writer but %s in the reader' % (name, wt.get(name), rt.get(name)))
    # ---- (5) delta property -1 / +1 ; (6) chain order
    wd = rd = None
    for f in methods_of(F, 'XZWriter'):
        prov = Prov(f)
        for bi, b in enumerate(f.blocks):
            for si, s in enumerate(b['stmts']):
                if s['k'] == 'assign' and s['rv']['r'] == 'cast' and s['rv']['ty'] == 'u8':
                    e = prov.operand(s['rv']['o'], 0, '%d:%d' % (bi, si))
                    for x in expr_walk(e):
                        if x[0] == 'bin' and x[1].startswith('Sub') and x[3][0] == 'const' and x[3][2] == 1 and \
                                any(y[0] == 'field' and y[2] == 'property' for y in expr_walk(x[2])):
                            wd = (f, bi)
    for f in F.fns:
        if f.self_adt and last_seg(f.self_adt) == 'BlockHeader':
            prov = Prov(f)
            for bi, b in enumerate(f.blocks):
                for si, s in enumerate(b['stmts']):
                    if s['k'] == 'assign' and s['rv']['r'] == 'bin' and s['rv']['op'].startswith('Add') and const_val(s['rv']['b']) == 1:
                        e = prov.operand(s['rv']['a'], 0, '%d:%d' % (bi, si))
                        if e[0] == 'cast' and e[1] == 'u32' and any(x[0] == 'index' or (x[0] == 'call' and x[1].endswith('Index::index')) for x in expr_walk(e)):
                            rd = (f, bi)
    if wd and rd:
        ctx.ok('delta-property', wd[0].loc(wd[1]), 'writer stores distance - 1, reader adds 1')
    else:
        ctx.violation('delta-property', '-', 'delta distance encoding is not `-1` in the writer and `+1` in the reader (writer %s, reader %s)' % (bool(wd), bool(rd)))
    revs = []
    for adt in ('XZWriter', 'XZReader'):
        for f in methods_of(F, adt) + [g for g in F.fns if g.kind == 'closure']:
            pass
    for adt, (tab, where) in (('XZWriter', (wt, ww)), ('XZReader', (rt, rw))):
        if where is None:
            continue
        f = where[0]
        has_rev = any(c.name == 'rev' for _, _, c in f.calls())
        key = '%s:filter-chain-reversed' % adt
        if has_rev:
            ctx.ok(key, f.loc(where[1]), 'filter chain built in reverse order of the header')
        else:
            ctx.violation(key, f.loc(where[1]), 'filter chain is not built in reverse header order on this side only')



# --------------------------------------------------------------------------- SPEC-CONST (C03)

# Published format constants, one citation per row.
SPEC = {
    'xz_magic': (0xFD, 0x37, 0x7A, 0x58, 0x5A, 0x00),      # xz-file-format 1.2.1, 2.1.1.1 Header Magic Bytes
    'xz_footer': (0x59, 0x5A),                              # xz-file-format 2.1.2.4 Footer Magic Bytes
    'lzip_magic': (0x4C, 0x5A, 0x49, 0x50),                 # lzip manual, File format: "LZIP"
    'lzip_version': 1,                                      # lzip manual: VN = 1
    'lzip_dict_min': 4096, 'lzip_dict_max': 512 << 20,      # lzip manual: 4 KiB .. 512 MiB
    # xz-file-format 5.3 / 5.4: filter ids
    'filter_ids': {0x03: 'Delta::new', 0x04: 'BCJ::new_x86', 0x05: 'BCJ::new_ppc', 0x06: 'BCJ::new_ia64', 0x07: 'BCJ::new_arm',
                   0x08: 'BCJ::new_arm_thumb', 0x09: 'BCJ::new_sparc', 0x0A: 'BCJ::new_arm64', 0x0B: 'BCJ::new_riscv',
                   0x21: 'LZMA2::new'},
    # xz-file-format 2.1.1.2 Stream Flags: check id -> size
    'check_sizes': {0x00: 0, 0x01: 4, 0x04: 8, 0x0A: 32},
    'lzma2_uncompressed_max': 1 << 21, 'lzma2_compressed_max': 1 << 16,   # xz-file-format 5.3.1 / LZMA2 chunk header
}


def const_arrays_written(F, adt):
    out = []
    for f in methods_of(F, adt):
        prov = None
        for bi, t, c in f.calls():
            if c.name in ('write_all',) and len(t['args']) > 1:
                prov = prov or Prov(f)
                cb = const_bytes(prov.operand(t['args'][1], 0, '%d:T' % bi))
                if cb is not None:
                    out.append((f, bi, cb))
    return out


def const_arrays_compared(F, pred):
    out = []
    for f in F.fns:
        if not pred(f):
            continue
        prov = None
        for bi, t, c in f.calls():
            if c.trait and last_seg(c.trait) == 'PartialEq' and c.name in ('eq', 'ne'):
                prov = prov or Prov(f)
                for a in t['args'][:2]:
                    cb = const_bytes(prov.operand(a, 0, '%d:T' % bi))
                    if cb is not None:
                        out.append((f, bi, cb))
    return out


@rule('SPEC-CONST', ['C03'], floor=20)
def spec_const(ctx):
    """Every format constant either side uses equals the published specification: XZ header/footer
    magic, LZIP magic/version/dictionary range, XZ filter ids and check ids/sizes (by role: id ->
    public filter constructor), LZMA2 chunk size limits, the .lzma properties formula."""
    F = ctx.facts
    # XZ magic (writer)
    wa = const_arrays_written(F, 'XZWriter')
    for nm, ln in (('xz_magic', 6), ('xz_footer', 2)):
        got = [(f, bi, cb) for f, bi, cb in wa if len(cb) == ln and any(cb)]
        key = 'XZWriter:%s' % nm
        if not got:
            ctx.violation(key, '-', 'XZ writer writes no %d-byte constant (cannot locate %s)' % (ln, nm))
        for f, bi, cb in got:
            if tuple(cb) == SPEC[nm]:
                ctx.ok(key, f.loc(bi), 'writes %s' % ' '.join('%02X' % b for b in cb))
            else:
                ctx.violation(key, f.loc(bi), 'writes %s where the specification requires %s' % (
                    ' '.join('%02X' % b for b in cb), ' '.join('%02X' % b for b in SPEC[nm])))
    ra = const_arrays_compared(F, lambda f: f.file == 'src/xz/reader.rs')
    for nm, ln in (('xz_magic', 6), ('xz_footer', 2)):
        got = [(f, bi, cb) for f, bi, cb in ra if len(cb) == ln and any(cb)]
        key = 'XZReader:%s' % nm
        if not got:
            ctx.violation(key, '-', 'XZ reader compares no %d-byte constant (cannot locate %s)' % (ln, nm))
        bad = [(f, bi, cb) for f, bi, cb in got if tuple(cb) != SPEC[nm]]
        if got and not bad:
            ctx.ok(key, got[0][0].loc(got[0][1]), '%d comparison(s) against %s' % (len(got), ' '.join('%02X' % b for b in SPEC[nm])))
        for f, bi, cb in bad:
            ctx.violation(key, f.loc(bi), 'compares against %s, specification says %s' % (cb, SPEC[nm]))
    # LZIP
    la = const_arrays_written(F, 'LZIPWriter')
    got = [(f, bi, cb) for f, bi, cb in la if len(cb) == 4]
    if got and all(tuple(cb) == SPEC['lzip_magic'] for _, _, cb in got):
        ctx.ok('LZIPWriter:magic', got[0][0].loc(got[0][1]), 'writes "LZIP"')
    else:
        ctx.violation('LZIPWriter:magic', '-', 'LZIP writer does not write the magic 4C 5A 49 50 (%s)' % [cb for _, _, cb in got])
    ver = [(f, bi, cb) for f, bi, cb in la if len(cb) == 1]
    if ver and all(cb[0] == SPEC['lzip_version'] for _, _, cb in ver):
        ctx.ok('LZIPWriter:version', ver[0][0].loc(ver[0][1]), 'writes version 1')
    else:
        ctx.violation('LZIPWriter:version', '-', 'LZIP writer version byte is not 1 (%s)' % [cb for _, _, cb in ver])
    lc = const_arrays_compared(F, lambda f: f.file in ('src/lzip.rs', 'src/lzip/reader.rs', 'src/lzip/reader_mt.rs'))
    got = [(f, bi, cb) for f, bi, cb in lc if len(cb) == 4]
    if got and all(tuple(cb) == SPEC['lzip_magic'] for _, _, cb in got):
        ctx.ok('LZIPReader:magic', got[0][0].loc(got[0][1]), '%d comparison(s) against "LZIP"' % len(got))
    else:
        ctx.violation('LZIPReader:magic', '-', 'LZIP reader magic comparison is not against 4C 5A 49 50 (%s)' % [cb for _, _, cb in got])
    for cname, sk in (('MIN_DICT_SIZE', 'lzip_dict_min'), ('MAX_DICT_SIZE', 'lzip_dict_max')):
        c = [v for p, v in F.consts.items() if p.startswith('lzip::') and p.endswith(cname)]
        key = 'lzip:%s' % sk
        if c and c[0]['val'] == SPEC[sk]:
            ctx.ok(key, c[0]['span'], '%s = %d' % (cname, c[0]['val']), nontrivial=False)
        else:
            ctx.violation(key, '-', 'LZIP dictionary bound %s is %s, specification says %d' % (cname, c[0]['val'] if c else None, SPEC[sk]))
    # filter ids by role: id -> variant (reader table) -> constructor
    ft = variant_table(F, 'FilterType')
    ft_by_discr = {d: n for n, (i, d) in (ft or {}).items()}
    r_ids = {}
    for f in F.fns:
        if f.impl and last_seg(f.impl.get('trait')) == 'TryFrom' and f.self_adt and last_seg(f.self_adt) == 'FilterType':
            prov = Prov(f)
            for sb in switches_on(f, prov, lambda k, p: k == 'value'):
                for v, region in arm_regions(f, sb).items():
                    if v != 'else':
                        vs = region_variants(f, region, 'FilterType')
                        if vs:
                            r_ids[v] = vs[0]
    rt = {}
    for f in methods_of(F, 'XZReader'):
        prov = Prov(f)
        for sb in switches_on(f, prov, lambda k, p: k == 'discr' and p['ty'].endswith('FilterType')):
            tab = {}
            for v, region in arm_regions(f, sb).items():
                if v == 'else':
                    continue
                cs = [c for c in region_calls(f, region) if '::new' in c and any(x in c for x in ('BCJ', 'Delta', 'LZMA2'))]
                if cs:
                    nm = cs[0].split('::')
                    tab[ft_by_discr.get(v, v)] = '%s::%s' % (nm[-2].replace('Reader', ''), nm[-1])
            if len(tab) > len(rt):
                rt = tab
    for fid, ctor in sorted(SPEC['filter_ids'].items()):
        key = 'filter-id-spec:0x%02X' % fid
        var = r_ids.get(fid)
        got = rt.get(var)
        if got == ctor:
            ctx.ok(key, '-', 'id 0x%02X -> %s -> %s as specified' % (fid, var, got))
        else:
            ctx.violation(key, '-', 'filter id 0x%02X is decoded with %s (via %s); the specification assigns it to %s' % (fid, got, var, ctor))
    extra = set(r_ids) - set(SPEC['filter_ids'])
    if extra:
        ctx.violation('filter-id-spec:extra', '-', 'reader accepts filter ids %s that the specification does not define' % sorted(extra))
    # check ids and sizes
    ct = variant_table(F, 'CheckType')
    wsz = {}
    for f in methods_of(F, 'XZWriter'):
        if f.d.get('output') != 'u64':
            continue
        prov = Prov(f)
        for sb in switches_on(f, prov, lambda k, p: k == 'discr' and p['ty'].endswith('CheckType')):
            for v, region in arm_regions(f, sb).items():
                if v == 'else':
                    continue
                for b in region:
                    for s in f.blocks[b]['stmts']:
                        if s['k'] == 'assign' and s['lhs']['l'] == 0 and s['rv']['r'] == 'use' and s['rv']['o'].get('k'):
                            wsz[v] = s['rv']['o']['k']['v']
    for cid, size in sorted(SPEC['check_sizes'].items()):
        key = 'check-spec:0x%02X' % cid
        if wsz.get(cid) == size and any(d == cid for n, (i, d) in (ct or {}).items()):
            ctx.ok(key, '-', 'check id 0x%02X has size %d' % (cid, size))
        else:
            ctx.violation(key, '-', 'check id 0x%02X: crate uses size %s, specification says %d' % (cid, wsz.get(cid), size))
    # LZMA2 limits: constants in the chunk-filling loop condition
    mlm = [v['val'] for p, v in F.consts.items() if p.endswith('MATCH_LEN_MAX')]
    lim = []
    for f in methods_of(F, 'LZMAEncoder'):
        if not f.loops():
            continue
        prov = Prov(f)
        consts = []
        for sb in f.reachable:
            t = f.blocks[sb]['term']
            if t['k'] != 'switch':
                continue
            cond = prov.operand(t['discr'], 0, '%d:T' % sb)
            nc = norm_cmp(cond, True) if cond[0] in ('bin', 'un') else None
            if nc and nc[0] in ('Le', 'Lt') and nc[2][0] == 'const' and isinstance(nc[2][2], int) and nc[2][2] > 1000:
                consts.append((nc[2][2], nc[0], expr_str(nc[1])[:50], sb))
        if len(consts) >= 2 and any('pending' in c[2] for c in consts):
            lim = (f, consts)
    if not lim or not mlm:
        ctx.violation('lzma2-limits', '-', 'cannot locate the LZMA2 chunk-filling loop limits (fail closed)')
    else:
        f, consts = lim
        for cval, op, what, sb in consts:
            isc = 'pending' in what
            bound = SPEC['lzma2_compressed_max'] if isc else SPEC['lzma2_uncompressed_max']
            slack = 26 if isc else mlm[0]
            key = 'lzma2-limit:%s' % ('compressed' if isc else 'uncompressed')
            eff = cval + (0 if op == 'Le' else -1)
            if eff + slack <= bound:
                ctx.ok(key, f.loc(sb), 'loop continues while %s %s %d; + one symbol (%d) <= %d' % (what, op, cval, slack, bound))
            else:
                ctx.violation(key, f.loc(sb), 'chunk limit %d + largest symbol %d exceeds the LZMA2 maximum %d: a chunk size field would '
                              'overflow its header' % (cval, slack, bound))
    # .lzma props formula
    for f in F.fns:
        if f.name == 'get_props' and f.self_adt and last_seg(f.self_adt) == 'LZMAOptions':
            prov = Prov(f)
            ok = False
            for (bi, si, k, node) in f.whole_defs(0):
                if k == 'assign':
                    from lzlint.intervals import _strip
                    e = _strip(prov.rvalue(node['rv'], 0, '%d:%d' % (bi, si)))
                    s = expr_str(e)
                    if s.replace(' ', '') in ('(((self.pbMul5)Addself.lp)Mul9)Addself.lc)'.replace(' ', ''),
                                             '((((self.pbMul5)Addself.lp)Mul9)Addself.lc)'):
                        ok = True
                    shape = s
            if ok:
                ctx.ok('lzma-props-formula', f.loc(0), 'props = (pb*5 + lp)*9 + lc')
            else:
                ctx.violation('lzma-props-formula', f.loc(0), 'properties byte is %s, LZMA_Alone/LZMA2 define (pb*5 + lp)*9 + lc' % shape)


@rule('PER-UNIT-RESET', ['C12', 'C04'], floor=3)
def per_unit_reset(ctx):
    """Per-member / per-block running state is re-initialised when the next unit starts: every field
    of a container reader that `read` accumulates into (self-referential `+=` store, or receiver of a
    digest `update`) is assigned afresh on the success path of the function that constructs the next
    unit's decoder."""
    F = ctx.facts
    n = 0
    for adt in ('LZIPReader', 'XZReader'):
        ms = methods_of(F, adt)
        rd = [f for f in ms if f.impl and last_seg(f.impl.get('trait')) == 'Read' and f.name == 'read']
        if not rd:
            ctx.anchor_missing('<%s as Read>::read' % adt)
            continue
        from rules.io import effective_read
        f = effective_read(F, rd[0])
        prov = Prov(f)
        acc = {}
        for bi, si, name, rv in self_field_stores(f):
            e = prov.rvalue(rv, 0, '%d:%d' % (bi, si))
            if any(x[0] == 'field' and x[2] == name and self_field_of(x) for x in expr_walk(e)):
                acc[name] = (bi, 'accumulated with a self-referential store')
        for bi, t, c in f.calls():
            if c.name == 'update' and t['args']:
                e = prov.operand(t['args'][0], 0, '%d:T' % bi)
                for x in expr_walk(e):
                    if x[0] == 'field':
                        sf = self_field_of(x)
                        if sf:
                            acc.setdefault(sf[0], (bi, 'fed through update()'))
        openers = [g for g in ms if any(c.is_('LZMAReader::new', 'LZMA2Reader::new', 'LZMAReader::new_mem_limit', 'LZMAReader::new_with_props')
                                       for _, _, c in g.calls())]
        if not openers or not acc:
            ctx.anchor_missing('%s: unit opener (%d) / accumulated fields (%d)' % (adt, len(openers), len(acc)))
            continue
        g = openers[0]
        stores = {}
        for bi, si, name, rv in self_field_stores(g):
            stores.setdefault(name, []).append(bi)
        # success exits of the opener: blocks assigning Ok(..) to _0
        okb = [bi for bi, b in enumerate(g.blocks) for s in b['stmts']
               if s['k'] == 'assign' and s['lhs']['l'] == 0 and s['rv']['r'] == 'agg' and s['rv'].get('variant_name') == 'Ok'
               and not (s['rv']['ops'] and s['rv']['ops'][0].get('k') and s['rv']['ops'][0]['k'].get('v') in (0, False) and g.name.startswith('start'))]
        ctor_blocks = [bi for bi, t, c in g.calls() if c.is_('LZMAReader::new', 'LZMA2Reader::new')]
        for name, (bi, how) in sorted(acc.items()):
            n += 1
            key = '%s.%s:reset-at-unit-start' % (adt, name)
            sb = stores.get(name, [])
            # every success exit that lies after a decoder construction must be dominated by a store of the field
            exits = [o for o in okb if any(o in g.reach_from(g.succs(cb)) for cb in ctor_blocks)]
            if sb and exits and all(any(g.dominates(s, o) for s in sb) for o in exits):
                ctx.ok(key, g.loc(sb[0]), 'self.%s (%s in read) is reassigned in %s before it reports the new unit' % (name, how, g.name))
            else:
                ctx.violation(key, g.loc(ctor_blocks[0] if ctor_blocks else 0), 'self.%s is %s in read but %s starts the next '
                              'member/block without re-initialising it: the second unit is verified against state carried '
                              'over from the first (valid multi-member input is rejected or corruption is masked)' % (name, how, g.name))
    if n == 0:
        ctx.anchor_missing('accumulated per-unit fields')


# --------------------------------------------------------------------------- writer-side check discipline (C02)

@rule('CHECKSUM-FEED-W', ['C02'], floor=2)
def checksum_feed_w(ctx):
    """Container writers feed the running check with exactly the bytes the current unit accepted: in
    Write::write of XZWriter / LZIPWriter each hand-over `n = unit.write(&rest[..k])` is followed, in
    the same loop iteration, by `update(&rest[..n])` on the same slice and the same count."""
    from rules.io import is_trait_call, WRITE_TRAITS, value_closure, buf_alias_locals, slice_base
    F = ctx.facts
    n_inst = 0
    for adt in ('XZWriter', 'LZIPWriter'):
        fs = [f for f in methods_of(F, adt) if f.impl and last_seg(f.impl.get('trait')) == 'Write' and f.name == 'write']
        if not fs:
            ctx.anchor_missing('<%s as Write>::write' % adt)
            continue
        f = fs[0]
        prov = Prov(f)
        al = buf_alias_locals(f, prov, 2)
        loops = f.loops()
        for hb, ht, hc in f.calls():
            if not is_trait_call(hc, WRITE_TRAITS, 'write') or ht['dest']['p']:
                continue
            data = prov.operand(ht['args'][1], 0, '%d:T' % hb)
            base = slice_base(data)
            if not ((base[0] == 'param' and base[1] == 2) or (base[0] == 'local' and base[1] in al)):
                continue
            n_inst += 1
            key = '%s:accepted-bytes-are-checksummed' % adt
            clo = value_closure(f, {ht['dest']['l']})
            nl = {l for l in clo if f.local_ty(l) == 'usize'}
            inner = [body for h, body in loops.items() if hb in body]
            body = min(inner, key=len) if inner else None
            good = None
            for ub, ut, uc in f.calls():
                if uc.name != 'update' or len(ut['args']) < 2:
                    continue
                if body is not None and ub not in body:
                    continue
                if not f.dominates(hb, ub):
                    continue
                d = prov.operand(ut['args'][1], 0, '%d:T' % ub)
                for x in expr_walk(d):
                    if x[0] == 'call' and x[1].endswith('Index::index') and len(x[2]) == 2:
                        b2 = slice_base(x[2][0])
                        rng = x[2][1]
                        end = rng[2][-1] if rng[0] == 'agg' and rng[2] else None
                        same_base = (b2 == base) or (b2[0] == 'local' and base[0] == 'local' and b2[1] == base[1])
                        e = end
                        while e is not None and e[0] == 'cast':
                            e = e[2]
                        core_e = e
                        while core_e is not None and core_e[0] in ('field', 'downcast', 'trybranch', 'cast'):
                            core_e = core_e[2] if core_e[0] == 'cast' else core_e[1]
                        is_count = e is not None and ((e[0] == 'local' and e[1] in nl) or
                                                      (core_e is not None and core_e[0] == 'call' and len(core_e) > 3 and core_e[3] is ht))
                        if same_base and is_count and str(rng[1]).startswith('adt:RangeTo'):
                            good = ub
            if good is not None:
                ctx.ok(key, f.loc(hb), 'update(&rest[..n]) with the count of this hand-over, inside the same loop iteration (bb%d)' % good)
            else:
                ctx.violation(key, f.loc(hb), 'the bytes the current block/member accepted are not fed to the running check as `&rest[..n]` '
                              'in the same loop iteration: a write that crosses a unit boundary credits bytes to the wrong unit\'s check')
    if n_inst == 0:
        ctx.anchor_missing('unit hand-over in container writers')


@rule('FINALIZE-RESET', ['C02', 'C04'], floor=4)
def finalize_reset(ctx):
    """A running check that is finalised for one unit starts afresh for the next: every `finalize`
    in the container writers/readers is applied to a digest that was swapped out of its field
    (mem::replace / mem::take / Option::take), or the field is reassigned on every path to the
    function's return."""
    F = ctx.facts
    n = 0
    for adt in ('XZWriter', 'LZIPWriter', 'XZReader', 'LZIPReader', 'ChecksumCalculator'):
        for f in methods_of(F, adt):
            prov = None
            cnt = 0
            for bi, t, c in f.calls():
                if c.name not in ('finalize', 'finalize_reset', 'finalize_fixed') or not t['args']:
                    continue
                prov = prov or Prov(f)
                recv = prov.operand(t['args'][0], 0, '%d:T' % bi)
                cnt += 1
                n += 1
                key = '%s:finalize%s' % (f.key, '' if cnt == 1 else '#%d' % cnt)
                swapped = any(x[0] == 'call' and x[1].endswith(('mem::replace', 'mem::take', 'Option::take')) for x in expr_walk(recv))
                # receiver moved out of a by-value parameter / local (consumed): also fine
                fld = None
                for x in expr_walk(recv):
                    if x[0] == 'field':
                        sf = self_field_of(x)
                        if sf:
                            fld = sf[0]
                by_ref_self = f.arg_count >= 1 and f.local_ty(1).startswith('&')
                if swapped or fld is None or not by_ref_self:
                    ctx.ok(key, f.loc(bi), 'the finalised digest was taken out of its field (or is owned): the field holds a fresh one')
                    continue
                # in place: the field must be reassigned on every path to return
                stores = {b for b, si, name, rv in self_field_stores(f) if name == fld}
                repl = set()
                for b2, t2, c2 in f.calls():
                    if c2.is_('mem::replace', 'mem::take') and t2['args']:
                        a0 = prov.operand(t2['args'][0], 0, '%d:T' % b2)
                        if any(x[0] == 'field' and self_field_of(x) and self_field_of(x)[0] == fld for x in expr_walk(a0)):
                            repl.add(b2)
                region = f.reach_from(f.succs(bi), stop=stores | repl)
                # a replace that happened on this path before the finalize also counts (swap then finalize the old value)
                before = {b for b in repl if bi in f.reach_from(f.succs(b)) and f.dominates(b, bi)}
                leaks = [b for b in region if f.blocks[b]['term']['k'] == 'return']
                if before or not leaks:
                    ctx.ok(key, f.loc(bi), 'self.%s is re-initialised on every path after it was finalised' % fld)
                else:
                    ctx.violation(key, f.loc(bi), 'the running check in self.%s is finalised in place (e.g. on a clone) and keeps '
                                  'accumulating: the next block/member carries a check over all previous units as well' % fld)
    if n == 0:
        ctx.anchor_missing('finalize calls in container code')


# --------------------------------------------------------------------------- SCAN-TO-ZERO

def _ok_returning(f, start, stop=None):
    """True if a return block reached from `start` can carry an Ok value: some block on the way assigns
    _0 := Result::Ok{..} (or returns a callee's result unchanged)."""
    region = f.reach_from([start], stop=stop)
    for b in region:
        for s in f.blocks[b]['stmts']:
            if s['k'] == 'assign' and s['lhs']['l'] == 0 and not s['lhs']['p'] and s['rv']['r'] == 'agg' and \
                    s['rv'].get('kind') == 'adt' and s['rv'].get('variant_name') == 'Ok':
                return True
    return False


@rule('SCAN-TO-ZERO', ['C04', 'C12'], floor=1)
def scan_to_zero(ctx):
    """A container scan that walks a position down to zero (`while pos > 0 { ..; pos = start_of_unit }`)
    accounts for every byte of the input: the only exit of the loop that may continue to a successful
    return is the one taken when the position has reached zero. Any other exit towards success leaves a
    prefix of the file unexamined (data in front of the first recognised unit is silently dropped)."""
    F = ctx.facts
    n = 0
    for f in F.fns:
        if f.kind == 'closure' or not f.loops():
            continue
        prov = None
        for h, body in f.loops().items():
            t = f.blocks[h]['term']
            if t['k'] != 'switch':
                continue
            prov = prov or Prov(f)
            cond = prov.operand(t['discr'], 0, '%d:T' % h)
            nc = norm_cmp(cond, True) if cond[0] in ('bin', 'un') else None
            # pos > 0  (normalised: 0 < pos) or pos != 0
            v = None
            header_floor = 0   # the loop is left through its header when the position is <= header_floor
            if nc:
                def _uncast(x):
                    while isinstance(x, tuple) and x[0] == 'cast':
                        x = x[-1]
                    return x
                nc = (nc[0], _uncast(nc[1]), _uncast(nc[2]))
            if nc and nc[0] == 'Lt' and nc[1][0] == 'const' and isinstance(nc[1][2], int) and nc[2][0] == 'local':
                v = nc[2][1]
                header_floor = nc[1][2]            # while pos > c
            if nc and nc[0] == 'Le' and nc[1][0] == 'const' and isinstance(nc[1][2], int) and nc[2][0] == 'local':
                v = nc[2][1]
                header_floor = nc[1][2] - 1        # while pos >= c
            if nc and nc[0] == 'Ne' and nc[2][0] == 'const' and nc[2][2] == 0 and nc[1][0] == 'local':
                v = nc[1][1]
            if v is None or 'u64' not in f.local_ty(v) and 'usize' not in f.local_ty(v):
                continue
            # the variable is re-assigned inside the loop from a subtraction (walking down)
            down = False
            for (bi, si, k, node) in f.whole_defs(v):
                if bi in body and k == 'assign':
                    e = prov.rvalue(node['rv'], 0, '%d:%d' % (bi, si))
                    if any((x[0] == 'bin' and x[1].startswith('Sub')) or
                           (x[0] == 'call' and x[1].split('::')[-1] in ('checked_sub', 'saturating_sub', 'wrapping_sub')) for x in expr_walk(e)):
                        down = True
            if not down:
                continue
            # a position in a seekable source: initialised (outside the loop) from the result of a seek
            from_seek = False
            for (bi, si, k, node) in f.whole_defs(v):
                if bi not in body and k == 'assign':
                    e0 = prov.rvalue(node['rv'], 0, '%d:%d' % (bi, si))
                    if any(x[0] == 'call' and x[1].split('::')[-1] == 'seek' for x in expr_walk(e0)):
                        from_seek = True
            if not from_seek:
                continue
            e = switch_edges(f, h)
            if e is None:
                continue
            exit_edge = [w for w in e if w not in body]
            n += 1
            key = '%s:scan-of-%s' % (f.key, f.local_name(v))
            bad = []
            restart_dirty = []
            if header_floor > 0 and any(_ok_returning(f, w, stop={h}) for w in exit_edge):
                ctx.violation(key, f.loc(h), 'the scan loop is left through its header as soon as `%s` is <= %d, and the function can then return Ok: up to %d '
                              'bytes in front of the first recognised unit are never examined (leading junk, the remnant of a deleted member)'
                              % (f.local_name(v), header_floor, header_floor))
                continue
            for u in sorted(body):
                for w in f.succs(u):
                    if w in body or f.blocks[w]['cleanup']:
                        continue
                    if u == h and w in exit_edge:
                        continue
                    if _ok_returning(f, w, stop={h}):
                        bad.append((u, w))
                    elif h in f.reach_from([w]):
                        # the exit restarts the scan (it can only succeed through the header's zero exit again): what the
                        # abandoned round collected must be thrown away on the way back
                        clears = {cb for cb, ct, cc in f.calls() if cc.name == 'clear'}
                        if h in f.reach_from([w], stop=clears):
                            restart_dirty.append((u, w))
            if restart_dirty and not bad:
                ctx.violation(key, f.loc(restart_dirty[0][0]), 'the scan is restarted from %s without clearing what the abandoned round collected: units '
                              'from a chain that did not reach position zero stay in the result' % f.loc(restart_dirty[0][0]))
                continue
            if bad:
                ctx.violation(key, f.loc(bad[0][0]), 'the scan leaves its loop at %s while `%s` may still be above zero and the function can '
                              'then return Ok: the bytes in front of that position are never examined (a damaged or foreign prefix, '
                              'e.g. the remnant of a deleted member, is silently ignored)' % (f.loc(bad[0][0]), f.local_name(v)))
            else:
                ctx.ok(key, f.loc(h), 'every exit other than `%s == 0` ends in an error' % f.local_name(v))
    if n == 0:
        ctx.anchor_missing('backward container scan loop')


# --------------------------------------------------------------------------- FILTER-ARG-PURE

FILTER_CODECS = ('BCJWriter', 'DeltaWriter', 'BCJReader', 'DeltaReader')


@rule('FILTER-ARG-PURE', ['C02'], floor=2)
def filter_arg_pure(ctx):
    """The parameter a container hands to a filter constructor (BCJ start offset, delta distance) is a function
    of the filter's header-visible property only: writer and reader each rebuild the filter chain per block
    from the block header, so any other input on one side (a running position, a block counter) makes the
    two sides filter with different parameters from the second block on."""
    F = ctx.facts
    n = 0
    for f in F.fns:
        if f.kind == 'closure' or not f.self_adt or last_seg(f.self_adt).startswith(('BCJ', 'Delta')):
            continue
        sites = [(bi, t, c) for bi, t, c in f.calls()
                 if c.self_adt and last_seg(c.self_adt) in FILTER_CODECS and c.name and c.name.startswith('new') and len(t['args']) >= 2]
        if len(sites) < 2:
            continue
        prov = Prov(f)
        own = last_seg(f.self_adt)
        adt = F.adts.get(f.self_adt) or {}
        # running counters / positions of the container itself (integer or Cell<integer> fields)
        int_fields = {fl['name']: True for v in adt.get('variants', [])[:1] for fl in v['fields']
                      if fl['ty'].replace('std::cell::Cell<', '').rstrip('>') in ('u8', 'u16', 'u32', 'u64', 'usize', 'i32', 'i64', 'isize')}
        bad = []
        for bi, t, c in sites:
            for a in t['args'][1:]:
                e = prov.operand(a, 0, '%d:T' % bi)
                for x in expr_walk(e):
                    if x[0] == 'field' and len(x) > 3 and x[3] == own and x[2] not in ('options',):
                        sf = self_field_of(x)
                        if sf and sf[0] != 'options' and int_fields.get(sf[0]):
                            bad.append((bi, c.name, '.'.join(sf)))
        n += 1
        key = '%s:filter-parameters-from-header-only' % f.key
        if bad:
            ctx.violation(key, f.loc(bad[0][0]), 'the argument of %s (%d constructor site(s)) also depends on the container\'s own state `self.%s`: '
                          'the other side builds the filter from the block header alone, so the two sides disagree after the first block' % (
                              bad[0][1], len({b[0] for b in bad}), bad[0][2]))
        else:
            ctx.ok(key, f.loc(sites[0][0]), '%d filter constructor sites take only header-visible properties' % len(sites))
    if n == 0:
        ctx.anchor_missing('filter chain construction in the XZ writer / reader')


# --------------------------------------------------------------------------- VALIDATE-PARITY

def _variant_rem_table(F, f, prov):
    """{variant index: modulus} for `x % k` checks selected by a switch on a FilterType discriminant in f.
    Handles both shapes: a per-arm `% const`, and a per-arm constant assigned to a local that is the divisor of
    one common `%`. Variants without a modulus are absent."""
    out = {}
    for s in f.reachable:
        t = f.blocks[s]['term']
        if t['k'] != 'switch':
            continue
        dl = op_local(t['discr'])
        dd = f.whole_defs(dl) if dl is not None else []
        if not (len(dd) == 1 and dd[0][2] == 'assign' and dd[0][3]['rv']['r'] == 'discr' and 'FilterType' in dd[0][3]['rv']['p'].get('ty', '')):
            continue
        arms = {}
        for v, tgt in t['arms']:
            arms.setdefault(tgt, []).append(int(v))
        for tgt, vs in arms.items():
            region = set()
            # follow straight-line blocks until a join
            cur = tgt
            chain = [tgt]
            while len(f.succs(cur)) == 1 and len(f.pred[f.succs(cur)[0]]) == 1:
                cur = f.succs(cur)[0]
                chain.append(cur)
            # assert terminators split blocks: follow them too
            extra = []
            for b in chain:
                for nb in f.succs(b):
                    if f.blocks[b]['term']['k'] == 'assert' and nb not in chain:
                        extra.append(nb)
            for b in set(chain) | set(extra) | region:
                for st in f.blocks[b]['stmts']:
                    if st['k'] != 'assign':
                        continue
                    rv = st['rv']
                    if rv['r'] == 'bin' and rv['op'] == 'Rem':
                        k = const_val(rv['b'])
                        if isinstance(k, int) and k > 1:
                            for v in vs:
                                out[v] = k
                    elif rv['r'] == 'use' and not st['lhs']['p'] and const_val(rv['o']) is not None and isinstance(const_val(rv['o']), int):
                        # constant stored to a local that is later a `%` divisor
                        l = st['lhs']['l']
                        k = const_val(rv['o'])
                        used = any(s2['k'] == 'assign' and s2['rv']['r'] == 'bin' and s2['rv']['op'] == 'Rem' and
                                   (op_local(s2['rv']['b']) == l or any(
                                       s3['k'] == 'assign' and s3['lhs']['l'] == op_local(s2['rv']['b']) and s3['rv']['r'] == 'use' and op_local(s3['rv']['o']) == l
                                       for b3 in f.blocks for s3 in b3['stmts']))
                                   for b2 in f.blocks for s2 in b2['stmts'])
                        if used and k > 1:
                            for v in vs:
                                out[v] = k
    return out


@rule('VALIDATE-PARITY', ['C19', 'C02'], floor=2)
def validate_parity(ctx):
    """Whatever the XZ reader rejects in a pre-filter's property the XZ writer rejects as well (instead of
    writing a file its own reader refuses): the per-filter alignment table of BCJ start offsets
    (`offset % k`, k chosen by filter type) is the same in the reader's block header parser and in the writer,
    and the writer range-checks the delta distance (1..=256) that it stores in one byte."""
    F = ctx.facts
    rt = wt = None
    rf = wf = None
    for f in F.fns:
        if f.kind == 'closure' or not f.self_adt:
            continue
        nm = last_seg(f.self_adt)
        if nm not in ('BlockHeader', 'XZReader', 'XZWriter'):
            continue
        tab = _variant_rem_table(F, f, Prov(f))
        if not tab:
            continue
        if nm == 'XZWriter':
            wt, wf = tab, f
        else:
            rt, rf = tab, f
    if rt is None:
        return ctx.anchor_missing('BCJ start offset alignment table in the XZ reader')
    adt = [a for p, a in F.adts.items() if last_seg(p) == 'FilterType']
    names = {v['idx']: v['name'] for v in adt[0]['variants']} if adt else {}
    key = 'XZWriter:bcj-offset-alignment-table'
    if wt is None:
        ctx.violation(key, rf.loc(0), 'the reader (%s) rejects BCJ start offsets that are not aligned (%s) but the writer has no such check: '
                      'it reports success for a file its own reader refuses' % (rf.key, ', '.join('%s %% %d' % (names.get(v, v), k) for v, k in sorted(rt.items()))))
    else:
        diff = {v: (rt.get(v, 1), wt.get(v, 1)) for v in set(rt) | set(wt) if rt.get(v, 1) != wt.get(v, 1)}
        if diff:
            ctx.violation(key, wf.loc(0), 'alignment tables differ (filter: reader, writer): %s' % ', '.join(
                '%s: %d, %d' % (names.get(v, v), a, b) for v, (a, b) in sorted(diff.items())))
        else:
            ctx.ok(key, wf.loc(0), 'reader %s and writer %s agree: %s' % (rf.key, wf.key, ', '.join('%s %% %d' % (names.get(v, v), k) for v, k in sorted(rt.items()))))
    # delta distance: stored as (distance - 1) as u8 -> needs a 1..=256 check somewhere in the writer
    key = 'XZWriter:delta-distance-range'
    found = None
    for f in F.fns:
        if f.self_adt and last_seg(f.self_adt) == 'XZWriter' and f.kind != 'closure':
            prov = Prov(f)
            for bi, t, c in f.calls():
                if c.is_('RangeInclusive::contains'):
                    a0 = prov.operand(t['args'][0], 0, '%d:T' % bi)
                    a1 = prov.operand(t['args'][1], 0, '%d:T' % bi) if len(t['args']) > 1 else ('none',)
                    consts = sorted(x[2] for x in expr_walk(a0) if x[0] == 'const' and isinstance(x[2], int))
                    for x in expr_walk(a0):
                        if x[0] == 'const' and isinstance(x[2], dict) and x[2].get('fields'):
                            fv = {fl['name']: fl['v'] for fl in x[2]['fields']}
                            consts += [fv.get('start'), fv.get('end')]
                    if 1 in consts and 256 in consts and any(y[0] == 'field' and y[2] == 'property' for y in expr_walk(a1)):
                        found = (f, bi)
            for s in f.reachable:
                tt = f.blocks[s]['term']
                if tt['k'] == 'switch':
                    cond = prov.operand(tt['discr'], 0, '%d:T' % s)
                    cs = {x[2] for x in expr_walk(cond) if x[0] == 'const' and isinstance(x[2], int)}
                    if 256 in cs and any(x[0] == 'field' and x[2] == 'property' for x in expr_walk(cond)):
                        found = found or (f, s)
    if found:
        ctx.ok(key, found[0].loc(found[1]), 'delta distance checked against 1..=256 in %s' % found[0].key)
    else:
        ctx.violation(key, '-', 'the writer stores the delta distance as (distance - 1) in one byte without checking 1 <= distance <= 256: '
                      '0 underflows (panic) and 257.. is truncated to another distance than the one the data was filtered with')


@rule('INDEX-SIZE-TWIN', ['C03', 'C02'], floor=1)
def index_size_twin(ctx):
    """The XZ stream footer announces the size of the index ("backward size") that a reference decoder uses to
    find the index from the end of the file. The footer writer derives that size from exactly the quantities
    the index writer emits: the variable-length integers counted for the backward size are the same
    expressions, in the same loop structure, as the ones encoded into the index (record count, then per
    record unpadded size and uncompressed size). A size kept by other means (running sum, cached width)
    disagrees as soon as a field's encoded width changes (e.g. at 128 records)."""
    F = ctx.facts
    ms = methods_of(F, 'XZWriter')
    enc_sites, cnt_sites = {}, {}
    for f in ms:
        prov = None
        for bi, t, c in f.calls():
            nm = c.name or ''
            if 'multibyte' not in nm or not t['args']:
                continue
            prov = prov or Prov(f)
            arg = expr_str(prov.operand(t['args'][0], 0, '%d:T' % bi))
            inloop = f.in_loop(bi)
            if nm.startswith('encode'):
                enc_sites.setdefault(f.key, []).append((arg, inloop, bi))
            elif nm.startswith('count'):
                cnt_sites.setdefault(f.key, []).append((arg, inloop, bi))
    # the index writer: the encoder user that has sites inside a loop over the index records
    idx = [(k, v) for k, v in enc_sites.items() if any(il and 'index_records' in a for a, il, _ in v)]
    if not idx:
        return ctx.anchor_missing('XZ index writer (multibyte integers encoded in a loop over the index records)')
    wkey, wsites = idx[0]
    wf = [f for f in ms if f.key == wkey][0]
    want = sorted((a, il) for a, il, _ in wsites)
    # the footer writer: stores/writes a value derived from counted sizes; take the function with count sites
    key = 'XZWriter:backward-size-counts-what-the-index-encodes'
    cands = [(k, v) for k, v in cnt_sites.items()]
    if not cands:
        ctx.violation(key, wf.loc(0), 'the index writer %s encodes %d variable-length integers (%s) but no function computes the index size from '
                      'the same quantities: the backward size in the stream footer is not derived from what the index contains' % (
                          wkey, len(want), '; '.join(a[:40] for a, _ in want)))
        return
    fkey, fsites = cands[0]
    ff = [f for f in ms if f.key == fkey][0]
    got = sorted((a, il) for a, il, _ in fsites)
    if got == want:
        ctx.ok(key, ff.loc(fsites[0][2]), '%s counts the same %d integers %s encodes' % (fkey, len(got), wkey))
    else:
        ctx.violation(key, ff.loc(fsites[0][2]), 'index writer encodes %s; footer counts %s' % (
            ['%s%s' % (a[:40], ' (per record)' if il else '') for a, il in want], ['%s%s' % (a[:40], ' (per record)' if il else '') for a, il in got]))


@rule('VALIDATE-PARITY-LCLP', ['C19'], floor=1)
def validate_parity_lclp(ctx):
    """LZMA2 (and therefore .xz) limits lc + lp to 4: the LZMA2 reader rejects a properties byte with a larger
    sum. The writers that emit LZMA2 must refuse (or never produce) such a combination, otherwise they report
    success for a stream their own reader rejects."""
    F = ctx.facts

    def opname(f, op):
        """debug / field name of an operand (through one copy)"""
        p = op_place(op)
        if p is None:
            return None
        for pe in reversed(p['p']):
            if isinstance(pe, dict) and pe.get('n'):
                return pe['n']
        nm = f.locals[p['l']].get('name')
        if nm:
            return nm
        for (bi, si, k, node) in f.whole_defs(p['l']):
            if k == 'assign' and node['rv']['r'] in ('use', 'cast'):
                return opname(f, node['rv']['o'])
        return None

    def sum_check(f):
        # a comparison of (lc + lp) with 4 / 5 that feeds a branch
        adds = {}
        for bi, b in enumerate(f.blocks):
            for st in b['stmts']:
                if st['k'] == 'assign' and st['rv']['r'] == 'bin' and st['rv']['op'].startswith('Add'):
                    if {opname(f, st['rv']['a']), opname(f, st['rv']['b'])} == {'lc', 'lp'}:
                        adds[st['lhs']['l']] = bi
        if not adds:
            return None
        for bi, b in enumerate(f.blocks):
            for st in b['stmts']:
                if st['k'] == 'assign' and st['rv']['r'] == 'bin' and st['rv']['op'] in ('Gt', 'Ge', 'Lt', 'Le'):
                    for x, y in ((st['rv']['a'], st['rv']['b']), (st['rv']['b'], st['rv']['a'])):
                        if const_val(y) in (4, 5):
                            p = op_place(x)
                            if p is None:
                                continue
                            l = p['l']
                            # `_s.0` of the checked add, possibly through a move
                            srcs = {l}
                            for (b2, s2, k2, n2) in f.whole_defs(l):
                                if k2 == 'assign' and n2['rv']['r'] == 'use' and op_place(n2['rv']['o']):
                                    srcs.add(op_place(n2['rv']['o'])['l'])
                            if srcs & set(adds):
                                return bi
        return None
    reader = None
    for f in F.fns:
        if f.self_adt and last_seg(f.self_adt) == 'LZMA2Reader' and f.kind != 'closure':
            s = sum_check(f)
            if s is not None:
                reader = (f, s)
    if reader is None:
        return ctx.anchor_missing('lc + lp limit check in the LZMA2 reader')
    key = 'LZMA2-writers:lc+lp<=4'
    writers = []
    for f in F.fns:
        if f.kind != 'closure' and f.self_adt and last_seg(f.self_adt) in ('LZMA2Writer', 'XZWriter', 'LZMA2WriterMT', 'LZMAOptions', 'LZMA2Options'):
            s = sum_check(f)
            if s is not None:
                writers.append((f, s))
    if writers:
        ctx.ok(key, writers[0][0].loc(writers[0][1]), 'the sum is checked in %s' % writers[0][0].key)
    else:
        ctx.violation(key, reader[0].loc(reader[1]), 'the reader rejects lc + lp > 4 (%s) but no LZMA2/XZ writer or option setter checks the sum: '
                      'lc = 3, lp = 2 (each inside its own range) is written successfully and cannot be decoded' % reader[0].key)


# --------------------------------------------------------------------------- MAGIC-PREFIX

def _stable_cond(e):
    """True if a branch condition can be equated with a textually equal one elsewhere in the function:
    it reads no memory local directly (results of calls are values of their call site)."""
    def walk(x):
        if not isinstance(x, tuple):
            return True
        if x[0] == 'call':
            # the result of one call site: a single value as long as the site is not re-executed
            # (the caller only equates switches outside loops)
            return True
        if x[0] == 'local':
            return False
        for y in x[1:]:
            if isinstance(y, tuple) and not walk(y):
                return False
            if isinstance(y, list) and not all(walk(z) for z in y):
                return False
        return True
    return walk(e)


def _correlated_reach(f, prov, stop):
    """Blocks reachable from the entry without entering a `stop` block, where two boolean switches on
    the same (stable) condition are taken the same way on one path."""
    conds = {}
    in_loop = set()
    for body in f.loops().values():
        in_loop |= body
    for b in f.reachable:
        t = f.blocks[b]['term']
        if t['k'] != 'switch' or b in in_loop:
            continue
        se = switch_edges(f, b)
        if not se:
            continue
        e = prov.operand(t['discr'], 0, '%d:T' % b)
        if _stable_cond(e):
            conds[b] = (expr_str(e), se)
    seen = set()
    dq = deque([(0, frozenset())])
    out = set()
    while dq:
        b, dec = dq.popleft()
        if (b, dec) in seen or b in stop:
            continue
        seen.add((b, dec))
        out.add(b)
        if b in conds:
            cs, (ft, tt) = conds[b]
            known = dict(dec).get(cs)
            for pol, tgt in ((False, ft), (True, tt)):
                if known is None or known == pol:
                    dq.append((tgt, dec | {(cs, pol)}))
        else:
            for sc in f.succs(b):
                dq.append((sc, dec))
    return out


@rule('MAGIC-PREFIX', ['C05', 'C12'], floor=1)
def magic_prefix(ctx):
    """The LZIP member probe may call the bytes that follow a member "not a member" (= trailing data,
    decoding ends with success) only after it has compared the bytes it actually got with the magic:
    in every function that builds `NextMember::NoMagic`, each path from the entry to that
    construction passes through an equality call one of whose operands derives from the constant
    "LZIP". A path that reaches NoMagic on a short read alone accepts a stream cut inside the next
    member's magic as complete."""
    F = ctx.facts
    n = 0
    for f in F.fns:
        targets = [bi for bi in f.reachable for st in f.blocks[bi]['stmts']
                   if st['k'] == 'assign' and st['rv']['r'] == 'agg' and st['rv'].get('variant_name') == 'NoMagic']
        if not targets:
            continue
        n += 1
        prov = Prov(f)
        cmp_blocks = set()
        for bi, t, c in f.calls():
            if not (c.trait and last_seg(c.trait) == 'PartialEq' and c.name in ('eq', 'ne')):
                continue
            for a in t['args'][:2]:
                e = prov.operand(a, 0, '%d:T' % bi)
                if any(const_bytes(x) == SPEC['lzip_magic'] for x in expr_walk(e)):
                    cmp_blocks.add(bi)
        key = '%s:NoMagic-only-after-comparing-the-bytes' % f.key
        if not cmp_blocks:
            ctx.violation(key, f.loc(targets[0]), 'builds NoMagic but never compares anything with the magic "LZIP"')
            continue
        free = _correlated_reach(f, prov, cmp_blocks)
        bad = [b for b in targets if b in free]
        if bad:
            ctx.violation(key, f.loc(bad[0]), 'a path reaches `NoMagic` (trailing data: decoding ends with Ok) without any comparison of the bytes '
                          'read with the magic: a stream that ends 1-3 bytes into the next member ("L", "LZ", "LZI") is accepted as complete')
        else:
            ctx.ok(key, f.loc(targets[0]), 'every path to NoMagic passes one of %d comparison(s) with "LZIP" (blocks %s)' % (len(cmp_blocks), sorted(cmp_blocks)))
    if not n:
        ctx.anchor_missing('a function that builds NextMember::NoMagic')


# --------------------------------------------------------------------------- TRAILING-SKIP

@rule('TRAILING-SKIP', ['C08', 'C12'], floor=2)
def trailing_skip(ctx):
    """The LZIP format allows data after the last member and the single-threaded reader ignores it (NoMagic after a
    complete member ends decoding with Ok). The multi-threaded reader finds its members by walking back from the end
    of the file, so it returns the same bytes for such a file only if it first searches for the end of the last
    member: somewhere before the first member is recorded there must be a probing loop in which a failed magic
    comparison is not fatal (the loop goes on with another candidate position). A scan whose first magic/trailer
    mismatch is an error rejects every file with trailing bytes. The loop may be in scan_members itself or in a
    function it calls before its member loop."""
    F = ctx.facts
    fs = [f for f in F.fns if f.key == 'LZIPReaderMT::scan_members']
    if not fs:
        ctx.anchor_missing('LZIPReaderMT::scan_members')
        return
    f = fs[0]
    key = '%s:trailing-data-skipped-like-the-single-threaded-reader' % f.key
    # the ST reader does accept trailing data (otherwise nothing to agree on)
    st_accepts = any(st['k'] == 'assign' and st['rv']['r'] == 'agg' and st['rv'].get('variant_name') == 'NoMagic'
                     for g in F.fns for b in g.reachable for st in g.blocks[b]['stmts'])
    if not st_accepts:
        ctx.info(key, f.loc(0), 'the single-threaded reader has no trailing-data case any more: nothing to agree on')
        ctx.violation(key, f.loc(0), 'cannot find the single-threaded reader\'s trailing-data case (NoMagic): anchor lost (fail closed)')
        return
    push = [bi for bi, t, c in f.calls() if c.name == 'push' and 'Vec' in c.path]
    if not push:
        ctx.violation(key, f.loc(0), 'cannot find where members are recorded (Vec::push): anchor lost (fail closed)')
        return
    member_loops = [h for h, body in f.loops().items() if push[0] in body]
    mh = member_loops[0] if member_loops else push[0]

    def probing_loops(g, before=None):
        """Loops of g (restricted to blocks from which `before` is reachable... i.e. that can come first) that contain
        a comparison with the magic whose mismatch edge stays inside the loop."""
        pg = Prov(g)
        out = []
        for h, body in g.loops().items():
            if before is not None and (before in body or not g.dominates(h, before) and before not in g.reach_from([h])):
                continue
            for b in sorted(body):
                t = g.blocks[b]['term']
                if t['k'] != 'call':
                    continue
                c = Callee(callee_of(t)) if callee_of(t) else None
                if not (c and c.trait and last_seg(c.trait) == 'PartialEq' and c.name in ('eq', 'ne')):
                    continue
                ops = [pg.operand(a, 0, '%d:T' % b) for a in t['args'][:2]]
                if not any(const_bytes(x) == SPEC['lzip_magic'] for e in ops for x in expr_walk(e)):
                    continue
                # the switch on the result
                nb = t.get('target')
                if nb is None or g.blocks[nb]['term']['k'] != 'switch':
                    continue
                se = switch_edges(g, nb)
                if not se:
                    continue
                mismatch = se[0] if c.name == 'eq' else se[1]
                # non-fatal: from the mismatch edge the loop header is reachable again
                if h in g.reach_from([mismatch]) and mismatch in body:
                    out.append((g, b))
        return out

    found = probing_loops(f, before=mh)
    if not found:
        for bi, t, c in f.calls():
            if bi in f.reach_from([mh]) and not f.dominates(bi, mh):
                continue
            for g in F.resolve_callee(c):
                if g is not f and g.file == f.file:
                    found += probing_loops(g)
    if found:
        g, b = found[0]
        ctx.ok(key, g.loc(b), 'before the first member is recorded, %s probes candidate positions: a failed comparison with "LZIP" continues the search' % g.key)
    else:
        ctx.violation(key, f.loc(mh), 'the backward member scan starts at the raw end of the file and its first magic/trailer mismatch is an error: '
                      'a file with trailing bytes after the last member (valid LZIP, accepted by LZIPReader) makes LZIPReaderMT::new fail')
    # clause 2: trailing data may itself contain a member or something member-like. A chain of members that breaks before it
    # reaches position 0 started inside trailing data: the validation failures of the member loop must lead back into the
    # search, not to an error.
    key2 = '%s:broken-chain-restarts-the-search' % f.key
    if not member_loops:
        ctx.violation(key2, f.loc(mh), 'cannot find the member loop (anchor lost, fail closed)')
        return
    body = f.loops()[mh]
    pf = Prov(f)
    fatal = []
    nval = 0
    for b in sorted(body):
        t = f.blocks[b]['term']
        if t['k'] != 'switch' or b == mh:
            continue
        outs = [w for w in f.succs(b) if w not in body and not f.blocks[w]['cleanup']]
        if not outs:
            continue
        e = pf.operand(t['discr'], 0, '%d:T' % b)
        if any(x[0] == 'trybranch' or (x[0] == 'call' and last_seg(x[1]) in ('branch',)) for x in expr_walk(e)):
            continue   # `?` on an I/O call: a failing source is an error
        nval += 1
        for w in outs:
            if mh not in f.reach_from([w]):
                fatal.append((b, w))
    if not nval:
        ctx.violation(key2, f.loc(mh), 'the member loop has no validation exit (trailer size, magic): anchor lost (fail closed)')
    elif fatal:
        ctx.violation(key2, f.loc(fatal[0][0]), 'a member chain that fails validation at %s ends LZIPReaderMT::new with an error; when the chain began inside '
                      'trailing data (e.g. A B xx C: the single-threaded reader returns A and B) the real last member ends further down and the '
                      'search has to go on there' % f.loc(fatal[0][0]))
    else:
        ctx.ok(key2, f.loc(mh), '%d validation exit(s) of the member loop lead back into the search' % nval)



# --------------------------------------------------------------------------- SCAN-PROGRESS

@rule('SCAN-PROGRESS', ['C06', 'C09'], floor=2)
def scan_progress(ctx):
    """The backward scans of LZIPReaderMT (member table, end of the last member) terminate on every input: in each
    loop whose header compares a position with a constant (`while pos > 0`, `while end >= MIN`), every path from the
    header back to the header passes an assignment `pos = pos - x` whose x is proven >= 1 (interval analysis with the
    guards on the path: `member_size == 0` is an error). A step that may be zero repeats the same trailer forever,
    pushing a member per round: no return and unbounded memory from a file of a few dozen bytes."""
    from lzlint.intervals import Intervals
    F = ctx.facts
    I = Intervals(F)
    n = 0
    for f in F.fns:
        if not (f.self_adt and last_seg(f.self_adt) == 'LZIPReaderMT' and f.kind != 'closure'):
            continue
        prov = None
        for h, body in f.loops().items():
            t = f.blocks[h]['term']
            if t['k'] != 'switch':
                continue
            prov = prov or Prov(f)
            cond = prov.operand(t['discr'], 0, '%d:T' % h)
            nc = norm_cmp(cond, True) if cond[0] in ('bin', 'un') else None
            if not nc:
                continue
            v = None
            for a, b in ((nc[1], nc[2]), (nc[2], nc[1])):
                while isinstance(a, tuple) and a[0] == 'cast':
                    a = a[-1]
                if a[0] == 'const' and isinstance(a[2], int) and b[0] == 'local':
                    v = b[1]
            if v is None or f.local_ty(v) not in ('u64', 'usize'):
                continue
            n += 1
            key = '%s:scan-of-%s-advances' % (f.key, f.local_name(v))
            dec_blocks = set()
            weak = None
            for (bi, si, k, node) in f.whole_defs(v):
                if bi not in body or k != 'assign':
                    continue
                e = prov.rvalue(node['rv'], 0, '%d:%d' % (bi, si))
                amt = None
                x = e
                while x[0] in ('cast',):
                    x = x[-1]
                if x[0] == 'field' and isinstance(x[1], tuple) and x[1][0] == 'bin' and x[1][1].startswith('Sub') and str(x[2]) == '0':
                    x = ('bin', 'Sub', x[1][2], x[1][3])
                if x[0] == 'bin' and x[1] == 'Sub' and x[2][0] == 'local' and x[2][1] == v:
                    amt = x[3]
                if amt is None:
                    # payload of checked_sub(pos, x)
                    for y in expr_walk(e):
                        if y[0] == 'call' and y[1].split('::')[-1] in ('checked_sub', 'saturating_sub') and len(y[2]) == 2 and \
                                y[2][0][0] == 'local' and y[2][0][1] == v:
                            amt = y[2][1]
                if amt is None:
                    weak = (bi, 'assigned %s, not of the form pos - x' % expr_str(e)[:60])
                    continue
                iv = I.eval(f, bi, amt, 0, None, frozenset())
                if iv.lo >= 1:
                    dec_blocks.add(bi)
                else:
                    weak = (bi, 'step %s has range %r: it may be zero' % (expr_str(amt)[:60], iv))
            # every cycle through the header passes a decrement
            inside = [s_ for s_ in f.succs(h) if s_ in body]
            free = set()
            stack = list(inside)
            while stack:
                b = stack.pop()
                if b in free or b in dec_blocks or b not in body:
                    continue
                free.add(b)
                for s_ in f.succs(b):
                    if s_ == h:
                        free.add(('back', b))
                    else:
                        stack.append(s_)
            backs = [x for x in free if isinstance(x, tuple)]
            if backs:
                where = weak[0] if weak else backs[0][1]
                ctx.violation(key, f.loc(where), 'a round of the scan loop can return to its header without moving %s down by at least one%s: '
                              'the loop repeats the same position forever (LZIPReaderMT::new never returns and keeps allocating)'
                              % (f.local_name(v), (' (' + weak[1] + ')') if weak else ''))
            else:
                ctx.ok(key, f.loc(h), 'every round passes one of %d assignment(s) %s = %s - x with x >= 1' % (len(dec_blocks), f.local_name(v), f.local_name(v)))
    if not n:
        ctx.anchor_missing('position-bounded scan loops in LZIPReaderMT')


# --------------------------------------------------------------------------- DICT-BYTE-COVERS

@rule('DICT-BYTE-COVERS', ['C02', 'C19'], floor=1)
def dict_byte_covers(ctx):
    """The LZIP header byte encodes the dictionary size as 2^b minus f sixteenths of 2^b. The size it announces must
    not be smaller than the window the encoder really uses (the reader allocates what the header says; a match beyond
    it is "dist overflow"). With base = 2^b >= dict_size and diff = base - dict_size, the number of sixteenths taken
    away has to be rounded DOWN: f = diff / unit (integer division). Any rounding up (`div_ceil`, `(diff + unit - 1) /
    unit`, `next_multiple_of`) announces less than dict_size for every size that is not exactly representable."""
    F = ctx.facts
    fs = [f for f in F.fns if f.key in ('lzip::encode_dict_size',) or (f.name == 'encode_dict_size' and f.file == 'src/lzip.rs')]
    if not fs:
        ctx.anchor_missing('lzip::encode_dict_size')
        return
    f = fs[0]
    key = '%s:fraction-rounded-down' % f.key
    prov = Prov(f)
    ups = [(bi, c.name) for bi, t, c in f.calls() if c.name in ('div_ceil', 'next_multiple_of', 'checked_next_multiple_of')]
    divs = []
    for b in sorted(f.reachable):
        for si, s in enumerate(f.blocks[b]['stmts']):
            if s['k'] == 'assign' and s['rv']['r'] == 'bin' and s['rv']['op'] == 'Div':
                e = prov.rvalue(s['rv'], 0, '%d:%d' % (b, si))
                divs.append((b, e))
    # a division whose dividend adds (divisor - 1): rounding up by hand
    manual = [(b, e) for b, e in divs if any(x[0] == 'bin' and x[1].startswith('Add') for x in expr_walk(e[2])) and
              expr_str(e[3]) in expr_str(e[2])]
    if ups or manual:
        where = ups[0][0] if ups else manual[0][0]
        ctx.violation(key, f.loc(where), 'the number of sixteenths subtracted from the base size is rounded up (%s): the header byte announces a dictionary '
                      'smaller than the one in use for every size that is not exactly representable (5000 -> 4608); a match beyond the announced '
                      'size makes the member undecodable' % (ups[0][1] if ups else 'add-then-divide'))
    elif divs:
        ctx.ok(key, f.loc(divs[0][0]), '%d integer division(s), none rounds up' % len(divs))
    else:
        ctx.violation(key, f.loc(0), 'cannot find the division that computes the fraction (anchor lost, fail closed)')


# --------------------------------------------------------------------------- TAIL-PREFIX

@rule('TAIL-PREFIX', ['C04', 'C05', 'C08'], floor=1)
def tail_prefix(ctx):
    """Whatever follows the last LZIP member is trailing data - unless it starts like another member: then the file is
    damaged or cut. "Starts like" includes a file that ends one, two or three bytes into the next member's magic ("L",
    "LZ", "LZI"): the single-threaded reader reports that as truncation (MAGIC-PREFIX), so the backward search of the
    multi-threaded reader has to compare the bytes behind its candidate end with a PREFIX of the magic whose length
    is the number of bytes that are there, not only whole magics. Structure required in the probing function: an
    equality call between a variable-length slice of the probed bytes and a slice of the constant "LZIP" of the same
    (non-constant) length."""
    F = ctx.facts
    fs = [f for f in F.fns if f.self_adt and last_seg(f.self_adt) == 'LZIPReaderMT' and f.kind != 'closure' and f.loops()]
    key = 'LZIPReaderMT:tail-compared-with-a-magic-prefix'
    found = None
    probes = 0
    for f in fs:
        prov = Prov(f)
        has_magic_cmp = False
        for bi, t, c in f.calls():
            if not (c.trait and last_seg(c.trait) == 'PartialEq' and c.name in ('eq', 'ne')):
                continue
            ops = [prov.operand(a, 0, '%d:T' % bi) for a in t['args'][:2]]
            if not any(const_bytes(x) == SPEC['lzip_magic'] for e in ops for x in expr_walk(e)):
                continue
            has_magic_cmp = True
            for e in ops:
                for x in expr_walk(e):
                    if x[0] == 'call' and last_seg(x[1]) == 'index' and len(x[2]) == 2 and const_bytes(x[2][0]) == SPEC['lzip_magic']:
                        rng = x[2][1]
                        if rng[0] == 'agg' and str(rng[1]).endswith('RangeTo::RangeTo') and rng[2] and rng[2][0][0] != 'const':
                            found = (f, bi)
        if has_magic_cmp:
            probes += 1
    if not probes:
        ctx.anchor_missing('comparison with the LZIP magic in LZIPReaderMT')
    elif found:
        ctx.ok(key, found[0].loc(found[1]), 'the bytes behind the candidate end are compared with LZIP_MAGIC[..n], n = number of bytes present')
    else:
        ctx.violation(key, fs[0].loc(0) if fs else '-', 'the bytes behind the last member are only compared with the whole magic: a file that ends 1-3 bytes into the '
                      'next member\'s magic is accepted with the earlier members only, where LZIPReader reports truncation')


# --------------------------------------------------------------------------- UNIT-RECORD (C02, C03) - round 12

@rule('UNIT-RECORD', ['C02', 'C03'], floor=4)
def unit_record(ctx):
    """Container writers keep per-unit counters (bytes of the current XZ block / LZIP member): fields that `write`
    advances by the accepted count and that the unit opener / closer resets to 0. Two obligations:
    (A) an advance of a per-unit counter in `write` sits in the same loop iteration as the call that can close the
    unit: inside the innermost loop that contains that call. Hoisted behind the loop ("+= total at the end") the
    closer, which runs in the middle of a write that straddles a unit boundary, writes a size that lacks the bytes of
    this call - the LZIP trailer then declares too little for one member and too much for the next.
    (B) a size the closer puts into the unit's record (the aggregate it builds: XZ index record) that comes from a
    counter field `write` advances must come from a per-unit one. The running total of the whole stream equals the
    block counter for the first block only; with it every later index record is cumulative (liblzma rejects the
    file, the crate's own reader does not look)."""
    F = ctx.facts
    from rules.units import self_field_stores
    from lzlint.core import op_const, self_field_of
    n = 0
    for adt in ('XZWriter', 'LZIPWriter'):
        ms = methods_of(F, adt)
        if not ms:
            continue
        wr = [f for f in ms if f.impl and last_seg(f.impl.get('trait')) == 'Write' and f.name == 'write']
        if not wr:
            ctx.anchor_missing('impl Write for %s' % adt)
            continue
        w = wr[0]
        provw = Prov(w)
        advanced = {}
        for bi, si, fld, rv in self_field_stores(w):
            e = provw.rvalue(rv, 0, '%d:%d' % (bi, si))
            if e[0] == 'field' and e[2] == '0':
                e = e[1]
            if e[0] == 'bin' and e[1].startswith('Add') and any(self_field_of(x) == (fld,) for x in (e[2], e[3])):
                advanced.setdefault(fld, []).append(bi)
        resets = {}
        for g in ms:
            if g is w or 'Self' in str(g.d.get('output')) or not (g.d.get('inputs') and str(g.d['inputs'][0]).startswith('&mut')):
                continue
            for bi, si, fld, rv in self_field_stores(g):
                k = op_const(rv['o']) if rv['r'] == 'use' else None
                if k is not None and k.get('v') == 0 and fld in advanced:
                    resets.setdefault(fld, set()).add(g.path)
        per_unit = set(resets)
        if not per_unit:
            ctx.anchor_missing('%s: a counter advanced in write and reset to 0 by another method' % adt)
            continue
        # (A)
        closers = set().union(*resets.values())
        # one level up: methods of the type that call a resetting method
        for g in ms:
            if any(h.path in closers for _, _, c in g.calls() for h in F.resolve_callee(c)):
                closers.add(g.path)
        call_blocks = [bi for bi, t, c in w.calls() if any(h.path in closers for h in F.resolve_callee(c))]
        loops = w.loops()
        for fld in sorted(per_unit):
            n += 1
            key = '%s:%s:advanced-where-the-unit-can-close' % (w.key, fld)
            if not call_blocks:
                ctx.violation(key, w.loc(0), 'write never calls the unit opener / closer: anchor lost (fail closed)')
                continue
            bad = None
            for cb in call_blocks:
                inner = [body for h, body in loops.items() if cb in body]
                if not inner:
                    continue
                body = min(inner, key=len)
                for sb in advanced[fld]:
                    if sb not in body:
                        bad = (sb, cb)
            if bad:
                ctx.violation(key, w.loc(bad[0]), '`%s` is advanced outside the loop in which the unit is closed (%s): a write that straddles a unit '
                              'boundary closes the unit before its own bytes are counted, the unit\'s size record is short and the next one long' % (
                                  fld, w.loc(bad[1])))
            else:
                ctx.ok(key, w.loc(advanced[fld][0]), 'advanced inside the loop that can close the unit')
        # (B)
        for g in ms:
            prov = None
            for bi, b in enumerate(g.blocks):
                if b['cleanup'] or bi not in g.reachable:
                    continue
                for si, s in enumerate(b['stmts']):
                    if not (s['k'] == 'assign' and s['rv']['r'] == 'agg' and s['rv'].get('kind') == 'adt'):
                        continue
                    if last_seg(s['rv'].get('adt', '')) in (adt, 'Some', 'Ok', 'Err') or 'Record' not in s['rv'].get('adt', ''):
                        continue
                    prov = prov or Prov(g)
                    for oi, o in enumerate(s['rv']['ops']):
                        e = prov.operand(o, 0, '%d:%d' % (bi, si))
                        sf = self_field_of(e)
                        if sf and len(sf) == 1 and sf[0] in advanced:
                            n += 1
                            key = '%s:%s.%d:per-unit-counter' % (g.key, last_seg(s['rv']['adt']), oi)
                            if sf[0] in per_unit:
                                ctx.ok(key, g.loc(bi, si), 'record field %d = self.%s, reset per unit by %s' % (oi, sf[0], ', '.join(sorted(last_seg(x) for x in resets[sf[0]]))))
                            else:
                                ctx.violation(key, g.loc(bi, si), 'the unit record takes field %d from `self.%s`, a counter that write advances but no unit '
                                              'opener / closer resets: from the second unit on the record holds a running total, not the size of the unit' % (oi, sf[0]))
    if n == 0:
        ctx.anchor_missing('per-unit counters of XZWriter / LZIPWriter')


# --------------------------------------------------------------------------- VARINT-TWIN (C02, C03) - round 12

def _abs_expr(f, e, depth=0):
    """expression with local names replaced by their types (so a renamed variable does not matter)"""
    if not isinstance(e, tuple) or depth > 10:
        return '?'
    k = e[0]
    if k == 'const':
        return str(e[2])
    if k == 'local':
        return '<%s>' % f.local_ty(e[1])
    if k == 'param':
        return '<param>'
    if k == 'cast':
        return _abs_expr(f, e[2], depth + 1)
    if k == 'field' and e[1][0] == 'bin' and e[2] == '0':
        return _abs_expr(f, e[1], depth + 1)
    if k == 'bin':
        return '(%s %s %s)' % (_abs_expr(f, e[2], depth + 1), e[1].replace('WithOverflow', ''), _abs_expr(f, e[3], depth + 1))
    if k == 'un':
        return '%s(%s)' % (e[1], _abs_expr(f, e[2], depth + 1))
    return '<%s>' % k


@rule('VARINT-TWIN', ['C02', 'C03'], floor=2)
def varint_twin(ctx):
    """The XZ multibyte integer has two decoders: one over a slice (block header fields) and one over a reader (index
    records). They are twins: what one rejects the other rejects. For each function that ORs `(byte & 0x7F) << shift`
    into a u64 result, the set of data-dependent rejecting conditions inside its loop (comparisons, with variables
    abstracted to their types, whose one edge leads to an Err without returning to the loop) is extracted; the sets must
    be equal. A 'hardening' check added to one twin only (`bits == 0 && shift > 0`: it rejects the valid continuation
    byte 0x80, i.e. every index value with an all-zero middle group - 16384, 65536, 1 MiB) makes the reader refuse
    files its own writer produced, while every test of the other twin passes."""
    F = ctx.facts
    twins = []
    for f in F.fns:
        if f.kind == 'closure' or 'Result<u64' not in str(f.d.get('output')) or not f.loops():
            continue
        prov = Prov(f)
        hit = False
        for bi, b in enumerate(f.blocks):
            for si, s in enumerate(b['stmts']):
                if s['k'] == 'assign' and s['rv']['r'] == 'bin' and s['rv']['op'] == 'BitAnd':
                    k = op_const_v(s['rv'].get('b')) if 'op_const_v' in globals() else None
                    e = prov.rvalue(s['rv'], 0, '%d:%d' % (bi, si))
                    if e[3][0] == 'const' and e[3][2] == 0x7F:
                        hit = True
        if hit:
            twins.append((f, prov))
    if len(twins) < 2:
        return ctx.anchor_missing('two multibyte-integer decoders (functions -> Result<u64> with a loop masking bytes with 0x7F)')
    sets = {}
    for f, prov in twins:
        conds = set()
        loops = f.loops()
        body = set().union(*loops.values())
        heads = set(loops)
        for sb in sorted(body):
            e = switch_edges(f, sb)
            if e is None:
                continue
            cond = prov.operand(f.blocks[sb]['term']['discr'], 0, '%d:T' % sb)
            c = cond
            while c[0] == 'un' and c[1] == 'Not':
                c = c[2]
            if c[0] != 'bin' or c[1] not in ('Eq', 'Ne', 'Lt', 'Le', 'Gt', 'Ge'):
                continue
            for pol, tgt in ((True, e[1]), (False, e[0])):
                reach = f.reach_from([tgt], stop=heads) | {tgt}
                if reach & heads:
                    continue
                builds_err = any(s['k'] == 'assign' and s['lhs']['l'] == 0 and s['rv']['r'] == 'agg' and s['rv'].get('variant_name') == 'Err'
                                 for b in reach for s in f.blocks[b]['stmts'])
                back = any(h in f.reach_from([tgt]) for h in heads)
                if builds_err and not back:
                    nc = norm_cmp(cond, pol)
                    conds.add('%s %s %s' % (_abs_expr(f, nc[1]), nc[0], _abs_expr(f, nc[2])) if nc else _abs_expr(f, cond))
        sets[f.key] = (f, conds)
    ref_key = sorted(sets)[0]
    ref = sets[ref_key][1]
    for k in sorted(sets):
        f, conds = sets[k]
        key = '%s:rejects-what-its-twin-rejects' % k
        if conds == ref and conds:
            ctx.ok(key, f.loc(0), 'rejecting conditions inside the loop: %s' % sorted(conds))
        elif not conds:
            ctx.violation(key, f.loc(0), 'no data-dependent rejection found in the decoder loop: anchor lost (fail closed)')
        else:
            ctx.violation(key, f.loc(0), 'this decoder rejects under %s, its twin %s under %s: one of them refuses encodings the other (and the writer) '
                          'treats as valid' % (sorted(conds ^ ref), ref_key, sorted(ref)))


# --------------------------------------------------------------------------- ALONE-DICT-FORM (C03) - round 12

@rule('ALONE-DICT-FORM', ['C03'], floor=1)
def alone_dict_form(ctx):
    """The .lzma (LZMA_Alone) header carries the dictionary size as a plain 32-bit number, and the reference decoder only
    accepts the values its own encoder can produce: 2^n and 2^n + 2^(n-1) (liblzma, alone_decoder.c: anything else is
    "File format not recognized"; checked here with `xz --format=lzma -dc` on a header patched to 100000: rejected, 65536
    and 98304: accepted). A writer that wants its .lzma files to be readable by the reference therefore has to announce a
    size of that form (rounding UP is always valid: the decoder only needs at least the size the encoder used). Obligation:
    the variable whose bytes the header loop of LZMAWriter::new writes (`x & 0xFF`, `x >>= 8`) is not initialised with the
    raw option field - some rounding stands between the option and the header."""
    from lzlint.intervals import _strip
    from lzlint.core import self_field_of, op_const, op_local
    F = ctx.facts
    fs = [f for f in F.fns if f.self_adt and last_seg(f.self_adt) == 'LZMAWriter' and f.name == 'new']
    if not fs:
        return ctx.anchor_missing('LZMAWriter::new')
    f = fs[0]
    prov = Prov(f)
    key = '%s:header-dictionary-size-is-a-size-the-reference-accepts' % f.key
    loops = f.loops()
    body = set().union(*loops.values()) if loops else set()
    cand = None
    for bi, b in enumerate(f.blocks):
        if bi not in body:
            continue
        for si, s in enumerate(b['stmts']):
            if s['k'] == 'assign' and s['rv']['r'] == 'bin' and s['rv']['op'] == 'BitAnd':
                k = op_const(s['rv']['b'])
                l = op_local(s['rv']['a'])
                if k is not None and k.get('v') == 0xFF and l is not None and s['rv'].get('aty') == 'u32' and cand is None:
                    cand = (bi, l)
    if cand is None:
        return ctx.violation(key, f.loc(0), 'cannot find the loop that writes the four size bytes (`x & 0xFF`): anchor lost (fail closed)')
    bi, l = cand
    # the local may be a temporary copy: walk back to the named variable
    seen = set()
    while l is not None and l not in seen and not f.locals[l].get('name'):
        seen.add(l)
        nxt = None
        for (db, ds, dk, node) in f.whole_defs(l):
            if dk == 'assign' and node['rv']['r'] in ('use', 'cast'):
                nxt = op_local(node['rv']['o'])
        l = nxt
    inits = []
    for (db, ds, dk, node) in (f.whole_defs(l) if l is not None else []):
        if db in body or dk != 'assign':
            continue
        inits.append((db, ds, _strip(prov.rvalue(node['rv'], 0, '%d:%d' % (db, ds)))))
    if not inits:
        return ctx.violation(key, f.loc(bi), 'no initialisation of the header size variable outside the loop: anchor lost (fail closed)')
    raw = [(db, ds, e) for db, ds, e in inits if e[0] == 'field' and e[2] == 'dict_size']
    if raw:
        ctx.violation(key, f.loc(raw[0][0], raw[0][1]), 'the .lzma header announces `%s` as it is: for a dictionary size that is not 2^n or 2^n + 2^(n-1) '
                      '(e.g. 100000) `xz` / liblzma refuse the file ("File format not recognized") although the stream is fine' % expr_str(raw[0][2]))
    else:
        ctx.ok(key, f.loc(inits[0][0], inits[0][1]), 'the header size is derived (%s), not the raw option' % expr_str(inits[0][2])[:60])
