"""Container format rules: BYTE-CONTRA, STREAM-RESET (C12), GUARD-COMPARE (C04), TABLE-INVERSE (C02),
SPEC-CONST (C03)."""
from lzlint.framework import rule
from lzlint.core import (Prov, Callee, callee_of, strip_generics, last_seg, expr_walk, expr_str, op_local, op_place,
                         const_val, guards_of, norm_cmp, switch_edges, self_field_of, reachable_without_edge)
from lzlint.byteeval import ByteEval, fold, Unknown
from rules.units import methods_of, self_field_stores, mentions_self_field

READER_PARSE_ADTS = ('XZReader', 'StreamHeader', 'BlockHeader', 'Index', 'StreamFooter', 'LZIPReader', 'LZIPHeader',
                     'LZIPTrailer', 'LZIPReaderMT')


def const_bytes(e):
    """Byte tuple of a constant array/slice expression (possibly behind refs/casts)."""
    while isinstance(e, tuple) and e[0] in ('ref', 'deref', 'cast'):
        e = e[-1] if e[0] == 'cast' else e[1]
    if isinstance(e, tuple) and e[0] == 'const' and isinstance(e[2], tuple):
        return e[2]
    if isinstance(e, tuple) and e[0] == 'agg' and e[1] == 'array' and all(x[0] == 'const' for x in e[2]):
        return tuple(x[2] for x in e[2])
    return None


def array_local(e):
    while isinstance(e, tuple) and e[0] in ('ref', 'deref', 'cast'):
        e = e[-1] if e[0] == 'cast' else e[1]
    if isinstance(e, tuple) and e[0] == 'local':
        return e[1]
    return None


@rule('BYTE-CONTRA', ['C12'], floor=1)
def byte_contra(ctx):
    """No success exit of a parser may be dead because of contradictory tests on the same input
    byte: where an array is compared with a constant magic and element k of the array was stored
    from a byte whose value set on every path to the comparison excludes magic[k], the equality edge
    (and the success behind it) can never be taken."""
    F = ctx.facts
    n = 0
    for f in F.fns:
        if not f.self_adt or last_seg(f.self_adt) not in READER_PARSE_ADTS:
            continue
        prov = None
        for bi, t, c in f.calls():
            if not (c.trait and last_seg(c.trait) == 'PartialEq' and c.name in ('eq', 'ne')):
                continue
            prov = prov or Prov(f)
            a0, a1 = prov.operand(t['args'][0], 0, '%d:T' % bi), prov.operand(t['args'][1], 0, '%d:T' % bi)
            cb, arr = const_bytes(a1), array_local(a0)
            if cb is None or arr is None:
                cb, arr = const_bytes(a0), array_local(a1)
            if cb is None or arr is None:
                continue
            # element stores arr[k] = X with constant k
            stores = []
            for b2, blk in enumerate(f.blocks):
                if blk['cleanup']:
                    continue
                for si, s in enumerate(blk['stmts']):
                    if s['k'] != 'assign' or s['lhs']['l'] != arr or len(s['lhs']['p']) != 1:
                        continue
                    pe = s['lhs']['p'][0]
                    k = None
                    if isinstance(pe, dict) and 'ci' in pe:
                        k = pe['ci']
                    elif isinstance(pe, dict) and 'i' in pe:
                        ie = prov.local(pe['i'], 0, '%d:%d' % (b2, si))
                        if ie[0] == 'const':
                            k = ie[2]
                    if k is None or k >= len(cb):
                        continue
                    stores.append((b2, si, k, prov.rvalue(s['rv'], 0, '%d:%d' % (b2, si))))
            for (b2, si, k, val) in stores:
                x = val
                while x[0] == 'cast':
                    x = x[2]
                be = ByteEval(f, x, prov)
                if be.first_test_block() is None:
                    continue
                n += 1
                key = '%s:magic[%d]-vs-earlier-tests' % (f.key, k)
                feasible = set()
                for v in range(256):
                    try:
                        if bi in be.reachable(v, max_visits=8):
                            feasible.add(v)
                    except RuntimeError:
                        feasible.add(v)
                if cb[k] in feasible:
                    ctx.ok(key, f.loc(bi), 'element %d of the compared array may equal magic[%d]=0x%02X on a path to the '
                           'comparison (%d feasible values)' % (k, k, cb[k], len(feasible)))
                else:
                    ctx.violation(key, f.loc(bi), 'contradictory tests: the array compared with the magic %s has element %d '
                                  ':= %s, but every path to this comparison has already excluded the value 0x%02X for that '
                                  'byte, so the comparison can never succeed and the success exit behind it is dead' % (
                                      ' '.join('%02X' % b for b in cb), k, expr_str(x), cb[k]))
    if n == 0:
        ctx.anchor_missing('magic comparison fed by an individually tested byte')


@rule('STREAM-RESET', ['C12'], floor=2)
def stream_reset(ctx):
    """On the success path of the next-stream detector the per-stream state is re-initialised and
    the stream padding length is tested to be a multiple of four."""
    F = ctx.facts
    ms = methods_of(F, 'XZReader')
    # the detector = the self method called after the footer was parsed that itself reads from the source
    cands = []
    for g in ms:
        foot = [bi for bi, t, c in g.calls() if c.name in ('parse_index_and_footer',) or c.is_('StreamFooter::parse')]
        if not foot:
            continue
        for bi, t, c in g.calls():
            if not any(bi in g.reach_from(g.succs(fb)) for fb in foot):
                continue
            for h in F.resolve_callee(c):
                if h.self_adt == g.self_adt and h.path != g.path and h.d.get('output', '').startswith('std::result::Result<bool') and \
                        any(c2.trait and last_seg(c2.trait) == 'Read' for _, _, c2 in h.calls()) and h not in cands:
                    cands.append(h)
    if not cands:
        return ctx.anchor_missing('XZReader next-stream detector (Result<bool>, loops, parses a header)')
    f = cands[0]
    prov = Prov(f)
    # Ok(true) return blocks
    okb = []
    for bi, b in enumerate(f.blocks):
        for si, s in enumerate(b['stmts']):
            if s['k'] == 'assign' and s['lhs']['l'] == 0 and s['rv']['r'] == 'agg' and s['rv'].get('variant_name') == 'Ok':
                v = prov.operand(s['rv']['ops'][0], 0, '%d:%d' % (bi, si))
                if v[0] == 'const' and v[2] in (1, True):
                    okb.append(bi)
    if not okb:
        return ctx.anchor_missing('Ok(true) exit of the next-stream detector')
    for ob in okb:
        # padding % 4 test dominates
        found = None
        for s, pol, cond in guards_of(f, ob, prov):
            nc = norm_cmp(cond, pol) if cond[0] in ('bin', 'un') else None
            if nc and nc[0] == 'Eq':
                for side, other in ((nc[1], nc[2]), (nc[2], nc[1])):
                    if any(x[0] == 'bin' and x[1] == 'Rem' and x[3][0] == 'const' and x[3][2] == 4 for x in expr_walk(side)) and \
                            other[0] == 'const' and other[2] == 0:
                        found = s
        if found is not None:
            ctx.ok('%s:padding-multiple-of-4' % f.key, f.loc(found), 'success requires padding %% 4 == 0')
        else:
            ctx.violation('%s:padding-multiple-of-4' % f.key, f.loc(ob), 'a new stream is accepted without testing that the '
                          'stream padding is a multiple of four bytes')
        # state reset: stores to self fields dominate Ok(true)
        st = [(bi, name) for bi, si, name, rv in self_field_stores(f) if f.dominates(bi, ob)]
        names = sorted({n for _, n in st})
        if len(names) >= 2:
            ctx.ok('%s:per-stream-state-reset' % f.key, f.loc(ob), 'reassigns %s before reporting a new stream' % names)
        else:
            ctx.violation('%s:per-stream-state-reset' % f.key, f.loc(ob), 'per-stream state (header, block counter) is not '
                          're-initialised on the success path (only %s)' % names)
