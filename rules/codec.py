"""CODEC-MIRROR (C01): the LZMA encoder and decoder use the shared probability model identically.

For each pair of sibling functions (rep match, normal match, length coder, literal sub-coder,
top-level symbol dispatch) the acyclic paths of the encoder (partially evaluated over a finite case
split of its parameters) and of the decoder are projected on *coding events*:
    (primitive, model table, index roles, decision bit)
plus the state-machine update and the net permutation of the four rep distances. For every encoder
case the decoder path with the same decision-bit string must carry the same events and leaf.
Nothing is executed; conditions are folded over small finite domains."""
from lzlint.framework import rule
from lzlint.core import (Prov, Callee, callee_of, strip_generics, last_seg, expr_walk, expr_str, op_local, op_place,
                         const_val, switch_edges, norm_cmp, field_path, op_const)
from lzlint.byteeval import fold, Unknown
from rules.units import methods_of

ENC_PRIMS = {'encode_bit': 'bit', 'encode_bit_tree': 'tree', 'encode_reverse_bit_tree': 'rtree', 'encode_direct_bits': 'direct'}
DEC_PRIMS = {'decode_bit': 'bit', 'decode_bit_tree': 'tree', 'decode_reverse_bit_tree': 'rtree', 'decode_direct_bits': 'direct'}


def table_of(e):
    """(field path tuple, [index exprs]) of a table argument expression."""
    names = []
    idx = []
    while isinstance(e, tuple):
        k = e[0]
        if k in ('ref', 'deref'):
            e = e[1]
        elif k == 'cast':
            e = e[2]
        elif k == 'field':
            names.append(e[2])
            e = e[1]
        elif k == 'index':
            idx.append(e[2])
            e = e[1]
        elif k == 'call' and e[1].endswith(('IndexMut::index_mut', 'Index::index')) and len(e[2]) == 2:
            idx.append(e[2][1])
            e = e[2][0]
        elif k == 'call' and e[2] and e[1].split('::')[-1].startswith('get_') and len(e[2]) == 2:
            # accessor returning a sub-table: coder.get_dist_special(i)
            names.append(e[1].split('::')[-1][4:])
            idx.append(e[2][1])
            e = e[2][0]
        elif k == 'call' and e[1].endswith(('as_mut_slice', 'as_mut', 'deref_mut', 'deref')) and e[2]:
            e = e[2][0]
        else:
            break
    names.reverse()
    idx.reverse()
    # drop leading object path up to the model struct: keep the last two names at most
    return tuple(n for n in names if n not in ('coder',)), idx


class Roles:
    def __init__(self, F):
        self.F = F
        self.memo = {}
        self._callers = None

    def callers(self, fn):
        if self._callers is None:
            self._callers = {}
            for g in self.F.fns:
                for bi, t, c in g.calls():
                    for h in self.F.resolve_callee(c):
                        self._callers.setdefault(h.path, []).append((g, bi, t))
        return self._callers.get(fn.path, [])

    def role(self, fn, e, depth=0):
        while e[0] in ('cast', 'ref', 'deref'):
            e = e[2] if e[0] == 'cast' else e[1]
        if e[0] == 'const':
            return ('k', e[2])
        s = set()

        def walk(x):
            if not isinstance(x, tuple):
                return
            if x[0] == 'call':
                c = callee_of(x[3]) if len(x) > 3 and x[3] is not None else None
                if x[1].endswith('State::get'):
                    s.add('state')
                    return
                if c and c.get('local') and len(x[2]) == 1 and not c.get('impl_self_ty') and not c.get('trait'):
                    s.add('f(len)')
                    return
                s.add('var')       # result of some other call: opaque, do not look into its arguments
                return
            if x[0] == 'field' and x[2] == 'pos_mask':
                s.add('pos_state')
                return
            if x[0] == 'param':
                if depth < 3 and fn.local_ty(x[1]) in ('u32', 'usize', 'i32'):
                    rs = set()
                    for (g, bi, t) in self.callers(fn):
                        if x[1] - 1 < len(t['args']):
                            r = self.role(g, Prov(g).operand(t['args'][x[1] - 1], 0, '%d:T' % bi), depth + 1)
                            rs.add(r if isinstance(r, str) else 'var')
                    s.add(rs.pop() if len(rs) == 1 else 'var')
                else:
                    s.add('var')
                return
            if x[0] == 'local':
                s.add('var')
                return
            for y in x[1:]:
                if isinstance(y, tuple):
                    walk(y)
                elif isinstance(y, list):
                    for z in y:
                        walk(z)
        walk(e)
        if not s:
            return 'var'
        if len(s) > 1:
            s.discard('var')
        return '+'.join(sorted(s))


class PathWalker:
    """Acyclic path enumeration with condition folding (env over parameter names / locals), coding
    events, decoded-bit edges, symbolic rep distances and state updates."""

    def __init__(self, F, fn, side, roles, env=None, slot_key=None, loop_end=False):
        self.loop_end = loop_end
        self.F = F
        self.fn = fn
        self.side = side            # 'enc' | 'dec'
        self.prims = ENC_PRIMS if side == 'enc' else DEC_PRIMS
        self.roles = roles
        self.prov = Prov(fn)
        self.env0 = dict(env or {})
        self.conds = {}
        for b in fn.reachable:
            t = fn.blocks[b]['term']
            if t['k'] == 'switch':
                self.conds[b] = self.prov.operand(t['discr'], 0, '%d:T' % b)

    # -- reps places
    def _reps_index(self, place, env):
        """If place is <...>.reps[idx] return idx (int) or 'var'; else None."""
        names = [pe.get('n') for pe in place['p'] if isinstance(pe, dict) and 'f' in pe]
        if 'reps' not in names:
            return None
        last = place['p'][-1]
        if isinstance(last, dict) and 'ci' in last:
            return last['ci']
        if isinstance(last, dict) and 'i' in last:
            try:
                return fold(self.prov.local(last['i'], 0, None), env)
            except Unknown:
                e = self.prov.local(last['i'], 0, None)
                try:
                    return fold(e, env)
                except Unknown:
                    return 'var'
        return None

    def run(self, limit=400):
        fn = self.fn
        out = []
        init = {'events': [], 'reps': ['r0', 'r1', 'r2', 'r3'], 'sym': {}, 'state': [], 'calls': [], 'pending': {}, 'slot': []}
        stack = [(0, (0,), dict(self.env0), init)]
        while stack:
            b, path, env, st = stack.pop()
            st = {'events': list(st['events']), 'reps': list(st['reps']), 'sym': dict(st['sym']), 'state': list(st['state']),
                  'calls': list(st['calls']), 'pending': dict(st['pending']), 'slot': list(st['slot']), 'err': st.get('err')}
            blk = fn.blocks[b]
            for si, s in enumerate(blk['stmts']):
                if s['k'] != 'assign':
                    continue
                lhs, rv = s['lhs'], s['rv']
                # reads of reps[k] into a local
                if not lhs['p'] and rv['r'] == 'use':
                    p = op_place(rv['o'])
                    if p is not None:
                        k = self._reps_index(p, env) if p['p'] else None
                        if k is not None:
                            st['sym'][lhs['l']] = st['reps'][k] if isinstance(k, int) and 0 <= k < 4 else 'rVAR'
                        elif not p['p'] and p['l'] in st['sym']:
                            st['sym'][lhs['l']] = st['sym'][p['l']]
                        else:
                            st['sym'].pop(lhs['l'], None)
                    else:
                        st['sym'].pop(lhs['l'], None)
                elif not lhs['p'] and rv['r'] == 'cast':
                    p = op_place(rv['o'])
                    if p is not None and not p['p'] and p['l'] in st['sym']:
                        st['sym'][lhs['l']] = st['sym'][p['l']]
                    else:
                        st['sym'].pop(lhs['l'], None)
                elif not lhs['p']:
                    st['sym'].pop(lhs['l'], None)
                if lhs['l'] == 0 and not lhs['p'] and rv['r'] == 'agg' and rv.get('variant_name') in ('Err', 'Ok'):
                    st['err'] = (rv.get('variant_name') == 'Err')
                # stores into reps[k]
                if lhs['p']:
                    k = self._reps_index(lhs, env)
                    if k is not None:
                        val = 'NEW'
                        if rv['r'] in ('use', 'cast'):
                            p = op_place(rv['o'])
                            if p is not None:
                                k2 = self._reps_index(p, env) if p['p'] else None
                                if k2 is not None and isinstance(k2, int):
                                    val = st['reps'][k2]
                                elif not p['p'] and p['l'] in st['sym']:
                                    val = st['sym'][p['l']]
                        if isinstance(k, int) and 0 <= k < 4:
                            st['reps'][k] = val
                        else:
                            st['reps'] = ['?'] * 4
                # multi-def int locals: keep env for folding
                if not lhs['p'] and len(fn.whole_defs(lhs['l'])) > 1:
                    try:
                        env[('L', lhs['l'])] = fold(self.prov.rvalue(rv, 1, '%d:%d' % (b, si)), env)
                    except Unknown:
                        env.pop(('L', lhs['l']), None)
            t = blk['term']
            k = t['k']
            if k == 'return':
                if st.get('err'):
                    continue
                out.append(st)
                if len(out) > limit:
                    raise RuntimeError('path budget')
                continue
            if k == 'call':
                c = callee_of(t)
                nm = strip_generics(c['path']) if c else ''
                ln = nm.split('::')[-1]
                pos = '%d:T' % b
                if nm.endswith('from_residual') and t['dest']['l'] == 0:
                    st['err'] = True
                if ln in self.prims and ('RangeEncoder' in nm or 'RangeDecoder' in nm):
                    prim = self.prims[ln]
                    if prim == 'direct':
                        st['events'].append(('direct',))
                    else:
                        tab = self.prov.operand(t['args'][1], 0, pos)
                        names, idx = table_of(tab)
                        rl = [self.roles.role(fn, i) for i in idx]
                        bit = None
                        if self.side == 'enc' and prim == 'bit':
                            # encode_bit(table, index, bit)
                            rl.append(self.roles.role(fn, self.prov.operand(t['args'][2], 0, pos)))
                            try:
                                bit = fold(self.prov.operand(t['args'][3], 0, pos), env)
                            except Unknown:
                                bit = 'var'
                        ev = [prim, names, tuple(rl), bit]
                        st['events'].append(ev)
                        if self.side == 'dec' and prim == 'bit' and not t['dest']['p']:
                            st['pending'][t['dest']['l']] = len(st['events']) - 1
                        if prim == 'tree' and 'dist_slots' in names:
                            # the slot variable
                            if self.side == 'enc':
                                st['slot'].append(expr_str(self.prov.operand(t['args'][2], 0, pos)))
                            else:
                                st['slot'].append(('L', t['dest']['l']))
                elif ln.startswith('update_') and 'State' in nm:
                    st['state'].append(ln)
                elif c and c.get('local'):
                    # helper call: record with its receiver field (length coder identity)
                    recv = self.prov.operand(t['args'][0], 0, pos) if t['args'] else ('unknown',)
                    names, idx = table_of(recv)
                    islen = c['path'] in getattr(self.roles, 'len_fns', ())
                    st['calls'].append((ln, names[-1] if names else None, len(st['events']), islen))
                    if islen:
                        st['events'].append(('call', ln, names[-1] if names else None))
                if not t['dest']['p']:
                    env.pop(('L', t['dest']['l']), None)
            succ = fn.succs(b)
            if k == 'switch':
                cond = self.conds[b]
                taken = None
                # decoded-bit edges
                dl = op_local(t['discr'])
                pend = st['pending']
                bit_for = {}
                cc = cond
                if cc[0] == 'bin' and cc[1] in ('Eq', 'Ne') and cc[3][0] == 'const' and cc[3][2] == 0 and cc[2][0] == 'call':
                    # Eq(decode_bit(..), 0)
                    node = cc[2][3]
                    dest = node['dest']['l']
                    e = switch_edges(fn, b)
                    if dest in pend and e is not None:
                        if cc[1] == 'Eq':
                            bit_for = {e[1]: 0, e[0]: 1}
                        else:
                            bit_for = {e[1]: 1, e[0]: 0}
                        idxev = pend[dest]
                        for tgt in (e[0], e[1]):
                            st2 = dict(st)
                            st2['events'] = [list(x) if isinstance(x, list) else x for x in st['events']]
                            st2['events'][idxev] = list(st2['events'][idxev])
                            st2['events'][idxev][3] = bit_for[tgt]
                            st2['pending'] = {}
                            if path.count(tgt) < 1:
                                stack.append((tgt, path + (tgt,), dict(env), st2))
                        continue
                if dl is not None and dl in pend:
                    # direct switch on the decoded bit
                    idxev = pend[dl]
                    for a, tgt in t['arms']:
                        st2 = dict(st)
                        st2['events'] = list(st['events'])
                        st2['events'][idxev] = list(st2['events'][idxev])
                        st2['events'][idxev][3] = int(a)
                        if path.count(tgt) < 1:
                            stack.append((tgt, path + (tgt,), dict(env), st2))
                    st2 = dict(st)
                    st2['events'] = list(st['events'])
                    st2['events'][idxev] = list(st2['events'][idxev])
                    others = {int(a) for a, _ in t['arms']}
                    st2['events'][idxev][3] = 1 if 0 in others else 0
                    if path.count(t['otherwise']) < 1:
                        stack.append((t['otherwise'], path + (t['otherwise'],), dict(env), st2))
                    continue
                # slot class conditions
                nc = norm_cmp(cond, True) if cond[0] in ('bin', 'un') else None
                slotcmp = None
                if nc and st['slot']:
                    a, c2 = nc[1], nc[2]
                    while c2[0] == 'cast':
                        c2 = c2[2]
                    while a[0] == 'cast' and a[2][0] == 'const':
                        a = a[2]
                    aa = a
                    while aa[0] == 'cast':
                        aa = aa[2]
                    sk = st['slot'][-1]
                    is_slot = (isinstance(sk, str) and expr_str(aa) == sk) or \
                        (isinstance(sk, tuple) and aa[0] == 'local' and aa[1] == sk[1]) or \
                        (isinstance(sk, tuple) and any(x[0] == 'call' and len(x) > 3 and x[3] is not None and
                                                       x[3].get('dest', {}).get('l') == sk[1] for x in expr_walk(aa)))
                    if is_slot and c2[0] == 'const' and nc[0] in ('Lt', 'Le'):
                        slotcmp = (nc[0], c2[2])
                    # reversed: const <= slot
                    bb = c2
                    while bb[0] == 'cast':
                        bb = bb[2]
                    is_slot_b = (isinstance(sk, str) and expr_str(bb) == sk) or (isinstance(sk, tuple) and bb[0] == 'local' and bb[1] == sk[1]) or \
                        (isinstance(sk, tuple) and any(x[0] == 'call' and len(x) > 3 and x[3] is not None and
                                                       x[3].get('dest', {}).get('l') == sk[1] for x in expr_walk(bb)))
                    if is_slot_b and a[0] == 'const' and nc[0] in ('Lt', 'Le'):
                        # c OP slot  ==  not (slot OP' c): c <= slot == !(slot < c) ; c < slot == !(slot <= c)
                        slotcmp = ('!Lt' if nc[0] == 'Le' else '!Le', a[2])
                try:
                    val = fold(cond, env)
                    succ = [t['otherwise']]
                    for a, tgt in t['arms']:
                        if int(a) == val:
                            succ = [tgt]
                except Unknown:
                    pass
                e = switch_edges(fn, b)
                for s_ in succ:
                    if path.count(s_) >= 1:
                        continue
                    st2 = st
                    if slotcmp is not None and e is not None:
                        truth = (s_ == e[1])
                        op, cval = slotcmp
                        if op.startswith('!'):
                            op = op[1:]
                            truth = not truth
                        if op == 'Le':
                            op, cval = 'Lt', cval + 1
                        st2 = dict(st)
                        st2['events'] = list(st['events']) + [('slot<', cval, truth)]
                    stack.append((s_, path + (s_,), dict(env), st2))
                continue
            for s_ in succ:
                if path.count(s_) >= 1:
                    if self.loop_end and not st.get('err'):
                        out.append(st)      # one loop iteration ends here
                    continue
                stack.append((s_, path + (s_,), dict(env), st))
        return out


def coding(events):
    """Coding events only (tables/primitives/bits/helper calls), as hashable tuples."""
    out = []
    for e in events:
        if e[0] in ('bit', 'tree', 'rtree'):
            out.append((e[0], tuple(e[1]), tuple(e[2]), e[3]))
        elif e[0] == 'direct':
            out.append(('direct',))
        elif e[0] == 'slot<':
            out.append(e)
        elif e[0] == 'call':
            out.append(('call',))
    return tuple(out)


def bits_of(events):
    return tuple((tuple(e[1]), e[3]) for e in events if e[0] == 'bit')


def fmt(evs):
    out = []
    for e in evs:
        if e[0] in ('bit', 'tree', 'rtree'):
            out.append('%s %s%s%s' % (e[0], '.'.join(e[1]), ''.join('[%s]' % (r if isinstance(r, str) else r[1]) for r in e[2]),
                                      '' if e[3] is None else '=%s' % e[3]))
        elif e[0] == 'slot<':
            out.append('slot%s%d' % ('<' if e[2] else '>=', e[1]))
        else:
            out.append(e[0])
    return ' ; '.join(out)


def find_pair(F, adt_e, adt_d, pred_e, pred_d):
    fe = [f for f in methods_of(F, adt_e) if pred_e(f)]
    fd = [f for f in methods_of(F, adt_d) if pred_d(f)]
    return (fe[0] if len(fe) == 1 else None), (fd[0] if len(fd) == 1 else None)


def touches(F, f, field, depth=2):
    """Does f (or its local callees, bounded) code with a table whose path contains `field`?"""
    seen = set()
    stack = [(f, 0)]
    while stack:
        g, d = stack.pop()
        if g.path in seen:
            continue
        seen.add(g.path)
        prov = Prov(g)
        for bi, t, c in g.calls():
            ln = c.npath.split('::')[-1]
            if (ln in ENC_PRIMS or ln in DEC_PRIMS) and len(t['args']) > 1:
                names, _ = table_of(prov.operand(t['args'][1], 0, '%d:T' % bi))
                if field in names:
                    return True
            if d < depth:
                for h in F.resolve_callee(c):
                    stack.append((h, d + 1))
    return False


@rule('CODEC-MIRROR', ['C01'], floor=14)
def codec_mirror(ctx):
    """Encoder and decoder agree, per symbol kind, on the probability tables, their index roles, the
    polarity of every decision bit, the state transition and the rotation of the rep distances."""
    F = ctx.facts
    roles = Roles(F)
    enc = methods_of(F, 'LZMAEncoder')
    dec = methods_of(F, 'LZMADecoder')
    if not enc or not dec:
        return ctx.anchor_missing('LZMAEncoder / LZMADecoder')
    # discover the sibling functions by the tables they code with (no names)
    def direct_tables(f):
        prov = Prov(f)
        s = set()
        for bi, t, c in f.calls():
            ln = c.npath.split('::')[-1]
            if (ln in ENC_PRIMS or ln in DEC_PRIMS) and len(t['args']) > 1 and ('RangeEncoder' in c.npath or 'RangeDecoder' in c.npath):
                names, _ = table_of(prov.operand(t['args'][1], 0, '%d:T' % bi))
                s.update(names)
        return s
    def pick(fs, field):
        c = [f for f in fs if field in direct_tables(f)]
        return c[0] if len(c) == 1 else None
    le = [f for f in F.fns if f.self_adt and last_seg(f.self_adt) == 'LengthEncoder' and 'choice' in direct_tables(f)]
    ld = [f for f in F.fns if f.self_adt and last_seg(f.self_adt) == 'LengthCoder' and 'choice' in direct_tables(f)]
    roles.len_fns = {f.path for f in le + ld}
    e_rep, d_rep = pick(enc, 'is_rep0'), pick(dec, 'is_rep0')
    e_match, d_match = pick(enc, 'dist_slots'), pick(dec, 'dist_slots')
    if not all((e_rep, d_rep, e_match, d_match)):
        return ctx.anchor_missing('rep/match coder functions (by the tables is_rep0 / dist_slots they use)')

    # ---------------- REP MATCH
    pnames = [e_rep.local_name(i) for i in range(1, e_rep.arg_count + 1)]
    # parameter carrying the rep index: the u32 param compared with small constants; the len param: compared with 1
    prov_e = Prov(e_rep)
    cmpc = {}
    for b in e_rep.reachable:
        t = e_rep.blocks[b]['term']
        if t['k'] == 'switch':
            cond = prov_e.operand(t['discr'], 0, '%d:T' % b)
            for x in expr_walk(cond):
                if x[0] == 'bin' and x[1] in ('Eq', 'Ne') and x[2][0] == 'param' and x[3][0] == 'const':
                    cmpc.setdefault(x[2][2], set()).add(x[3][2])
            if t.get('discr_ty') in ('u32', 'usize'):
                cc = cond
                while cc[0] == 'cast':
                    cc = cc[2]
                if cc[0] == 'param':
                    cmpc.setdefault(cc[2], set()).update(int(a[0]) for a in t['arms'])
    rep_p = [p for p, cs in cmpc.items() if {0, 1} <= cs or {0, 3} <= cs or len(cs) >= 2]
    len_p = [p for p, cs in cmpc.items() if cs == {1}]
    if len(rep_p) != 1 or len(len_p) != 1:
        ctx.violation('rep:params', e_rep.loc(0), 'cannot identify the rep-index / length parameters of the rep-match encoder (%s)' % cmpc)
    else:
        dpaths = PathWalker(F, d_rep, 'dec', roles).run()
        dmap = {}
        for st in dpaths:
            dmap.setdefault(bits_of(st['events']), []).append(st)
        for rep, ln in ((0, 1), (0, 2), (1, 2), (2, 2), (3, 2)):
            name = 'short-rep' if (rep, ln) == (0, 1) else 'rep%d' % rep
            key = 'rep-match:%s' % name
            eps = PathWalker(F, e_rep, 'enc', roles, env={rep_p[0]: rep, len_p[0]: ln}).run()
            if len(eps) != 1:
                ctx.violation(key, e_rep.loc(0), 'encoder case (rep=%d,len=%d) does not evaluate to one path (%d)' % (rep, ln, len(eps)))
                continue
            es = eps[0]
            eb = bits_of(es['events'])
            cand = dmap.get(eb)
            if not cand:
                ctx.violation(key, e_rep.loc(0), 'the encoder emits the decision bits [%s] for %s but the decoder has no path with '
                              'these tables and bit values (its paths: %s): the two sides disagree on a table or on the polarity '
                              'of a bit' % (fmt([e for e in es['events'] if e[0] == 'bit']), name,
                                            ' | '.join(fmt([e for e in d['events'] if e[0] == 'bit']) for d in dpaths)))
                continue
            ds = cand[0]
            probs = []
            if [tuple(e[2]) for e in es['events'] if e[0] == 'bit'] != [tuple(e[2]) for e in ds['events'] if e[0] == 'bit']:
                probs.append('index roles differ: enc [%s] dec [%s]' % (fmt(es['events']), fmt(ds['events'])))
            if es['reps'] != ds['reps']:
                probs.append('rep distances after the symbol: encoder %s, decoder %s' % (es['reps'], ds['reps']))
            if sorted(es['state']) != sorted(ds['state']):
                probs.append('state update: encoder %s, decoder %s' % (es['state'], ds['state']))
            if bool([c for c in es['calls'] if c[3]]) != bool([c for c in ds['calls'] if c[3]]):
                probs.append('length coder use: encoder %s, decoder %s' % (es['calls'], ds['calls']))
            if probs:
                ctx.violation(key, e_rep.loc(0), '%s is coded differently by the two sides: %s' % (name, '; '.join(probs)))
            else:
                ctx.ok(key, e_rep.loc(0), '[%s] -> reps %s, %s%s' % (fmt([e for e in es['events'] if e[0] == 'bit']), es['reps'],
                                                                     es['state'], ', len coder' if [c for c in es['calls'] if c[3]] else ''))
    # ---------------- MATCH
    eps = PathWalker(F, e_match, 'enc', roles).run()
    dps = PathWalker(F, d_match, 'dec', roles).run()
    def cls(st):
        return tuple(sorted((e[1], e[2]) for e in st['events'] if e[0] == 'slot<'))
    def norm_cls(c):
        # reduce to the slot interval
        lo, hi = 0, 64
        for cval, truth in c:
            if truth:
                hi = min(hi, cval)
            else:
                lo = max(lo, cval)
        return (lo, hi)
    emap = {norm_cls(cls(s)): s for s in eps}
    dmap2 = {norm_cls(cls(s)): s for s in dps}
    if len(emap) < 3 or len(dmap2) < 3:
        ctx.violation('match:classes', e_match.loc(0), 'cannot split the match coder by distance-slot class (enc %s, dec %s)' % (sorted(emap), sorted(dmap2)))
    for k in sorted(set(emap) | set(dmap2)):
        key = 'match:slot[%d,%d)' % k
        es, ds = emap.get(k), dmap2.get(k)
        if es is None or ds is None:
            ctx.violation(key, e_match.loc(0), 'distance-slot class %s exists on one side only (encoder classes %s, decoder classes %s): '
                          'the slot thresholds differ' % (k, sorted(emap), sorted(dmap2)))
            continue
        ce = [e for e in coding(es['events']) if e[0] != 'slot<']
        cd = [e for e in coding(ds['events']) if e[0] != 'slot<']
        probs = []
        if ce != cd:
            probs.append('coding events: encoder [%s], decoder [%s]' % (fmt(ce), fmt(cd)))
        if es['reps'] != ds['reps']:
            probs.append('rep distances: encoder %s, decoder %s' % (es['reps'], ds['reps']))
        if sorted(es['state']) != sorted(ds['state']):
            probs.append('state update: encoder %s, decoder %s' % (es['state'], ds['state']))
        if probs:
            ctx.violation(key, e_match.loc(0), 'a match with distance slot in [%d,%d) is coded differently: %s' % (k[0], k[1], '; '.join(probs)))
        else:
            ctx.ok(key, e_match.loc(0), '[%s] reps %s %s' % (fmt(ce), es['reps'], es['state']))
    # the two length coders are distinct fields, used consistently
    def len_fields(paths):
        return {c[1] for st in paths for c in st['calls'] if c[3]}
    lr_e = len_fields(PathWalker(F, e_rep, 'enc', roles, env={}).run())
    lm_e = len_fields(eps)
    lr_d = len_fields(PathWalker(F, d_rep, 'dec', roles).run())
    lm_d = len_fields(dps)
    if len(lr_e) == 1 and len(lm_e) == 1 and lr_e != lm_e and len(lr_d) == 1 and len(lm_d) == 1 and lr_d != lm_d:
        ctx.ok('length-coders-distinct', e_match.loc(0), 'match uses %s/%s, rep uses %s/%s' % (lm_e, lm_d, lr_e, lr_d))
    else:
        ctx.violation('length-coders-distinct', e_match.loc(0), 'match and rep lengths must use two different length coders on both sides '
                      '(encoder match %s rep %s; decoder match %s rep %s)' % (lm_e, lr_e, lm_d, lr_d))
    # ---------------- LENGTH CODER
    if len(le) != 1 or len(ld) != 1:
        ctx.anchor_missing('length coder functions')
    else:
        ep = PathWalker(F, le[0], 'enc', roles).run()
        dp = PathWalker(F, ld[0], 'dec', roles).run()
        em = {bits_of(s['events']): s for s in ep}
        dm = {bits_of(s['events']): s for s in dp}
        for bts in sorted(set(em) | set(dm), key=str):
            nm = ''.join(str(b[1]) for b in bts)
            key = 'length:choice=%s' % nm
            if bts not in em or bts not in dm:
                ctx.violation(key, le[0].loc(0), 'length class with choice bits %s exists on one side only' % nm)
                continue
            ce, cd = coding(em[bts]['events']), coding(dm[bts]['events'])
            if ce == cd:
                ctx.ok(key, le[0].loc(0), fmt(ce))
            else:
                ctx.violation(key, le[0].loc(0), 'length class %s: encoder [%s], decoder [%s]' % (nm, fmt(ce), fmt(cd)))
    # ---------------- TOP LEVEL
    e_top = [f for f in enc if 'is_match' in direct_tables(f)]
    d_top = [f for f in dec if 'is_match' in direct_tables(f)]
    def kind(F, callee_name, owner_fns):
        for g in F.fns:
            if g.name == callee_name and g.kind != 'closure':
                if touches(F, g, 'dist_slots', 0) or (g.path in (e_match.path, d_match.path)):
                    return 'match'
                if touches(F, g, 'is_rep0', 0) or (g.path in (e_rep.path, d_rep.path)):
                    return 'rep'
                if touches(F, g, 'probs', 2):
                    return 'literal'
        return None
    if not d_top or not e_top:
        ctx.anchor_missing('top-level symbol coder (uses is_match)')
    else:
        dpt = PathWalker(F, d_top[0], 'dec', roles, loop_end=True).run()
        dtree = {}
        for s in dpt:
            ks = [kind(F, c[0], dec) for c in s['calls']]
            ks = [k for k in ks if k]
            bt = bits_of(s['events'])
            if bt and ks:
                dtree[tuple(b for b in bt)] = (ks[0], [tuple(e[2]) for e in s['events'] if e[0] == 'bit'])
        for f in sorted(e_top, key=lambda f: f.name):
            ept = PathWalker(F, f, 'enc', roles).run()
            seen = set()
            for s in ept:
                bt = bits_of(s['events'])
                ks = [kind(F, c[0], enc) for c in s['calls']]
                ks = [k for k in ks if k]
                if not bt or not ks:
                    continue
                sig = (bt, ks[0])
                if sig in seen:
                    continue
                seen.add(sig)
                key = 'top:%s:%s' % (f.name, ks[0])
                d = dtree.get(bt)
                rl = [tuple(e[2]) for e in s['events'] if e[0] == 'bit']
                if d is None:
                    ctx.violation(key, f.loc(0), 'encoder announces a %s with decision bits [%s]; the decoder has no such path (decoder: %s)' % (
                        ks[0], fmt([e for e in s['events'] if e[0] == 'bit']), {fmt([('bit', b[0], (), b[1]) for b in k]): v[0] for k, v in dtree.items()}))
                elif d[0] != ks[0]:
                    ctx.violation(key, f.loc(0), 'decision bits [%s] announce a %s in the encoder but the decoder decodes a %s' % (
                        fmt([e for e in s['events'] if e[0] == 'bit']), ks[0], d[0]))
                elif [tuple(r for r in x if not (isinstance(r, tuple) and r[0] == 'k')) for x in rl] != \
                        [tuple(r for r in x if not (isinstance(r, tuple) and r[0] == 'k')) for x in d[1]] and \
                        not any(isinstance(r, tuple) for x in rl for r in x):
                    ctx.violation(key, f.loc(0), 'index roles of the dispatch bits differ: encoder %s, decoder %s' % (rl, d[1]))
                else:
                    ctx.ok(key, f.loc(0), '[%s] -> %s' % (fmt([e for e in s['events'] if e[0] == 'bit']), ks[0]))
    # ---------------- LITERAL
    ls_e = [f for f in F.fns if f.self_adt and last_seg(f.self_adt) == 'LiteralSubEncoder' and 'probs' in direct_tables(f)]
    ls_d = [f for f in F.fns if f.self_adt and last_seg(f.self_adt) == 'LiteralSubDecoder' and 'probs' in direct_tables(f)]
    if len(ls_e) != 1 or len(ls_d) != 1:
        ctx.anchor_missing('literal sub-coder functions')
    else:
        def lit_shape(f, side):
            prov = Prov(f)
            out = {}
            for bi, t, c in f.calls():
                ln = c.npath.split('::')[-1]
                if ln not in ('encode_bit', 'decode_bit'):
                    continue
                if side == 'enc':
                    ie = prov.operand(t['args'][2], 0, '%d:T' % bi)
                else:
                    _, idx = table_of(prov.operand(t['args'][1], 0, '%d:T' % bi))
                    ie = idx[-1] if idx else ('unknown',)
                # number of addends in the index expression (expanding loop locals one level)
                def addends(e, seen=frozenset()):
                    while e[0] == 'cast':
                        e = e[2]
                    if e[0] == 'field' and e[1][0] == 'bin':
                        e = e[1]
                    if e[0] == 'bin' and e[1].startswith('Add'):
                        return addends(e[2], seen) + addends(e[3], seen)
                    if e[0] == 'local' and e[1] not in seen:
                        ds = prov.def_exprs(e[1])
                        adds = [addends(d, seen | {e[1]}) for _, d in ds]
                        return max(adds) if adds else 1
                    return 1
                # which is_literal polarity guards this site
                from lzlint.core import guards_of
                pol = None
                for s_, p_, cond in guards_of(f, bi, prov):
                    cc = cond
                    while cc[0] == 'un' and cc[1] == 'Not':
                        cc = cc[2]
                        p_ = not p_
                    if cc[0] == 'call' and cc[1].endswith('is_literal'):
                        pol = p_
                out[pol] = addends(ie)
            upd = sorted({c.npath.split('::')[-1] for _, _, c in f.calls() if 'State::update_' in c.npath})
            return out, upd
        se, ue = lit_shape(ls_e[0], 'enc')
        sd, ud = lit_shape(ls_d[0], 'dec')
        for pol in (True, False):
            key = 'literal:%s' % ('after-literal' if pol else 'after-match')
            if se.get(pol) == sd.get(pol) and se.get(pol) is not None:
                ctx.ok(key, ls_e[0].loc(0), 'probs index has %d addend(s) on both sides%s' % (se[pol], '' if pol else ' (offset + match_bit + symbol)'))
            else:
                ctx.violation(key, ls_e[0].loc(0), 'literal coding when the previous symbol was %s a literal: encoder indexes probs with %s addend(s), '
                              'decoder with %s: the matched-literal / plain-literal contexts are swapped or differ' % (
                                  '' if pol else 'not', se.get(pol), sd.get(pol)))
        if ue == ud and ue:
            ctx.ok('literal:state', ls_e[0].loc(0), 'both sides call %s' % ue)
        else:
            ctx.violation('literal:state', ls_e[0].loc(0), 'state update after a literal: encoder %s, decoder %s' % (ue, ud))
    # ---------------- helper formula twin (dist state of len)
    hs = []
    for f in F.fns:
        if f.kind == 'fn' and f.arg_count == 1 and not f.loops() and f.d.get('inputs') and f.d['inputs'][0] in ('u32', 'usize') and \
                f.d.get('output') in ('u32', 'usize'):
            used = False
            for g in (e_match, d_match):
                if any(c.path == f.path for _, _, c in g.calls()):
                    used = True
            if used:
                hs.append(f)
    if len(hs) == 2:
        from lzlint.intervals import _strip
        def shape(f):
            prov = Prov(f)
            vals = []
            for (bi, si, k, node) in f.whole_defs(0):
                if k == 'assign':
                    vals.append(expr_str(_strip(prov.rvalue(node['rv'], 0, '%d:%d' % (bi, si)))))
            conds = []
            for b in f.reachable:
                t = f.blocks[b]['term']
                if t['k'] == 'switch':
                    conds.append(expr_str(_strip(prov.operand(t['discr'], 0, '%d:T' % b))))
            pn = f.local_name(1)
            norm = lambda s: s.replace(pn, 'LEN')
            # values may sit behind a multi-def temp in one of the twins: expand
            flat = []
            for v in vals:
                flat.append(norm(v))
            return sorted(set(norm(c) for c in conds)), f
        def leaves(f):
            prov = Prov(f)
            out = set()
            from lzlint.intervals import _strip
            def walk(e, seen=frozenset()):
                e2 = e
                while e2[0] == 'cast':
                    e2 = e2[2]
                if e2[0] == 'local' and e2[1] not in seen:
                    for _, d in prov.def_exprs(e2[1]):
                        walk(d, seen | {e2[1]})
                else:
                    out.add(expr_str(_strip(e2)).replace(f.local_name(1), 'LEN'))
            for (bi, si, k, node) in f.whole_defs(0):
                if k == 'assign':
                    walk(prov.rvalue(node['rv'], 0, '%d:%d' % (bi, si)))
            return out
        c0, c1 = shape(hs[0])[0], shape(hs[1])[0]
        l0, l1 = leaves(hs[0]), leaves(hs[1])
        if c0 == c1 and l0 == l1:
            ctx.ok('dist-state-formula', hs[0].loc(0), '%s and %s compute the same function of len: if %s then one of %s' % (hs[0].name, hs[1].name, c0, sorted(l0)))
        else:
            ctx.violation('dist-state-formula', hs[0].loc(0), 'the encoder and decoder helpers that pick the distance-slot table from the match '
                          'length differ: %s: %s / %s vs %s: %s / %s' % (hs[0].name, c0, sorted(l0), hs[1].name, c1, sorted(l1)))
    else:
        ctx.info('dist-state-formula', '-', 'helper pair not identified (%d candidates)' % len(hs))


# --------------------------------------------------------------------------- RC-NORM-TWIN (C01, C14)

def _u32_eval(e, r):
    """Evaluate a predicate/expression over the single unknown `self.range` = r with u32 semantics. None if unknown."""
    M = 0xFFFFFFFF
    t = e[0]
    if t == 'const':
        return int(e[2]) & M if isinstance(e[2], (int, bool)) else None
    if t == 'field' and e[2] == 'range':
        return r
    if t == 'cast':
        return _u32_eval(e[2], r)
    if t == 'field' and e[1][0] == 'bin' and e[2] == '0':
        return _u32_eval(e[1], r)
    if t == 'un' and e[1] == 'Not':
        v = _u32_eval(e[2], r)
        if v is None:
            return None
        inner = e[2]
        is_bool = inner[0] == 'bin' and inner[1] in ('Eq', 'Ne', 'Lt', 'Le', 'Gt', 'Ge')
        return (0 if v else 1) if is_bool else (~v) & M
    if t == 'bin':
        a, b = _u32_eval(e[2], r), _u32_eval(e[3], r)
        if a is None or b is None:
            return None
        op = e[1].replace('WithOverflow', '').replace('Unchecked', '')
        table = {'Eq': lambda: int(a == b), 'Ne': lambda: int(a != b), 'Lt': lambda: int(a < b), 'Le': lambda: int(a <= b),
                 'Gt': lambda: int(a > b), 'Ge': lambda: int(a >= b), 'BitAnd': lambda: a & b, 'BitOr': lambda: a | b,
                 'BitXor': lambda: a ^ b, 'Shl': lambda: (a << b) & M if b < 32 else None, 'Shr': lambda: a >> b if b < 32 else None,
                 'Add': lambda: (a + b) & M, 'Sub': lambda: (a - b) & M}
        return table[op]() if op in table else None
    return None


def _norm_sites(F, adt):
    """[(fn, switch block, cond expr, polarity that leads to `range <<= k`, k)] in the methods of `adt`."""
    out = []
    for f in F.fns:
        if not (f.self_adt and last_seg(f.self_adt) == adt and f.kind != 'closure'):
            continue
        prov = Prov(f)
        shl = {}
        for bi, b in enumerate(f.blocks):
            if b['cleanup'] or bi not in f.reachable:
                continue
            for si, s in enumerate(b['stmts']):
                if s['k'] == 'assign' and s['lhs']['l'] == 1 and tuple(field_path(s['lhs']) or ()) == ('range',) and s['rv']['r'] == 'bin' and s['rv']['op'].startswith('Shl'):
                    k = op_const(s['rv']['b'])
                    shl[bi] = k.get('v') if k else None
        from lzlint.core import guards_of
        for B in sorted(shl):
            gs = [(sb, pol, cond) for sb, pol, cond in guards_of(f, B, prov)
                  if any(x[0] == 'field' and x[2] == 'range' for x in expr_walk(cond))]
            if gs:
                sb, pol, cond = max(gs, key=lambda g: g[0] if f.dominates(g[0], B) else -1)
                # innermost: the guard dominated by all the others
                for g in gs:
                    if all(f.dominates(h[0], g[0]) for h in gs):
                        sb, pol, cond = g
                out.append((f, sb, cond, pol, shl[B]))
    return out


@rule('RC-NORM-TWIN', ['C01', 'C14'], floor=4)
def rc_norm_twin(ctx):
    """Range encoder and range decoder renormalise (`range <<= 8`, one byte out / in) at the same moment, or they are out of
    step for the rest of the stream. The condition is written three ways in this crate: `range & TOP_MASK == 0` (encoder,
    two sites), `range < 0x0100_0000` (decoder), and `cmp range, top_value; jae skip` (x86-64 assembly of the direct-bit
    decoder). The predicates are read off the code (the branch whose one edge leads to the shift of `range`) and compared
    as functions of the one variable they read, on the critical points of both: every constant that occurs in either
    predicate, its neighbours, and all powers of two with their neighbours (a predicate built from comparisons and masks
    of one u32 against constants can only change its value there). The shift amounts have to agree too. An encoder that
    tests `range < 0x00FF_FFFF` differs at exactly one value (reached about once per 700 4-KiB inputs)."""
    import re
    F = ctx.facts
    enc = _norm_sites(F, 'RangeEncoder')
    dec = _norm_sites(F, 'RangeDecoder')
    if not enc or not dec:
        return ctx.anchor_missing('normalisation branches of RangeEncoder / RangeDecoder (a test of `range` guarding `range <<= k`)')
    pts = {0, 1, 0xFFFFFFFF}
    for k in range(33):
        for d in (-1, 0, 1):
            pts.add(((1 << k) + d) & 0xFFFFFFFF)
    for f, sb, cond, pol, k in enc + dec:
        for x in expr_walk(cond):
            if x[0] == 'const' and isinstance(x[2], int):
                for v in (x[2], (~x[2]) & 0xFFFFFFFF):
                    for d in (-1, 0, 1):
                        pts.add((v + d) & 0xFFFFFFFF)
    fd, sbd, condd, pold, kd = dec[0]

    def val(cond, pol, r):
        v = _u32_eval(cond, r)
        return None if v is None else bool(v) == pol

    for f, sb, cond, pol, k in enc + dec[1:]:
        key = '%s:normalises-like-%s' % (f.key, fd.key)
        diff = [r for r in sorted(pts) if val(cond, pol, r) != val(condd, pold, r) or val(cond, pol, r) is None]
        if diff:
            ctx.violation(key, f.loc(sb), 'this side renormalises for range = 0x%08X: %s, %s does: %s (condition %s vs %s): encoder and decoder shift at '
                          'different moments and every later symbol is decoded from the wrong code value' % (
                              diff[0], val(cond, pol, diff[0]), fd.key, val(condd, pold, diff[0]), expr_str(cond)[:60], expr_str(condd)[:60]))
        elif k != kd:
            ctx.violation(key, f.loc(sb), 'shift by %s where %s shifts by %s' % (k, fd.key, kd))
        else:
            ctx.ok(key, f.loc(sb), 'same predicate on %d critical points, shift %s' % (len(pts), k))
    # assembly twin(s): cmp <range>, <const>; j<cc> over the shifts
    for f in F.fns:
        for bi, b in enumerate(f.blocks):
            t = b['term']
            if t['k'] != 'asm':
                continue
            rng = [i for i, o in enumerate(t['operands']) if o.get('place') and tuple(field_path(o['place']) or ()) == ('range',)]
            if not rng:
                continue
            key = '%s:asm-normalises-like-%s' % (f.key, fd.key)
            lines = [l.strip() for l in t['template'].replace('\\n', '\n').split('\n') if l.strip() and not l.strip().startswith('//')]
            consts = {i: o for i, o in enumerate(t['operands']) if o.get('dir') == 'const' or 'const' in str(o.get('kind', ''))}
            found = None
            for i, l in enumerate(lines[:-1]):
                m = re.match(r'cmp\s+\{(\d+)(?::\w+)?\}\s*,\s*\{(\d+)\}', l)
                if m and int(m.group(1)) in rng:
                    found = (int(m.group(2)), lines[i + 1].split()[0], lines[i + 1])
                    break
            if not found:
                ctx.violation(key, f.loc(bi), 'cannot find `cmp {range}, {const}` in the assembly template (fail closed)')
                continue
            cop = t['operands'][found[0]]
            cval = cop.get('const', cop.get('value_const', cop.get('v')))
            if isinstance(cval, dict):
                cval = cval.get('v')
            # decoder predicate: normalise iff range < C. The asm jumps OVER the normalisation, so the jump must be taken iff range >= C.
            crit = [r for r in sorted(pts)]
            thr = [r for r in crit if val(condd, pold, r)]
            C = (max(thr) + 1) if thr else None
            skip_ok = found[1] in ('jae', 'jnb', 'jnc')
            if cval is None:
                # the operand is an inline `const` expression (an anonymous constant the extractor does not evaluate): the
                # comparison constant itself is not decided here, the direction of the jump is
                m2 = re.search(r'constant#\d+', str(cop.get('dbg', '')))
                if skip_ok and m2:
                    ctx.ok(key, f.loc(bi), '`cmp range, <const>; %s` skips the normalisation when range >= const (value of the inline const not decided)' % found[1])
                else:
                    ctx.violation(key, f.loc(bi), '`%s` after `cmp range, <const>`: the portable decoder normalises iff range < 0x%X, so the assembly has to '
                                  'skip the normalisation with jae/jnb (range >= const); as written the two paths differ for range == const' % (found[2], C or 0))
            elif skip_ok and cval == C:
                ctx.ok(key, f.loc(bi), '`cmp range, 0x%X; %s` skips the normalisation exactly when range >= 0x%X' % (cval, found[1], C))
            else:
                ctx.violation(key, f.loc(bi), '`cmp range, 0x%X; %s` skips the normalisation under a different condition than the portable decoder '
                              '(normalise iff range < 0x%X): the two paths decode different values for range == 0x%X' % (cval or 0, found[2], C or 0, C or 0))
