"""Structural rules on the LZ encoder window (C07 partition independence, C13 determinism).

The encoder only looks at positions below a *limit* field; bytes the match finder could not process yet are
counted in a *pending* field and re-processed by one method (the pending processor). Both fields, the processor
and the look-ahead reserve are discovered from the shape of the code, not from names."""
from lzlint.core import *
from lzlint.framework import rule


def _strip(e):
    while e[0] == 'cast' or (e[0] == 'field' and e[1][0] == 'bin' and e[2] == '0'):
        e = e[2] if e[0] == 'cast' else e[1]
    return e


def _self_field(e):
    e = _strip(e)
    sf = self_field_of(e)
    if sf and len(sf) == 1:
        return sf[0]
    return None


def _self_stores(f, prov):
    for bi, b in enumerate(f.blocks):
        if b['cleanup']:
            continue
        for si, s in enumerate(b['stmts']):
            if s['k'] == 'assign' and s['lhs']['l'] == 1 and s['lhs']['p']:
                fp = field_path(s['lhs'])
                if fp and len(fp) == 1:
                    yield bi, si, fp[0], prov.rvalue(s['rv'], 0, '%d:%d' % (bi, si))


def find_window(F):
    """-> list of dict(adt, proc, pos, pending, limit): proc stores pending := 0 and pos := pos - pending under
    a guard pos < limit."""
    out = []
    for f in F.fns:
        if not f.self_adt or f.kind == 'closure':
            continue
        prov = Prov(f)
        stores = list(_self_stores(f, prov))
        zeroed = {fld for _, _, fld, e in stores if e[0] == 'const' and e[2] == 0}
        for bi, si, fld, e in stores:
            e = _strip(e)
            if e[0] == 'bin' and e[1].startswith('Sub') and _self_field(e[2]) == fld and _self_field(e[3]) in zeroed:
                pending = _self_field(e[3])
                limit = None
                for g in guards_of(f, bi, prov):
                    c = norm_cmp(g[2], g[1])
                    if c and c[0] == 'Lt':
                        a, b = c[1], c[2]
                        if _self_field(a) == fld and _self_field(b):
                            limit = _self_field(b)
                if limit:
                    out.append(dict(adt=f.self_adt, proc=f, pos=fld, pending=pending, limit=limit))
    return out


def _mentions_field(e, name):
    return any(x[0] == 'field' and x[2] == name and self_field_of(x) == (name,) for x in expr_walk(e))


@rule('PENDING-PAIR', ['C07', 'C13'], floor=3)
def pending_pair(ctx):
    """Every method that moves the encoder's read limit to a new absolute value (more input arrived, flush,
    finish) re-processes the pending bytes on every path to its return: otherwise bytes the match finder
    skipped while input was short stay unhashed, and what the encoder emits depends on how the caller split
    its writes."""
    F = ctx.facts
    wins = find_window(F)
    if len(wins) != 1:
        ctx.anchor_missing('LZ encoder window with a pending-bytes processor (found %d)' % len(wins))
        return
    w = wins[0]
    proc = w['proc']
    ctx.info('anchors', proc.loc(0), 'window=%s limit=%s pending=%s pos=%s processor=%s' % (
        last_seg(w['adt']), w['limit'], w['pending'], w['pos'], proc.key))
    for f in F.fns:
        if f.self_adt != w['adt'] or f.kind == 'closure' or f is proc:
            continue
        prov = Prov(f)
        for bi, si, fld, e in _self_stores(f, prov):
            if fld != w['limit'] or _mentions_field(e, w['limit']):
                continue  # a relative shift (window move) keeps pos < limit unchanged
            key = '%s:limit-store-then-pending' % f.key
            callblocks = set()
            for cb, t, c in f.calls():
                if proc in F.resolve_callee(c):
                    callblocks.add(cb)
            if bi in callblocks:
                ctx.ok(key, f.loc(bi, si), 'limit := %s; %s follows in the same block' % (expr_str(e)[:60], proc.name))
                continue
            reach = f.reach_from(f.succs(bi), stop=callblocks)
            rets = [r for r in f.return_blocks() if r in reach or r == bi]
            if rets:
                ctx.violation(key, f.loc(bi, si),
                              'the read limit is set to %s but a path reaches the return without calling %s: bytes counted '
                              'in `%s` stay unprocessed, so the match finder state (and the output) depends on where the '
                              'caller\'s writes were cut' % (expr_str(e)[:60], proc.key, w['pending']))
            else:
                ctx.ok(key, f.loc(bi, si), 'limit := %s; every path to return calls %s' % (expr_str(e)[:60], proc.name))


@rule('LOOKAHEAD-TWIN', ['C13', 'C07'], floor=3)
def lookahead_twin(ctx):
    """The look-ahead reserve is one quantity: the field R subtracted from the write position when more input
    arrives (limit := write_pos - R, guarded by write_pos >= R) is the same field that triggers the window
    move (pos >= buf_size - R) in the same method, and its constructor value is the sum the buffer-size
    formula reserves after the dictionary. A smaller reserve in one place lets the encoder run into positions
    whose matches are cut short by the end of the *current* input: output depends on the write partition."""
    F = ctx.facts
    wins = find_window(F)
    if len(wins) != 1:
        ctx.anchor_missing('LZ encoder window (found %d)' % len(wins))
        return
    w = wins[0]
    n = 0
    for f in F.fns:
        if f.self_adt != w['adt'] or f.kind == 'closure':
            continue
        prov = Prov(f)
        for bi, si, fld, e in _self_stores(f, prov):
            if fld != w['limit'] or _mentions_field(e, w['limit']):
                continue
            s = _strip(e)
            if not (s[0] == 'bin' and s[1].startswith('Sub')):
                continue
            R = _self_field(s[3])
            base = _self_field(s[2])
            if R is None:
                continue  # constant subtrahend (flush / finish: everything but the last byte)
            n += 1
            key = '%s:reserve' % f.key
            # (1) guard: base >= R
            gok = False
            for g in guards_of(f, bi, prov):
                c = norm_cmp(g[2], g[1])
                if c and c[0] == 'Le':
                    b, a = c[1], c[2]
                    if _self_field(a) == base and _self_field(b) == R:
                        gok = True
            if gok:
                ctx.ok(key + ':guard', f.loc(bi, si), 'limit := %s - %s under %s >= %s' % (base, R, base, R))
            else:
                ctx.violation(key + ':guard', f.loc(bi, si), 'limit := %s - %s is not guarded by %s >= %s (the same reserve)' % (base, R, base, R))
            # (2) the window-move trigger in the same method mentions R
            trig = []
            for cb, t, c in f.calls():
                rs = F.resolve_callee(c)
                r = rs[0] if len(rs) == 1 else None
                if r is not None and r.self_adt == w['adt'] and r is not w['proc']:
                    rp = Prov(r)
                    shifts = [x for x in _self_stores(r, rp) if x[2] == w['limit'] and _mentions_field(x[3], w['limit'])]
                    if shifts:
                        for g in guards_of(f, cb, prov):
                            trig.append((cb, g[2]))
            if not trig:
                ctx.violation(key + ':move-trigger', f.loc(bi, si), 'no guarded window move found in %s' % f.key)
            else:
                cb, cond = trig[-1]
                fields = {x[2] for x in expr_walk(cond) if x[0] == 'field' and self_field_of(x) == (x[2],)}
                if R in fields:
                    ctx.ok(key + ':move-trigger', f.loc(cb), 'window move trigger %s uses the same reserve %s' % (expr_str(cond)[:80], R))
                else:
                    ctx.violation(key + ':move-trigger', f.loc(cb),
                                  'the window is moved when %s but the read limit keeps `%s` bytes of look-ahead: the two sites '
                                  'disagree about the reserve' % (expr_str(cond)[:90], R))
            # (3) constructor value of R = Add(p, q) and the buffer size formula adds the same two parameters
            ctors = [g for g in F.fns if g.kind != 'closure' and any(
                s2['k'] == 'assign' and s2['rv']['r'] == 'agg' and s2['rv'].get('adt') == w['adt']
                for b2 in g.blocks if not b2['cleanup'] for s2 in b2['stmts'])]
            okc = False
            detail = 'no constructor found'
            for g in ctors:
                gp = Prov(g)
                adt = F.adts.get(w['adt'])
                for b2i, b2 in enumerate(g.blocks):
                    for s2i, s2 in enumerate(b2['stmts']):
                        if s2['k'] == 'assign' and s2['rv']['r'] == 'agg' and s2['rv'].get('adt') == w['adt']:
                            names = [fl['name'] for fl in adt['variants'][0]['fields']] if adt else []
                            if R not in names:
                                continue
                            v = _strip(gp.operand(s2['rv']['ops'][names.index(R)], 0, '%d:%d' % (b2i, s2i)))
                            if not (v[0] == 'bin' and v[1].startswith('Add')):
                                detail = '%s initialised with %s' % (R, expr_str(v)[:60])
                                continue
                            ps = sorted(x[1] for x in (_strip(v[2]), _strip(v[3])) if x[0] == 'param')
                            if len(ps) != 2:
                                detail = '%s initialised with %s' % (R, expr_str(v)[:60])
                                continue
                            # buffer size helper: a callee given both parameters whose body adds exactly those two
                            for cb, t, c in g.calls():
                                rs = F.resolve_callee(c)
                                r = rs[0] if len(rs) == 1 else None
                                if r is None or r.self_adt:
                                    continue
                                pos = {}
                                for ai, a in enumerate(t['args']):
                                    x = _strip(gp.operand(a, 0, '%d:T' % cb))
                                    if x[0] == 'param':
                                        pos[x[1]] = ai + 1
                                if not all(p in pos for p in ps):
                                    continue
                                want = sorted(pos[p] for p in ps)
                                rp = Prov(r)
                                for b3i, b3 in enumerate(r.blocks):
                                    for s3i, s3 in enumerate(b3['stmts']):
                                        if s3['k'] == 'assign' and s3['rv']['r'] == 'bin' and s3['rv']['op'].startswith('Add'):
                                            y = rp.rvalue(s3['rv'], 0, '%d:%d' % (b3i, s3i))
                                            qs = sorted(z[1] for z in (_strip(y[2]), _strip(y[3])) if z[0] == 'param')
                                            if qs == want:
                                                okc = True
                                                detail = '%s := %s in %s; %s reserves the same sum' % (R, expr_str(v)[:50], g.key, r.key)
                            if not okc and detail == 'no constructor found':
                                detail = '%s := %s but no buffer-size helper adds the same two parameters' % (R, expr_str(v)[:50])
            if okc:
                ctx.ok(key + ':ctor', f.loc(bi, si), detail)
            else:
                ctx.violation(key + ':ctor', f.loc(bi, si), 'look-ahead reserve and buffer size formula disagree: ' + detail)
    if n == 0:
        ctx.anchor_missing('limit := write_pos - <reserve field> store')


# --------------------------------------------------------------------------- FINDER-LOOKAHEAD

@rule('FINDER-LOOKAHEAD', ['C01', 'C07'], floor=2)
def finder_lookahead(ctx):
    """A match finder may insert a position only when the look-ahead its insertion routine compares is there
    (unless the encoder is flushing/finishing): `LZEncoderData::move_pos(required_for_flushing, ..)` holds positions
    back (pending) until that many bytes are available. The two sides must agree: a finder whose insert-only path
    (`skip`) walks a structure ordered by up to `nice_len` bytes (it reads `encoder.nice_len`: the binary tree)
    has to require `nice_len` bytes, otherwise nodes enter the tree compared over a truncated length and the
    ordering the later searches rely on is broken; a finder that only hashes (hash chains) needs its hash width,
    a constant >= 4."""
    F = ctx.facts
    n = 0
    for f in F.fns:
        if not (f.self_adt and f.name == 'move_pos' and f.kind != 'closure'):
            continue
        calls = [(bi, t, c) for bi, t, c in f.calls() if c.name == 'move_pos' and 'LZEncoderData' in c.path]
        if not calls:
            continue
        n += 1
        adt = f.self_adt
        key = '%s:requires-the-look-ahead-its-insertion-compares' % f.key
        prov = Prov(f)
        bi, t, c = calls[0]
        a = prov.operand(t['args'][1], 0, '%d:T' % bi)
        a_nice = any(x[0] == 'field' and x[2] == 'nice_len' for x in expr_walk(a))
        a_const = a[2] if a[0] == 'const' and isinstance(a[2], int) else None
        while a_const is None and a[0] == 'cast':
            a = a[-1]
            a_const = a[2] if a[0] == 'const' and isinstance(a[2], int) else None
        skips = [g for g in F.fns if g.self_adt == adt and g.name == 'skip']
        if not skips:
            ctx.violation(key, f.loc(bi), 'cannot find the finder\'s insert-only routine `skip` (anchor lost, fail closed)')
            continue
        uses_nice = False
        for g in skips:
            for b in g.reachable:
                for s in g.blocks[b]['stmts']:
                    if s['k'] == 'assign' and s['rv']['r'] == 'use':
                        p = op_place(s['rv']['o'])
                        if p is not None and any(isinstance(x, dict) and x.get('n') == 'nice_len' for x in p['p']):
                            uses_nice = True
        if uses_nice:
            if a_nice:
                ctx.ok(key, f.loc(bi), 'insertion compares up to nice_len bytes and move_pos requires %s' % expr_str(a)[:60])
            else:
                ctx.violation(key, f.loc(bi), 'the insert-only path of %s compares up to `nice_len` bytes, but move_pos lets a position through with %s bytes of '
                              'look-ahead while the encoder is not finishing: nodes enter the search structure compared over a truncated length '
                              '(after a flush in the middle of the data the tree order later searches rely on is broken)' % (last_seg(adt), expr_str(a)[:40]))
        else:
            if a_const is not None and a_const >= 4 or a_nice:
                ctx.ok(key, f.loc(bi), 'insertion only hashes; move_pos requires %s bytes (hash width 4)' % expr_str(a)[:40])
            else:
                ctx.violation(key, f.loc(bi), 'move_pos requires %s bytes of look-ahead, less than the 4 bytes the hash needs' % expr_str(a)[:40])
    if not n:
        ctx.anchor_missing('match finder move_pos wrappers')


# --------------------------------------------------------------------------- PENDING-RESET-ORDER

@rule('PENDING-RESET-ORDER', ['C01', 'C07'], floor=1)
def pending_reset_order(ctx):
    """The pending counter is shared with the match finder: when the processor replays the pending positions
    (`match_finder.skip(self, n)`), the finder may have to put some of them back (it increments the counter again
    through `move_pos` when the look-ahead is still too short). The processor must therefore clear the counter
    BEFORE it hands `self` to the finder; an absolute store to the counter that can execute after that call throws
    the re-added positions away, the finder's position lags behind the encoder's and matches are reported for the
    wrong bytes (undecodable output after write / flush / tiny write / flush)."""
    F = ctx.facts
    wins = find_window(F)
    if len(wins) != 1:
        ctx.anchor_missing('LZ encoder window with a pending-bytes processor (found %d)' % len(wins))
        return
    w = wins[0]
    f = w['proc']
    prov = Prov(f)
    key = '%s:counter-cleared-before-the-replay' % f.key
    # calls that receive `self` (a reborrow of param 1) mutably: the replay
    replay = []
    for bi, t, c in f.calls():
        for a in t['args']:
            e = prov.operand(a, 0, '%d:T' % bi)
            x = e
            while x[0] in ('ref', 'deref', 'cast'):
                x = x[-1] if x[0] == 'cast' else x[1]
            if x[0] == 'param' and x[1] == 1 and c.name not in ('is_empty', 'len'):
                replay.append(bi)
                break
    if not replay:
        ctx.violation(key, f.loc(0), 'cannot find the call that replays the pending positions (anchor lost, fail closed)')
        return
    after = f.reach_from([f.blocks[b]['term']['target'] for b in replay if f.blocks[b]['term'].get('target') is not None])
    late = [(bi, si) for bi, si, fld, e in _self_stores(f, prov) if fld == w['pending'] and bi in after]
    if late:
        ctx.violation(key, f.loc(*late[0]), 'the counter `%s` is stored after the replay call: whatever the match finder put back (positions it could '
                      'not insert yet) is discarded, its position falls behind the encoder\'s read position' % w['pending'])
    else:
        ctx.ok(key, f.loc(replay[0]), '`%s` is cleared before the replay call and not stored afterwards' % w['pending'])


# --------------------------------------------------------------------------- FULL-TRACKS-POS

@rule('FULL-TRACKS-POS', ['C01', 'C02'], floor=3)
def full_tracks_pos(ctx):
    """The LZ decoder window keeps `full` = number of valid dictionary bytes; `repeat` rejects distances >= full.
    Every method that advances the write position therefore raises `full` to the new position before it returns:
    on each path from a store `pos := pos + n` to the return there is a comparison of `full` with `pos` that is
    evaluated AFTER the store (the `if self.full < self.pos { self.full = self.pos }` tail). If the comparison
    runs before the position moves, `full` lags behind by the last piece and a valid match reaching back to the
    start of the dictionary right after a stored chunk is rejected ("dist overflow")."""
    F = ctx.facts
    n = 0
    for f in F.fns:
        if not (f.self_adt and last_seg(f.self_adt) == 'LZDecoder' and f.kind != 'closure'):
            continue
        prov = Prov(f)
        adv = []
        for bi, si, fld, e in _self_stores(f, prov):
            if fld != 'pos':
                continue
            if e[0] == 'const':
                continue   # wrap to 0 / reset
            if _mentions_field(e, 'pos'):
                adv.append((bi, si))
        if not adv:
            continue
        n += 1
        key = '%s:full-raised-after-the-position-moved' % f.key
        # comparison blocks: switches whose condition reads both `full` and `pos`
        cmpb = set()
        for b in f.reachable:
            t = f.blocks[b]['term']
            if t['k'] != 'switch':
                continue
            c = prov.operand(t['discr'], 0, '%d:T' % b)
            if _mentions_field(c, 'full') and _mentions_field(c, 'pos'):
                cmpb.add(b)
        bad = None
        exc = None
        for bi, si in adv:
            # a comparison later in the same block counts only if its operands are loaded after the store: MIR loads the
            # operands in the block of the switch, so "same block" means the loads follow the store textually
            same = False
            if bi in cmpb:
                loads = [k for k, s in enumerate(f.blocks[bi]['stmts']) if s['k'] == 'assign' and s['rv']['r'] == 'use' and
                         (op_place(s['rv']['o']) or {}).get('l') == 1 and 'pos' in str(field_path(op_place(s['rv']['o'])))]
                same = any(k > si for k in loads)
            if same:
                continue
            free = f.reach_from(f.succs(bi), stop=cmpb)
            rets = [b for b in free if f.blocks[b]['term']['k'] == 'return']
            # the wrap-around branch of `repeat`: the distance reaches behind position 0, which can only happen when the
            # dictionary is full (full == buf_size, asserted there in debug builds), so `full` cannot lag. Recognised by its
            # guard `pos < dist + 1` on every such early return; the store itself must be under the same guard.
            def wrap_guarded(b):
                for sb, pol, cond in guards_of(f, b, prov):
                    nc = norm_cmp(cond, pol) if cond[0] in ('bin', 'un') else None
                    if nc and nc[0] == 'Lt' and _mentions_field(nc[1], 'pos') and any(x[0] == 'param' for x in expr_walk(nc[2])):
                        return True
                return False
            # early returns are assignments of _0 followed by gotos to the common return block: look at the blocks that
            # build the return value on the comparison-free paths
            early = [b for b in free for st in f.blocks[b]['stmts'] if st['k'] == 'assign' and st['lhs']['l'] == 0 and not st['lhs']['p']]
            if rets and early and all(wrap_guarded(b) for b in early) and wrap_guarded(bi):
                exc = (bi, si)
                continue
            if rets:
                bad = (bi, si)
                break
        if bad:
            ctx.violation(key, f.loc(*bad), 'the write position is advanced at %s and a path reaches the return without comparing `full` with the new '
                          'position: `full` lags behind, and a valid distance that reaches the start of what was just written is rejected' % f.loc(*bad))
        elif exc:
            ctx.exception(key, f.loc(*exc), '%d store(s) advancing pos; every path to the return compares full with pos afterwards, except the early '
                          'return of the wrap-around branch (guard pos < dist + 1: the distance reaches behind position 0, only possible when '
                          'the dictionary is full, so full == buf_size already; debug_assert in the source)' % len(adv))
        else:
            ctx.ok(key, f.loc(adv[0][0], adv[0][1]), '%d store(s) advancing pos; every path to the return compares full with pos afterwards' % len(adv))
    if not n:
        ctx.anchor_missing('LZDecoder methods that advance pos')


# --------------------------------------------------------------------------- LOOKAHEAD-HORIZON

@rule('LOOKAHEAD-HORIZON', ['C13', 'C07'], floor=2)
def lookahead_horizon(ctx):
    """The encoder may only look at bytes the window guarantees to be there; otherwise what it finds depends on how
    much the caller has written so far, and the compressed bytes depend on the write partition. The window keeps
    `EXTRA_SIZE_AFTER + MATCH_LEN_MAX` bytes of look-ahead. The optimal parser prices up to N positions ahead, N being
    the length of its `opts` array, and compares up to MATCH_LEN_MAX bytes at each: its EXTRA_SIZE_AFTER must be >= N.
    The fast mode compares up to MATCH_LEN_MAX bytes at the position after the current one: its reserve must be
    >= MATCH_LEN_MAX - 1. (Same constants as the reference implementation: OPTS and MATCH_LEN_MAX - 1.)"""
    F = ctx.facts
    def const(suffix):
        c = [v for p, v in F.consts.items() if p.endswith(suffix)]
        return c[0]['val'] if len(c) == 1 and isinstance(c[0]['val'], int) else None
    mlm = const('MATCH_LEN_MAX')
    if mlm is None:
        ctx.anchor_missing('constant MATCH_LEN_MAX')
        return
    # normal mode: length of the opts vector
    horizon = None
    where = '-'
    for f in F.fns:
        if f.self_adt and last_seg(f.self_adt) == 'NormalEncoderMode' and f.name == 'new':
            prov = Prov(f)
            for bi, t, c in f.calls():
                if c.name == 'from_elem' and len(t['args']) == 2 and 'Optimum' in (c.d.get('args') or [''])[0]:
                    e = prov.operand(t['args'][1], 0, '%d:T' % bi)
                    while e[0] == 'cast':
                        e = e[-1]
                    if e[0] == 'const' and isinstance(e[2], int):
                        horizon = e[2]
                        where = f.loc(bi)
    key = 'NormalEncoderMode:reserve-covers-the-parser-horizon'
    after = const('NormalEncoderMode::EXTRA_SIZE_AFTER')
    if horizon is None or after is None:
        ctx.violation(key, where, 'cannot determine the length of the optimal parser\'s opts array or EXTRA_SIZE_AFTER (anchor lost, fail closed)')
    elif after >= horizon:
        ctx.ok(key, where, 'opts has %d entries, EXTRA_SIZE_AFTER = %d' % (horizon, after))
    else:
        ctx.violation(key, where, 'the optimal parser prices up to %d positions ahead (length of opts) but the window only guarantees '
                      'EXTRA_SIZE_AFTER = %d (+ MATCH_LEN_MAX) bytes of look-ahead: match lengths near the end of the parse depend on how much '
                      'input has arrived, the output depends on the write partition' % (horizon, after))
    key = 'FastEncoderMode:reserve-covers-one-match'
    fa = const('FastEncoderMode::EXTRA_SIZE_AFTER')
    if fa is None:
        ctx.violation(key, '-', 'cannot find FastEncoderMode::EXTRA_SIZE_AFTER (anchor lost, fail closed)')
    elif fa >= mlm - 1:
        ctx.ok(key, '-', 'EXTRA_SIZE_AFTER = %d >= MATCH_LEN_MAX - 1 = %d' % (fa, mlm - 1))
    else:
        ctx.violation(key, '-', 'fast mode reserve %d is below MATCH_LEN_MAX - 1 = %d: the match at the next position can be cut short by the end of '
                      'the current input' % (fa, mlm - 1))


# --------------------------------------------------------------------------- MOVE-KEEPS-HISTORY

def _lin_eval(e, env):
    """Evaluate a provenance expression as an integer with fields valued by env(name); None if not linear/unknown."""
    if not isinstance(e, tuple):
        return None
    k = e[0]
    if k == 'const' and isinstance(e[2], int):
        return e[2]
    if k == 'cast':
        return _lin_eval(e[-1], env)
    if k == 'field':
        if isinstance(e[1], tuple) and e[1][0] == 'bin' and e[1][1].endswith('WithOverflow') and str(e[2]) == '0':
            return _lin_eval(('bin', e[1][1][:-len('WithOverflow')], e[1][2], e[1][3]), env)
        sf = self_field_of(e)
        if sf and len(sf) == 1:
            return env(sf[0])
        return None
    if k == 'bin':
        a, b = _lin_eval(e[2], env), _lin_eval(e[3], env)
        if a is None or b is None:
            return None
        op = e[1][:-len('WithOverflow')] if e[1].endswith('WithOverflow') else e[1]
        if op == 'Add': return a + b
        if op == 'Sub': return a - b
        return None
    return None


@rule('MOVE-KEEPS-HISTORY', ['C15', 'C01', 'C07'], floor=1)
def move_keeps_history(ctx):
    """When the LZ encoder window is moved, the bytes kept in front of the read position are the history matches may
    reach into: `extend_match` and the match finders read `buf[read_pos - dist ..]` without bounds checks (the
    non-local precondition of the unsafe helpers). The move offset must therefore be at most
    `read_pos + 1 - keep_size_before`; the code obtains it by masking that value with the alignment mask -2^k, which
    rounds DOWN. The rule checks the shape: move_offset = (read_pos + c - keep_size_before) & (-2^k) with c <= 1.
    Rounding up (c = ALIGN) keeps up to ALIGN - 1 bytes too few, and a match at near-maximal distance right after a
    move reads in front of the buffer."""
    F = ctx.facts
    fs = [f for f in F.fns if f.key == 'LZEncoderData::move_window']
    if not fs:
        ctx.anchor_missing('LZEncoderData::move_window')
        return
    f = fs[0]
    prov = Prov(f)
    key = '%s:offset-rounded-down-from-read_pos+1-keep_size_before' % f.key
    cands = []
    for b in sorted(f.reachable):
        for si, s in enumerate(f.blocks[b]['stmts']):
            if s['k'] == 'assign' and s['rv']['r'] == 'bin' and s['rv']['op'] == 'BitAnd':
                e = prov.rvalue(s['rv'], 0, '%d:%d' % (b, si))
                for x, m in ((e[2], e[3]), (e[3], e[2])):
                    if m[0] == 'const' and isinstance(m[2], int) and m[2] < 0 and (-m[2]) & (-m[2] - 1) == 0:
                        cands.append((b, si, x, m[2]))
    if not cands:
        ctx.violation(key, f.loc(0), 'cannot find `(..) & -2^k` (the aligned move offset): anchor lost (fail closed)')
        return
    b, si, x, mask = cands[0]
    def at(rp, kb, pd=0):
        return _lin_eval(x, lambda name: {'read_pos': rp, 'keep_size_before': kb, 'pending_size': pd}.get(name))
    c0, c_rp, c_kb, c_pd = at(0, 0), at(1, 0), at(0, 1), at(0, 0, 1)
    if None in (c0, c_rp, c_kb, c_pd):
        ctx.violation(key, f.loc(b, si), 'the masked expression %s is not linear in read_pos, keep_size_before and pending_size: not decided (fail closed)' % expr_str(x)[:80])
        return
    # pending positions are replayed from read_pos - pending_size: their history must survive the move too, so the pending
    # count has to be subtracted as well (coefficient -1); a positive coefficient would keep less
    if c_rp - c0 == 1 and c_kb - c0 == -1 and c0 <= 1 and c_pd - c0 == 0:
        ctx.violation(key, f.loc(b, si), 'move_offset = (read_pos %+d - keep_size_before) & %d ignores the pending positions: they are replayed later from '
                      'read_pos - pending_size, and after a flush shortly before the window is full the replayed positions have less than '
                      'keep_size_before bytes of history (the match finder follows a maximum-distance candidate in front of the buffer)' % (c0, mask))
    elif c_rp - c0 == 1 and c_kb - c0 == -1 and c0 <= 1 and c_pd - c0 == -1:
        ctx.ok(key, f.loc(b, si), 'move_offset = (read_pos %+d - pending_size - keep_size_before) & %d: rounded down, keep_size_before - 1 bytes stay in front of the first pending position' % (c0, mask))
    else:
        ctx.violation(key, f.loc(b, si), 'move_offset = (%d*read_pos %+d %+d*keep_size_before) & %d can exceed read_pos + 1 - keep_size_before: fewer than '
                      'keep_size_before bytes of history are kept, and the unchecked reads of extend_match / the match finders at distance close to the '
                      'dictionary size start in front of the buffer' % (c_rp - c0, c0, c_kb - c0, mask))


# --------------------------------------------------------------------------- DIST-WINDOW

@rule('DIST-WINDOW', ['C01'], floor=7)
def dist_window(ctx):
    """The match finders accept a candidate at distance `delta` positions back only if it is still inside the
    dictionary: delta < cyclic_size (= dict_size + 1), i.e. the coded distance delta - 1 is at most dict_size - 1,
    which is what every decoder accepts. All seven comparisons of a candidate distance with `cyclic_size` in HC4 and
    BT4 (two hash shortcuts and the chain / tree walk in each, plus BT4's skip) must agree on that: accepting side
    strictly below cyclic_size. `delta > cyclic_size` as the rejection test lets delta == cyclic_size through: a match
    one byte beyond the dictionary, which the reader rejects ("dist overflow")."""
    F = ctx.facts
    n = 0
    for f in F.fns:
        if not (f.self_adt and last_seg(f.self_adt) in ('HC4', 'BT4')) or f.kind == 'closure':
            continue
        prov = Prov(f)
        cnt = 0
        for b in sorted(f.reachable):
            t = f.blocks[b]['term']
            if t['k'] != 'switch' or switch_edges(f, b) is None:
                continue
            cond = prov.operand(t['discr'], 0, '%d:T' % b)
            nc = norm_cmp(cond, True) if cond[0] in ('bin', 'un') else None
            if not nc or nc[0] not in ('Lt', 'Le'):
                continue
            a, c2 = nc[1], nc[2]
            fa, fc = _self_field(_strip(a)), _self_field(_strip(c2))
            if (fa == 'cyclic_size') == (fc == 'cyclic_size'):
                continue
            other = c2 if fa == 'cyclic_size' else a
            if _self_field(_strip(other)) in ('cyclic_pos', 'lz_pos'):
                continue
            n += 1
            cnt += 1
            key = '%s:candidate-distance-strictly-below-cyclic_size%s' % (f.key, '' if cnt == 1 else '#%d' % cnt)
            # accept iff other < cyclic_size:  Lt(other, cyclic)  or  Le(cyclic, other) [= reject edge]
            good = (nc[0] == 'Lt' and fc == 'cyclic_size') or (nc[0] == 'Le' and fa == 'cyclic_size')
            if good:
                ctx.ok(key, f.loc(b), '%s %s %s' % (expr_str(a)[:40], nc[0], expr_str(c2)[:40]))
            else:
                ctx.violation(key, f.loc(b), 'compares a candidate distance with cyclic_size as `%s %s %s`: a candidate exactly cyclic_size positions '
                              'back (coded distance = dict_size, one beyond the dictionary) is accepted; every reader rejects that match'
                              % (expr_str(a)[:40], nc[0], expr_str(c2)[:40]))
    if not n:
        ctx.anchor_missing('comparisons of candidate distances with cyclic_size in the match finders')


# --------------------------------------------------------------------------- RESET-CONTEXT-BYTE

@rule('RESET-CONTEXT-BYTE', ['C01'], floor=1)
def reset_context_byte(ctx):
    """After a dictionary reset the first literal is coded with "previous byte = 0" (the encoder starts a fresh window).
    The decoder reads the previous byte with `get_byte(0)`, which at pos = 0 wraps to the cell `buf[buf_size - 1]`:
    `LZDecoder::reset` must store 0 into exactly the cell that `get_byte`'s wrap branch addresses for pos = 0, dist = 0.
    Otherwise the stale last byte of the old window selects the literal context after a mid-stream dictionary reset
    (independent LZMA2 chunks read by the single-threaded reader) and decoding diverges."""
    F = ctx.facts
    gb = [f for f in F.fns if f.key == 'LZDecoder::get_byte']
    rs = [f for f in F.fns if f.key == 'LZDecoder::reset']
    if not gb or not rs:
        ctx.anchor_missing('LZDecoder::get_byte / LZDecoder::reset')
        return
    key = 'LZDecoder::reset:cell-read-at-position-zero-is-cleared'
    g, r = gb[0], rs[0]
    pg, pr = Prov(g), Prov(r)
    def lin(e, extra):
        def env(name):
            return extra.get(name)
        return _lin_eval(e, env)
    # index expressions of get_byte: evaluate at pos = 0, dist = 0 with buf_size = S for two S to recover a*S + b
    wrap = None
    for b in sorted(g.reachable):
        for si, s in enumerate(g.blocks[b]['stmts']):
            if s['k'] == 'assign' and s['rv']['r'] == 'bin' and s['rv']['op'].startswith('Sub'):
                e = pg.rvalue(s['rv'], 0, '%d:%d' % (b, si))
                if any(x[0] == 'field' and x[2] == 'buf_size' for x in expr_walk(e)):
                    def ev(S, e=e):
                        def sub(x):
                            if isinstance(x, tuple) and x[0] == 'param' and x[1] >= 2:
                                return ('const', 'usize', 0)
                            if isinstance(x, tuple):
                                return tuple(sub(y) if isinstance(y, tuple) else ([sub(z) for z in y] if isinstance(y, list) else y) for y in x)
                            return x
                        return _lin_eval(sub(e), lambda nm: {'buf_size': S, 'pos': 0}.get(nm))
                    v1, v2 = ev(1000), ev(2000)
                    if v1 is not None and v2 is not None:
                        cand = ((v2 - v1) // 1000, v1 - ((v2 - v1) // 1000) * 1000)
                        # the complete index is the one with the smallest constant (buf_size + pos - dist, then - 1)
                        if wrap is None or cand[1] < wrap[1]:
                            wrap = cand
    if wrap is None:
        ctx.violation(key, g.loc(0), 'cannot find the wrap-around index of get_byte (buf_size + pos - dist - 1): anchor lost (fail closed)')
        return
    # stores buf[idx] = 0 in reset
    ok = None
    for bi, t, c in r.calls():
        if c.name == 'index_mut' and len(t['args']) == 2:
            idx = pr.operand(t['args'][1], 0, '%d:T' % bi)
            v1 = _lin_eval(idx, lambda nm: {'buf_size': 1000}.get(nm))
            v2 = _lin_eval(idx, lambda nm: {'buf_size': 2000}.get(nm))
            if v1 is None or v2 is None:
                continue
            a = (v2 - v1) // 1000
            if (a, v1 - a * 1000) == wrap:
                ok = bi
    if ok is not None:
        ctx.ok(key, r.loc(ok), 'get_byte(0) at pos 0 reads buf[%d*buf_size %+d]; reset stores into that cell' % wrap)
    else:
        ctx.violation(key, r.loc(0), 'get_byte(0) at pos 0 reads buf[%d*buf_size %+d] (the byte "before" the window), but reset does not store into that cell: '
                      'after a dictionary reset in the middle of a stream the stale last byte of the old window selects the first literal context' % wrap)


# --------------------------------------------------------------------------- MODE-RESERVE-FLOOR

@rule('MODE-RESERVE-FLOOR', ['C15', 'C01'], floor=2)
def mode_reserve_floor(ctx):
    """The history an encoder mode needs in front of the read position (EXTRA_SIZE_BEFORE: 1 byte for the fast mode, so
    that a match at the maximum distance still has its predecessor byte; the parse depth for the normal mode) is a
    minimum: `LZMAEncoder::new` receives the caller's extra size (what LZMA2 needs to re-read a chunk) and must hand
    the LZ encoder `max(caller's, mode's)` in each mode. Passing the caller's value alone keeps exactly dict_size bytes
    for the LZ formats whose extra size is 0: after a window move a repeat at the maximum distance makes
    `extend_match` start in front of the buffer."""
    F = ctx.facts
    fs = [f for f in F.fns if f.key == 'LZMAEncoder::new']
    if not fs:
        ctx.anchor_missing('LZMAEncoder::new')
        return
    f = fs[0]
    prov = Prov(f)
    def const(suffix):
        c = [v for p, v in F.consts.items() if p.endswith(suffix)]
        return c[0]['val'] if len(c) == 1 and isinstance(c[0]['val'], int) else None
    need = {'FastEncoderMode': const('FastEncoderMode::EXTRA_SIZE_BEFORE'), 'NormalEncoderMode': const('NormalEncoderMode::EXTRA_SIZE_BEFORE')}
    maxes = []
    for bi, t, c in f.calls():
        if c.name == 'max' and len(t['args']) == 2:
            ops = [prov.operand(a, 0, '%d:T' % bi) for a in t['args']]
            cs = [o[2] for o in ops if o[0] == 'const' and isinstance(o[2], int)]
            ps = [o for o in ops if any(x[0] == 'param' for x in expr_walk(o))]
            if cs and ps:
                maxes.append((bi, cs[0]))
    for mode, val in need.items():
        key = 'LZMAEncoder::new:%s-extra-size-before-is-a-minimum' % mode
        if val is None:
            ctx.violation(key, f.loc(0), 'cannot find %s::EXTRA_SIZE_BEFORE (anchor lost, fail closed)' % mode)
            continue
        hit = [bi for bi, cv in maxes if cv == val]
        if hit:
            ctx.ok(key, f.loc(hit[0]), 'extra_size_before.max(%d)' % val)
        else:
            ctx.violation(key, f.loc(0), 'the caller\'s extra_size_before is passed on without `max(.., %s::EXTRA_SIZE_BEFORE = %d)`: the LZ encoder keeps less '
                          'history than this mode reads (a maximum-distance repeat right after a window move starts in front of the buffer)' % (mode, val))


# --------------------------------------------------------------------------- DIST-BELOW-FULL / PENDING-PAIR-DEC (round 12)

def _lin(e, syms):
    """Linear form {sym: coef, 1: const} of e over the leaf names in `syms` (dict expr_str -> name); None if not linear."""
    e = _strip(e)
    if e[0] == 'const' and isinstance(e[2], int):
        return {1: e[2]}
    s = expr_str(e)
    if s in syms:
        return {syms[s]: 1}
    if e[0] == 'bin' and e[1].replace('WithOverflow', '') in ('Add', 'Sub'):
        a, b = _lin(e[2], syms), _lin(e[3], syms)
        if a is None or b is None:
            return None
        sg = 1 if e[1].startswith('Add') else -1
        out = dict(a)
        for k, v in b.items():
            out[k] = out.get(k, 0) + sg * v
        return out
    return None


@rule('DIST-BELOW-FULL', ['C06', 'C01'], floor=1)
def dist_below_full(ctx):
    """`LZDecoder::repeat(dist, len)` copies from `pos - dist - 1` (cyclically): the byte it starts from exists only if
    dist < full (full = number of valid dictionary bytes). The method that takes a distance parameter, returns a
    Result and computes `.. - dist - 1` must therefore reach that arithmetic only under a guard that implies
    dist - full <= -1, its other edge returning Err. `dist > full` as the rejecting test lets dist == full through:
    with an empty dictionary the first symbol can be a match (debug: assertion / subtraction overflow, release: a
    zero byte invented or a slice index of usize::MAX)."""
    F = ctx.facts
    n = 0
    for f in F.fns:
        if not (f.self_adt and last_seg(f.self_adt) == 'LZDecoder' and f.kind != 'closure'):
            continue
        if 'Result' not in str(f.d.get('output')):
            continue
        prov = Prov(f)
        dist = [i for i, dbg in enumerate(f.d.get('debug') or []) if dbg['name'] == 'dist' and not dbg['place']['p'] and dbg['place']['l'] <= f.arg_count]
        if not dist:
            continue
        # blocks that compute X - dist(-1): a Sub whose right operand derives from the parameter
        uses = []
        for bi, b in enumerate(f.blocks):
            if b['cleanup'] or bi not in f.reachable:
                continue
            for si, s in enumerate(b['stmts']):
                if s['k'] == 'assign' and s['rv']['r'] == 'bin' and s['rv']['op'].startswith('Sub'):
                    e = prov.rvalue(s['rv'], 0, '%d:%d' % (bi, si))
                    rhs = _strip(e[3])
                    if rhs[0] == 'param' and rhs[2] == 'dist' and any(_self_field(x) == 'pos' for x in expr_walk(e[2])):
                        uses.append(bi)
        if not uses:
            continue
        n += 1
        key = '%s:distance-strictly-below-full' % f.key
        bad = None
        for ub in sorted(set(uses)):
            ok = False
            for sb, pol, cond in guards_of(f, ub, prov):
                nc = norm_cmp(cond, pol) if cond[0] in ('bin', 'un') else None
                if not nc or nc[0] not in ('Lt', 'Le'):
                    continue
                syms = {}
                for x in expr_walk(nc[1]) + expr_walk(nc[2]) if isinstance(expr_walk(nc[1]), list) else list(expr_walk(nc[1])) + list(expr_walk(nc[2])):
                    xs = _strip(x)
                    if xs[0] == 'param' and xs[2] == 'dist':
                        syms[expr_str(xs)] = 'dist'
                    elif _self_field(xs) == 'full':
                        syms[expr_str(xs)] = 'full'
                la, lb = _lin(nc[1], syms), _lin(nc[2], syms)
                if la is None or lb is None:
                    continue
                d = dict(la)
                for k, v in lb.items():
                    d[k] = d.get(k, 0) - v
                # a - b < 0  (Lt)  => a - b <= -1 ;  a - b <= 0 (Le)
                bound = -1 if nc[0] == 'Lt' else 0
                c = d.get(1, 0)
                if d.get('dist', 0) == 1 and d.get('full', 0) == -1 and set(d) <= {'dist', 'full', 1} and bound - c <= -1:
                    ok = True
            if not ok:
                bad = ub
                break
        if bad is None:
            ctx.ok(key, f.loc(uses[0]), 'every `pos - dist - 1` is reached only under dist < full')
        else:
            ctx.violation(key, f.loc(bad), 'the copy source `.. - dist - 1` is computed without a dominating guard that implies dist < full '
                          '(the number of valid dictionary bytes): dist == full reads a byte that was never written (empty dictionary: '
                          'assertion / subtraction overflow in debug, invented zero byte or slice index usize::MAX in release)')
    if n == 0:
        ctx.anchor_missing('LZDecoder method with a `dist` parameter that computes pos - dist')


@rule('PENDING-PAIR-DEC', ['C07', 'C01'], floor=1)
def pending_pair_dec(ctx):
    """A match that does not fit below the output limit is remembered as (pending_len, pending_dist) and resumed by the
    next read. The two fields are one record: a method of the LZ decoder that stores the remaining length must have
    stored the distance of the same match on every path to its return (before or after, but on all of them) -
    otherwise an early return (the copy that wraps the end of the cyclic buffer returns early when the limit is
    reached inside it) leaves the distance of an OLDER match next to the new length, and the resumed copy takes
    its bytes from the wrong place. Discovered: the pair = the two usize fields of LZDecoder that the resuming
    method passes to the copy method."""
    F = ctx.facts
    ms = [f for f in F.fns if f.self_adt and last_seg(f.self_adt) == 'LZDecoder' and f.kind != 'closure']
    pair = None
    for f in ms:
        prov = Prov(f)
        for bi, t, c in f.calls():
            g = [x for x in F.resolve_callee(c) if x.self_adt == f.self_adt]
            if not g or len(t['args']) != 3:
                continue
            a = [_self_field(prov.operand(x, 0, '%d:T' % bi)) for x in t['args'][1:]]
            if all(a) and a[0] != a[1]:
                pair = (a[0], a[1], g[0], f)     # (dist field, len field, copy method, resumer)
    if pair is None:
        return ctx.anchor_missing('LZDecoder method that resumes a pending match (passes two of its own fields to the copy method)')
    dfield, lfield, copy, resumer = pair
    n = 0
    for f in ms:
        prov = Prov(f)
        stores = list(_self_stores(f, prov))
        lst = [(bi, si) for bi, si, fld, e in stores if fld == lfield and not (e[0] == 'const')]
        if not lst:
            continue
        n += 1
        key = '%s:%s-and-%s-stored-together' % (f.key, lfield, dfield)
        dst = {bi for bi, si, fld, e in stores if fld == dfield}
        bad = None
        for bi, si in lst:
            # every return reachable from the length store must be cut off by a distance store, unless one dominates the length store
            if any(f.dominates(db, bi) for db in dst):
                continue
            free = f.reach_from([bi], stop=dst) if bi not in dst else set()
            rets = [b for b in free if f.blocks[b]['term']['k'] == 'return']
            if rets:
                bad = (bi, rets[0])
                break
        if bad is None:
            ctx.ok(key, f.loc(lst[0][0]), 'the distance is stored on every path on which the remaining length is stored')
        else:
            ctx.violation(key, f.loc(bad[0]), 'a path stores the remaining length of a match in `%s` and returns (%s) without storing its '
                          'distance in `%s`: the resumed copy (%s) uses the distance of an earlier match' % (
                              lfield, f.loc(bad[1]), dfield, resumer.key))
    if n == 0:
        ctx.anchor_missing('a method storing a non-constant value into LZDecoder.%s' % lfield)
