"""C15: UNSAFE-CONFINE, UNSAFE-GUARD, GUARD-FIELD-WRITERS, ASM-CLAMP.  C14: NORM-NONNEG."""
import re

from lzlint.framework import rule
from lzlint.core import (Prov, Callee, callee_of, strip_generics, last_seg, expr_walk, expr_str, op_local, op_place,
                         const_val, guards_of, norm_cmp, switch_edges)

UNSAFE_FILES = ('src/lz/mod.rs', 'src/lz/lz_encoder.rs', 'src/lz/aligned_memory.rs', 'src/range_dec.rs')
DERIVE_UNSAFE_TRAITS = ('TrivialClone',)


def _is_box_deref(fn, p):
    """Compiler-generated Box deref: raw pointer local defined by transmuting Box internals."""
    l = p['l']
    for (bi, si, k, node) in fn.whole_defs(l):
        if k == 'assign' and node['rv']['r'] == 'cast' and 'Transmute' in node['rv']['kind']:
            op = op_place(node['rv']['o'])
            if op is not None and 'Box<' in fn.local_ty(op['l']):
                return True
    return False


def unsafe_ops(fn):
    """[(bb, kind, detail)] of unsafe operations written in the source of fn."""
    out = []
    for bi, b in enumerate(fn.blocks):
        if b['cleanup']:
            continue
        t = b['term']
        if t['k'] == 'asm':
            out.append((bi, 'asm', 'inline assembly'))
        if t['k'] in ('call', 'tailcall'):
            c = callee_of(t)
            if c and c.get('unsafe') and not t.get('exp'):
                out.append((bi, 'call', strip_generics(c['path'])))
        def chk(p):
            if p['p'] and p['p'][0] == '*' and fn.local_ty(p['l']).startswith('*') and not _is_box_deref(fn, p):
                out.append((bi, 'rawderef', fn.local_name(p['l'])))
        for s in b['stmts']:
            if s['k'] != 'assign':
                continue
            chk(s['lhs'])
            rv = s['rv']
            for key in ('o', 'a', 'b'):
                if key in rv:
                    p = op_place(rv[key])
                    if p:
                        chk(p)
            if 'p' in rv and isinstance(rv['p'], dict):
                chk(rv['p'])
            if rv['r'] == 'agg':
                for o in rv['ops']:
                    p = op_place(o)
                    if p:
                        chk(p)
    return out


@rule('UNSAFE-CONFINE', ['C15'], configs=('def', 'nostd'), floor={'def': 11, 'nostd': 1},
      thorough_configs=('nostd-opt', 'std-noopt'))
def unsafe_confine(ctx):
    """Unsafe operations (calls of unsafe fns, raw-pointer derefs, inline asm, unsafe impls) occur
    only in the four modules that own the fast paths; with neither `optimization` nor `std` the
    crate contains none."""
    F = ctx.facts
    total = 0
    nfun = 0
    for f in F.fns:
        ops = unsafe_ops(f)
        if f.d.get('unsafe'):
            ops.append((0, 'unsafe-fn', 'declared unsafe'))
        if not ops:
            continue
        nfun += 1
        total += len(ops)
        kinds = sorted({'%s:%s' % (k, last_seg(d)) for _, k, d in ops})
        key = '%s:unsafe' % (f.key if f.kind != 'closure' else f.npath)
        if ctx.config == 'nostd':
            ctx.violation(key, f.loc(ops[0][0]), 'unsafe operation in the no_std/no-optimization build (README: 100%% '
                          'safe): %s' % kinds)
        elif f.file in UNSAFE_FILES:
            ctx.ok(key, f.loc(ops[0][0]), '%d unsafe ops inside an owning module: %s' % (len(ops), ', '.join(kinds)[:120]))
        else:
            ctx.violation(key, f.loc(ops[0][0]), 'unsafe operation outside the modules that own the unsafe fast paths '
                          '(%s): %s' % (', '.join(UNSAFE_FILES), kinds))
    for i in F.impls:
        if not i['unsafe'] or last_seg(i['trait']) in DERIVE_UNSAFE_TRAITS:
            continue
        file = i['span'].split(':')[0]
        key = 'unsafe-impl:%s for %s' % (last_seg(i['trait']), last_seg(i['self_ty']))
        if ctx.config != 'nostd' and file in UNSAFE_FILES:
            ctx.ok(key, i['span'], 'unsafe impl inside an owning module', nontrivial=False)
        else:
            ctx.violation(key, i['span'], 'unsafe impl outside the owning modules')
    if ctx.config == 'nostd':
        ctx.ok('nostd:zero-unsafe', '-', '%d functions analysed, %d with unsafe operations' % (len(F.fns), nfun))
    else:
        ctx.note('UNSAFE-CONFINE[%s]: %d unsafe ops in %d functions' % (ctx.config, total, nfun))


def _calls_named(e, *suffixes):
    return [x for x in expr_walk(e) if x[0] == 'call' and x[1].endswith(suffixes)]


def _same(a, b):
    return expr_str(a) == expr_str(b)


@rule('UNSAFE-GUARD', ['C15'], configs=('def',), floor=7, thorough_configs=('nostd-opt',))
def unsafe_guard(ctx):
    """One bounds obligation per unsafe memory access, decided on provenance: unchecked slices are
    clamped by `min(_, len.saturating_sub(start))`, pointer offsets by `min(_, bound field)`, the
    word/byte loop reads sit under their `extended_len (+ W) <= / < len` guards with
    `len = min(s1.len(), s2.len())`, from_raw_parts lengths come from the allocation's own layout."""
    F = ctx.facts
    n = 0
    for f in F.fns:
        prov = None
        cnt = {}
        for bi, t, c in f.calls():
            if t.get('exp'):
                continue
            nm = c.npath
            if not c.d.get('unsafe'):
                continue
            prov = prov or Prov(f)
            base = (f.key if f.kind != 'closure' else f.npath)
            def mk(kind):
                cnt[kind] = cnt.get(kind, 0) + 1
                return '%s:%s%s' % (base, kind, '' if cnt[kind] == 1 else '#%d' % cnt[kind])
            if nm.endswith('get_unchecked') or nm.endswith('get_unchecked_mut'):
                n += 1
                key = mk('get_unchecked')
                sl = prov.operand(t['args'][0])
                rng = prov.operand(t['args'][1])
                ok = False
                why = 'range is not `s .. s + min(_, slice.len().saturating_sub(S))` with s <= S'
                if rng[0] == 'agg' and len(rng[2]) == 2:
                    start, end = rng[2]
                    # end = start + ext
                    adds = [x for x in expr_walk(end) if x[0] == 'bin' and x[1].startswith('Add')]
                    if adds:
                        a = adds[0]
                        ext = a[3] if _same(a[2], start) else (a[2] if _same(a[3], start) else None)
                        if ext is not None:
                            top = ext
                            while top[0] == 'cast':
                                top = top[2]
                            tops = [top] if (top[0] == 'call' and top[1].endswith(('Ord::min', 'cmp::min', '::min'))) else []
                            for m in tops:
                                for arg in m[2]:
                                    for ss in _calls_named(arg, 'saturating_sub'):
                                        ln, S = ss[2][0], ss[2][1]
                                        islen = (ln[0] == 'len' or (ln[0] == 'call' and ln[1].endswith('::len'))) and \
                                            _same(ln[1] if ln[0] == 'len' else ln[2][0], sl)
                                        # start is S or S - k
                                        le = _same(start, S) or any(
                                            x[0] == 'bin' and x[1].startswith('Sub') and _same(x[2] if x[2][0] != 'field' else x[2], S)
                                            for x in expr_walk(start)) or \
                                            any(_same(x, S) for x in expr_walk(start) if x[0] in ('bin', 'field', 'cast'))
                                        if islen and le:
                                            ok = True
                if ok:
                    ctx.ok(key, f.loc(bi), 'end = start + min(_, len.saturating_sub(S)), start <= S')
                else:
                    ctx.violation(key, f.loc(bi), 'unchecked slice not provably in bounds: %s; range = %s' % (why, expr_str(rng)[:90]))
            elif nm.endswith('ptr::read_unaligned') or nm.endswith('const_ptr::read_unaligned') or nm.endswith('ptr::read'):
                n += 1
                key = mk('read_unaligned')
                p = prov.operand(t['args'][0])
                adds = _calls_named(p, 'const_ptr::add', 'mut_ptr::add', 'ptr::add')
                if adds:
                    off = adds[0][2][1]
                    mins = _calls_named(off, 'Ord::min', 'cmp::min', '::min')
                    bound = None
                    for m in mins:
                        for arg in m[2]:
                            if arg[0] in ('field', 'deref'):
                                bound = arg
                    if bound is not None:
                        ctx.ok(key, f.loc(bi), 'offset = min(_, %s)' % expr_str(bound))
                        ctx._bound_fields = getattr(ctx, '_bound_fields', set()) | {expr_str(bound)}
                    else:
                        ctx.violation(key, f.loc(bi), 'pointer offset %s is not clamped by a `min(_, bound)`' % expr_str(off)[:70])
                else:
                    # loop-carried pointer: must sit under the loop guard
                    good = False
                    for s, pol, cond in guards_of(f, bi, prov):
                        nc = norm_cmp(cond, pol) if cond[0] in ('bin', 'un') else None
                        if nc and nc[0] in ('Le', 'Lt'):
                            lens = _calls_named(nc[2], 'Ord::min', '::min')
                            lhs_add = any(x[0] == 'bin' and x[1].startswith('Add') for x in expr_walk(nc[1]))
                            if (nc[0] == 'Le' and lhs_add) and _len_is_min_of_params(f, prov, nc[2]):
                                good = True
                    if good:
                        ctx.ok(key, f.loc(bi), 'word read under `extended + W <= len`, len = min(s1.len(), s2.len())')
                    else:
                        ctx.violation(key, f.loc(bi), 'raw word read not dominated by `pos + W <= min(len1, len2)`')
            elif nm.endswith('from_raw_parts') or nm.endswith('from_raw_parts_mut'):
                n += 1
                key = mk('from_raw_parts')
                ln = prov.operand(t['args'][1])
                if ln[0] in ('field', 'deref') and f.self_adt:
                    ok, why = _len_field_from_layout(F, f, ln)
                    if ok:
                        ctx.ok(key, f.loc(bi), why)
                    else:
                        ctx.violation(key, f.loc(bi), why)
                else:
                    ctx.violation(key, f.loc(bi), 'slice length %s is not the length field fixed by the allocator' % expr_str(ln)[:60])
            elif nm.endswith('alloc::dealloc'):
                n += 1
                key = mk('dealloc')
                lay = prov.operand(t['args'][1])
                if lay[0] in ('field', 'deref'):
                    ctx.ok(key, f.loc(bi), 'dealloc with the stored layout %s' % expr_str(lay))
                else:
                    ctx.violation(key, f.loc(bi), 'dealloc layout is not the stored allocation layout')
        # raw derefs under their guards
        for bi, kind, d in unsafe_ops(f):
            if kind != 'rawderef':
                continue
            prov = prov or Prov(f)
            n += 1
            key = '%s:rawderef:%s' % (f.key if f.kind != 'closure' else f.npath, d)
            if any(i['key'] == key for i in ctx.instances):
                continue
            good = False
            for s, pol, cond in guards_of(f, bi, prov):
                nc = norm_cmp(cond, pol) if cond[0] in ('bin', 'un') else None
                if nc and nc[0] == 'Lt' and _len_is_min_of_params(f, prov, nc[2]):
                    good = True
            if good:
                ctx.ok(key, f.loc(bi), 'byte deref under `extended_len < len`')
            else:
                ctx.violation(key, f.loc(bi), 'raw pointer deref not dominated by `pos < min(len1, len2)`')
    if n == 0:
        ctx.anchor_missing('unsafe memory access sites')


def _len_is_min_of_params(f, prov, e):
    for (alt, _) in prov.expand(e):
        for m in _calls_named(alt, 'Ord::min', 'cmp::min', '::min'):
            if len(m[2]) == 2 and all(_is_len_of_param(x) for x in m[2]):
                return True
    return False


def _is_len_of_param(x):
    if x[0] == 'len' and x[1][0] == 'param':
        return True
    if x[0] == 'call' and x[1].endswith('::len') and x[2] and x[2][0][0] == 'param':
        return True
    return False


def _len_field_from_layout(F, f, ln):
    """The length field of the raw buffer type is written only in its constructor as
    layout_size / size_of elem, where the same size is passed to the allocator."""
    name = ln[2] if ln[0] == 'field' else None
    if name is None:
        for x in expr_walk(ln):
            if x[0] == 'field':
                name = x[2]
                break
    adt = last_seg(f.self_adt)
    writers = []
    for g in F.fns:
        if g.self_adt != f.self_adt:
            pass
        pg = None
        for bi, b in enumerate(g.blocks):
            if b['cleanup']:
                continue
            for s in b['stmts']:
                if s['k'] != 'assign':
                    continue
                rv = s['rv']
                if rv['r'] == 'agg' and rv.get('kind') == 'adt' and last_seg(rv['adt']) == adt and name in rv['fields']:
                    pg = pg or Prov(g)
                    writers.append((g, bi, pg, pg.operand(rv['ops'][rv['fields'].index(name)]), rv))
                lp = s['lhs']['p']
                if lp and isinstance(lp[-1], dict) and lp[-1].get('n') == name and last_seg(lp[-1].get('o')) == adt:
                    writers.append((g, bi, None, None, None))
    if len(writers) != 1 or writers[0][3] is None:
        return False, 'length field %s.%s has %d writers (expected exactly the constructor)' % (adt, name, len(writers))
    g, bi, pg, val, rv = writers[0]
    # val = required_bytes / 4 ; layout = from_size_align(required_bytes, _)
    divs = [x for x in expr_walk(val) if x[0] == 'bin' and x[1] == 'Div']
    if not divs:
        return False, 'length field is not `bytes / size_of::<elem>()`: %s' % expr_str(val)[:60]
    bytes_e = divs[0][2]
    lay = None
    if 'layout' in rv['fields']:
        lay = pg.operand(rv['ops'][rv['fields'].index('layout')])
    if lay is None:
        return False, 'no layout field constructed next to the length'
    fs = _calls_named(lay, 'Layout::from_size_align', 'Layout::from_size_align_unchecked')
    if not fs or not _same(fs[0][2][0], bytes_e):
        return False, 'layout size and length field are not derived from the same byte count'
    return True, 'len = B / size_of::<i32>() and the allocation layout has size B (same expression, single writer %s)' % g.key


def _strip_casts(e):
    while isinstance(e, tuple) and e[0] == 'cast':
        e = e[2]
    if isinstance(e, tuple) and e[0] == 'local':
        return ('local', e[1])
    return expr_str(e) if isinstance(e, tuple) else e


@rule('GUARD-FIELD-WRITERS', ['C15', 'C14'], configs=('def',), floor=2, thorough_configs=('nostd-opt',))
def guard_field_writers(ctx):
    """The bounds the unsafe guards rely on are fixed at construction: the u16-read limit field is
    written only in the constructor as `buf_size - size_of::<u16>()` of the buffer allocated there,
    and the buffer field is never resized, truncated, replaced or handed out mutably."""
    F = ctx.facts
    # discover the bound field: field of self used as min() bound before ptr::add
    bound = None
    for f in F.fns:
        prov = None
        for bi, t, c in f.calls():
            if c.npath.endswith(('const_ptr::add', 'mut_ptr::add')) and c.d.get('unsafe'):
                prov = prov or Prov(f)
                off = prov.operand(t['args'][1])
                for m in _calls_named(off, 'Ord::min', '::min'):
                    for a in m[2]:
                        if a[0] == 'field':
                            bound = (a[3], a[2])
                        base = prov.operand(t['args'][0])
                        for ap in _calls_named(base, '::as_ptr'):
                            for x in expr_walk(ap):
                                if x[0] == 'field':
                                    buf = (x[3], x[2])
                                    break
    if bound is None:
        return ctx.anchor_missing('bound field used to clamp a raw pointer offset')
    owner, name = bound
    bowner, bname = buf
    # writers of the bound field
    nw = 0
    for g in F.fns:
        pg = None
        for bi, b in enumerate(g.blocks):
            if b['cleanup']:
                continue
            for si, s in enumerate(b['stmts']):
                if s['k'] != 'assign':
                    continue
                rv = s['rv']
                lp = s['lhs']['p']
                if lp and isinstance(lp[-1], dict) and lp[-1].get('n') == name and last_seg(lp[-1].get('o')) == owner:
                    nw += 1
                    ctx.violation('%s:writes:%s.%s' % (g.key, owner, name), g.loc(bi, si),
                                  'bound field assigned outside the constructor aggregate')
                if rv['r'] == 'agg' and rv.get('kind') == 'adt' and last_seg(rv['adt']) == owner and name in rv['fields']:
                    nw += 1
                    pg = pg or Prov(g)
                    v = pg.operand(rv['ops'][rv['fields'].index(name)])
                    bufv = pg.operand(rv['ops'][rv['fields'].index(bname)]) if bname in rv['fields'] else None
                    cs = _calls_named(v, 'checked_sub')
                    ok = False
                    why = 'bound is not `buf_size.checked_sub(size_of::<u16>()).unwrap()`'
                    if cs and bufv is not None:
                        size_e, k = cs[0][2]
                        fe = _calls_named(bufv, 'from_elem', 'Vec::with_capacity', 'vec::from_elem')
                        kval = None
                        if k[0] == 'const' and isinstance(k[2], int):
                            kval = k[2]
                        elif k[0] == 'call' and k[1].endswith('size_of'):
                            targ = (callee_of(k[3]) or {}).get('args', ['?'])[0]
                            kval = {'u8': 1, 'u16': 2, 'u32': 4, 'u64': 8, 'usize': 8}.get(targ)
                        if kval is not None and kval >= 2 and fe:
                            alloc_n = fe[0][2][-1] if fe[0][1].endswith('from_elem') else fe[0][2][0]
                            # exactly the allocated length: a smaller base (`buf_size - 1`) is still safe but makes the clamp bite at the last
                            # position at which a whole value can be read, where the checked twin compares the right pair (C14)
                            if _same(alloc_n, size_e) or _strip_casts(alloc_n) == _strip_casts(size_e):
                                ok = True
                            else:
                                why = 'bound derives from %s but the buffer is allocated with %s' % (expr_str(size_e)[:40], expr_str(alloc_n)[:40])
                    key = '%s:init:%s.%s' % (g.key, owner, name)
                    if ok:
                        ctx.ok(key, g.loc(bi, si), 'bound = alloc_len - %d of the buffer allocated in the same aggregate' % kval)
                    else:
                        ctx.violation(key, g.loc(bi, si), why)
    if nw == 0:
        ctx.violation('%s.%s:no-writer' % (owner, name), '-', 'bound field initialisation not found')
    # buffer field never shrunk / replaced / exposed mutably
    SHRINK = ('Vec::truncate', 'Vec::resize', 'Vec::clear', 'Vec::shrink_to_fit', 'Vec::shrink_to', 'Vec::set_len',
              'Vec::drain', 'Vec::pop', 'Vec::remove', 'Vec::split_off', 'Vec::swap_remove', 'Vec::retain',
              'mem::take', 'mem::replace', 'mem::swap', 'Vec::push', 'Vec::reserve', 'Vec::extend_from_slice',
              'Vec::resize_with', 'Vec::dedup', 'Vec::append', 'Vec::insert')
    bad = 0
    for g in F.fns:
        pg = None
        for bi, t, c in g.calls():
            if not c.is_(*SHRINK):
                continue
            pg = pg or Prov(g)
            a0 = pg.operand(t['args'][0])
            for x in expr_walk(a0):
                if x[0] == 'field' and x[2] == bname and x[3] == bowner:
                    bad += 1
                    ctx.violation('%s:%s-on:%s.%s' % (g.key, c.name, bowner, bname), g.loc(bi),
                                  '%s applied to the window buffer whose length the unsafe guards rely on' % c.npath)
        for bi, b in enumerate(g.blocks):
            if b['cleanup']:
                continue
            for si, s in enumerate(b['stmts']):
                if s['k'] != 'assign':
                    continue
                lp = s['lhs']['p']
                if lp and isinstance(lp[-1], dict) and lp[-1].get('n') == bname and last_seg(lp[-1].get('o')) == bowner:
                    bad += 1
                    ctx.violation('%s:replaces:%s.%s' % (g.key, bowner, bname), g.loc(bi, si), 'window buffer replaced after construction')
    if not bad:
        ctx.ok('%s.%s:never-resized' % (bowner, bname), '-', 'no resize/truncate/replace/take of the window buffer anywhere in the crate')


@rule('ASM-CLAMP', ['C15'], configs=('def',), floor=1, thorough_configs=('nostd-opt',))
def asm_clamp(ctx):
    """In the inline-asm direct-bit decoder every byte load uses an index register that was clamped
    against the `limit` operand with cmp/cmov, and limit = buf.len() - 1."""
    F = ctx.facts
    n = 0
    for f in F.fns:
        for bi, b in enumerate(f.blocks):
            t = b['term']
            if t['k'] != 'asm':
                continue
            n += 1
            tpl = t['template']
            key = '%s:asm' % f.key
            lines = [l.strip() for l in tpl.replace('\\n', '\n').split('\n') if l.strip() and not l.strip().startswith('//')]
            prov = Prov(f)
            ok = True
            why = []
            # operand roles from MIR provenance
            lim_ops = set()
            ptr_ops = set()
            for i, o in enumerate(t['operands']):
                if 'value' not in o:
                    continue
                e = prov.operand(o['value'])
                if any(x[0] == 'bin' and x[1].startswith('Sub') and x[3][0] == 'const' and x[3][2] == 1 and
                       any(y[0] == 'len' or (y[0] == 'call' and y[1].endswith('::len')) for y in expr_walk(x[2]))
                       for x in expr_walk(e)):
                    lim_ops.add(i)
                if any(x[0] == 'call' and x[1].endswith('::as_ptr') for x in expr_walk(e)):
                    ptr_ops.add(i)
            if not lim_ops:
                ok = False
                why.append('no input operand with provenance `buf.len() - 1`')
            memre = re.compile(r'\[\s*\{(\d+)(?::\w+)?\}\s*\+\s*\{(\d+)(?::\w+)?\}\s*\]')
            opre = re.compile(r'\{(\d+)(?::\w+)?\}')
            loads = []
            for i, l in enumerate(lines):
                mnem = l.split()[0]
                m = memre.search(l)
                if not m or mnem == 'lea':
                    continue
                base, idx = int(m.group(1)), int(m.group(2))
                if base not in ptr_ops and idx in ptr_ops:
                    base, idx = idx, base
                loads.append(l)
                if base not in ptr_ops:
                    ok = False
                    why.append('load base of `%s` is not the buffer pointer operand' % l)
                # straight-line region back to the previous label
                j = i - 1
                clamp_cmp = clamp_cmov = False
                while j >= 0 and not re.match(r'^\d+:$', lines[j]):
                    ops = [int(x) for x in opre.findall(lines[j])]
                    mn = lines[j].split()[0]
                    if mn == 'cmp' and len(ops) >= 2 and ops[0] == idx and ops[1] in lim_ops:
                        clamp_cmp = True
                    if re.match(r'cmov(g|a|ge|ae|nbe|nle)$', mn) and len(ops) >= 2 and ops[0] == idx and ops[1] in lim_ops:
                        clamp_cmov = True
                    if mn in ('csel',) and ops and ops[0] == idx and any(o in lim_ops for o in ops[1:]):
                        clamp_cmov = clamp_cmp = True
                    # the index register must not be modified between the clamp and the load
                    if clamp_cmov is False and mn in ('inc', 'add', 'lea', 'mov', 'sub', 'shl') and ops and ops[0] == idx and mn != 'mov':
                        ok = False
                        why.append('index register modified after its clamp before `%s`' % l)
                    j -= 1
                if not (clamp_cmp and clamp_cmov):
                    ok = False
                    why.append('load `%s`: index operand {%d} is not clamped by cmp/cmov against the limit operand' % (l, idx))
            if not loads:
                ok = False
                why.append('no memory load found in template (unrecognised assembly)')
            if ok:
                ctx.ok(key, f.loc(bi), '%d byte load(s), each after cmp/cmov against limit = buf.len()-1' % len(loads))
            else:
                ctx.violation(key, f.loc(bi), '; '.join(why))
    if n == 0:
        ctx.anchor_missing('inline asm block')


# --------------------------------------------------------------------------- C14 NORM-NONNEG

INTRIN_MAX = ('_mm256_max_epi32', '_mm_max_epi32', 'vmaxq_s32')
INTRIN_SUB = ('_mm256_sub_epi32', '_mm_sub_epi32', 'vsubq_s32')
INTRIN_LOAD = ('_mm256_load_si256', '_mm_load_si128', 'vld1q_s32', '_mm256_loadu_si256', '_mm_loadu_si128')
INTRIN_SET1 = ('_mm256_set1_epi32', '_mm_set1_epi32', 'vdupq_n_s32')
INTRIN_STORE = ('_mm256_store_si256', '_mm_store_si128', 'vst1q_s32', '_mm256_storeu_si256', '_mm_storeu_si128')


def _sym(e, off_pred):
    """Translate a stored-value expression into the tiny symbolic language over P (old entry, >= 0)
    and O (offset, >= 0)."""
    if e[0] == 'call':
        n = e[1]
        a = e[2]
        ln = n.split('::')[-1]
        if ln in INTRIN_MAX or n.endswith(('Ord::max', 'cmp::max')) or ln == 'max':
            return ('max', _sym(a[0], off_pred), _sym(a[1], off_pred))
        if ln in INTRIN_SUB or ln in ('wrapping_sub',):
            return ('sub', _sym(a[0], off_pred), _sym(a[1], off_pred))
        if ln == 'saturating_sub':
            return ('satsub', _sym(a[0], off_pred), _sym(a[1], off_pred))
        if ln in INTRIN_LOAD:
            return 'P'
        if ln in INTRIN_SET1:
            return 'O' if off_pred(a[0]) else ('?',)
        if ln in ('clamp',):
            return ('clamp', _sym(a[0], off_pred), _sym(a[1], off_pred), _sym(a[2], off_pred))
        return ('?',)
    if e[0] == 'bin' and e[1].startswith('Sub'):
        return ('sub', _sym(e[2], off_pred), _sym(e[3], off_pred))
    if e[0] == 'field' and e[1][0] == 'bin':
        return _sym(e[1], off_pred)
    if e[0] == 'const':
        return ('const', e[2])
    if off_pred(e):
        return 'O'
    if e[0] in ('deref', 'param', 'local', 'index'):
        return 'P'
    if e[0] == 'cast':
        return _sym(e[2], off_pred)
    return ('?',)


def _ge(a, b, p_le_o=False):
    """provably a >= b given P >= 0, O >= 0 (and optionally P <= O)."""
    if a == b:
        return True
    if isinstance(b, tuple) and b[0] == 'const' and isinstance(b[1], int) and b[1] <= 0 and a in ('P', 'O'):
        return True
    if isinstance(a, tuple) and a[0] == 'max':
        return _ge(a[1], b, p_le_o) or _ge(a[2], b, p_le_o)
    if isinstance(a, tuple) and isinstance(b, tuple) and a[0] == 'const' and b[0] == 'const':
        return a[1] >= b[1]
    if p_le_o and a == 'O' and b == 'P':
        return True
    return False


def _nonneg(s):
    if s in ('P', 'O'):
        return True
    if not isinstance(s, tuple):
        return False
    if s[0] == 'const':
        return isinstance(s[1], int) and s[1] >= 0
    if s[0] == 'max':
        return _nonneg(s[1]) or _nonneg(s[2])
    if s[0] in ('sub',):
        return _ge(s[1], s[2])
    if s[0] == 'satsub':
        # signed saturating_sub clamps at i32::MIN, not 0: = P - O when no overflow
        return _ge(s[1], s[2])
    if s[0] == 'clamp':
        return _nonneg(s[2])
    return False


def _zero_when_p_le_o(s):
    """value == 0 whenever P <= O."""
    if not isinstance(s, tuple):
        return False
    if s[0] in ('sub', 'satsub'):
        a, b = s[1], s[2]
        if isinstance(a, tuple) and a[0] == 'max' and set([a[1], a[2]]) == {'P', 'O'} and b == 'O':
            return True
        return False
    if s[0] == 'max':
        z = ('const', 0)
        other = s[2] if s[1] == z else (s[1] if s[2] == z else None)
        if other is not None and isinstance(other, tuple) and other[0] in ('sub', 'satsub') and other[1] == 'P' and other[2] == 'O':
            return True
    if s[0] == 'clamp':
        return _zero_when_p_le_o(('max', s[1], s[2]))
    return False


@rule('NORM-NONNEG', ['C14'], configs=('def',), floor={'def': 3, 'std-noopt': 3, 'nostd-opt': 1, 'nostd': 1}, thorough_configs=('std-noopt', 'nostd-opt', 'nostd'))
def norm_nonneg(ctx):
    """All position-normalisation kernels clamp at zero: for an entry p >= 0 and offset o >= 0 the
    stored value is >= 0 and is 0 whenever p <= o (the scalar, AVX2, SSE4.1 and NEON variants must
    agree)."""
    F = ctx.facts
    disp = [f for f in F.fns if f.self_adt and last_seg(f.self_adt) == 'LZEncoder' and f.name == 'normalize']
    if not disp:
        return ctx.anchor_missing('LZEncoder::normalize')
    kernels = []
    for bi, t, c in disp[0].calls():
        for g in F.resolve_callee(c):
            if g not in kernels and g.arg_count == 2:
                kernels.append(g)
    if not kernels:
        return ctx.anchor_missing('normalisation kernels called by LZEncoder::normalize')
    for k in kernels:
        prov = Prov(k)
        # SIMD store
        stores = [(bi, t, c) for bi, t, c in k.calls() if c.npath.split('::')[-1] in INTRIN_STORE]
        off_param = lambda e: e[0] == 'param' and e[1] == 2
        for bi, t, c in stores:
            val = prov.operand(t['args'][1])
            s = _sym(val, off_param)
            key = '%s:simd-store' % k.npath
            if _nonneg(s) and _zero_when_p_le_o(s):
                ctx.ok(key, k.loc(bi), 'stored lanes = %s: >= 0 and 0 when p <= o' % (s,))
            else:
                ctx.violation(key, k.loc(bi), 'SIMD kernel stores %s which is not provably max(p,o)-o' % (s,))
        # scalar closure(s) defined in this kernel
        for cl in F.closures_of(k):
            pc = Prov(cl)
            for bi, b in enumerate(cl.blocks):
                if b['cleanup']:
                    continue
                for si, st in enumerate(b['stmts']):
                    if st['k'] != 'assign' or not st['lhs']['p'] or st['lhs']['p'][0] != '*':
                        continue
                    if cl.local_ty(st['lhs']['l']).startswith('&mut i32') is False:
                        continue
                    val = pc.rvalue(st['rv'], 0)
                    # offset = captured variable (field of closure env) ; entry = *p
                    def off_pred(e):
                        x = e
                        while x[0] in ('deref', 'ref', 'cast'):
                            x = x[-1] if x[0] == 'cast' else x[1]
                        return x[0] == 'field' and x[1][0] in ('param', 'deref') and (x[1][0] == 'param' and x[1][1] == 1 or x[1][0] == 'deref' and x[1][1][0] == 'param' and x[1][1][1] == 1)
                    s = _sym(val, off_pred)
                    key = '%s:scalar-store' % k.npath
                    if _nonneg(s) and _zero_when_p_le_o(s):
                        ctx.ok(key, cl.loc(bi, si), 'stored value = %s: >= 0 and 0 when p <= o' % (s,))
                    else:
                        ctx.violation(key, cl.loc(bi, si), 'scalar kernel stores %s: for p < o the entry goes negative '
                                      '(i32::saturating_sub clamps at i32::MIN, the SIMD kernels clamp at 0): '
                                      'configurations without SIMD diverge after 2 GiB' % (s,))


# --------------------------------------------------------------------------- C14 TWIN-SLICES

def _range_of(e):
    """(base, start, end) of a range indexing expression: index(base, Range{s, e}) / get_unchecked(base, Range{s, e})."""
    while e[0] in ('ref', 'deref'):
        e = e[1]
    if e[0] == 'call' and e[1].split('::')[-1] in ('index', 'get_unchecked', 'index_mut') and len(e[2]) == 2:
        r = e[2][1]
        if r[0] == 'agg' and str(r[1]).endswith('Range::Range') and len(r[2]) == 2:
            return e[2][0], r[2][0], r[2][1]
    return None


def _strip0(e):
    while e[0] == 'cast' or (e[0] == 'field' and e[2] == '0' and e[1][0] == 'bin'):
        e = e[2] if e[0] == 'cast' else e[1]
    return e


@rule('TWIN-SLICES', ['C14'], configs=('def', 'nostd'), floor=1, thorough_configs=('std-noopt', 'nostd-opt'))
def twin_slices(ctx):
    """The match-extension helper exists in a checked and an unchecked variant (feature `optimization`). In
    every configuration the two slices handed to the pairwise comparator are `buf[s1 .. s1+L]` and
    `buf[s2 .. s2+L]` with one and the same L whose logical part is `limit - current_len`: a shorter second
    slice silently caps the match length (the comparator takes min(len)) and the two builds emit different
    streams for the same input."""
    F = ctx.facts
    n = 0
    for f in F.fns:
        if f.kind == 'closure' or f.self_adt:
            continue
        prov = None
        for bi, t, c in f.calls():
            gs = [g for g in F.resolve_callee(c) if g.kind == 'fn' and not g.self_adt and g.arg_count == 2 and
                  g.local_ty(1) == '&[u8]' and g.local_ty(2) == '&[u8]' and g.d.get('output') == 'usize']
            if not gs or len(t['args']) != 2:
                continue
            prov = prov or Prov(f)
            a = [prov.operand(x, 0, '%d:T' % bi) for x in t['args']]
            # slices may come through a tuple local: look at the aggregate fields
            rs = []
            for x in a:
                r = _range_of(x)
                rs.append(r)
            n += 1
            key = '%s:pairwise-slices' % f.key
            if rs[0] is None or rs[1] is None:
                ctx.violation(key, f.loc(bi), 'the comparator %s is not given two range slices `buf[s..s+L]` (got %s and %s): the '
                              'compared length is no longer the same on both sides' % (gs[0].key, expr_str(a[0])[:50], expr_str(a[1])[:50]))
                continue
            lens = []
            for base, s, e in rs:
                e0 = _strip0(e)
                if e0[0] == 'bin' and e0[1].startswith('Add') and expr_str(_strip0(e0[2])) == expr_str(_strip0(s)):
                    lens.append(e0[3])
                else:
                    lens.append(None)
            if lens[0] is None or lens[1] is None or expr_str(lens[0]) != expr_str(lens[1]):
                ctx.violation(key, f.loc(bi), 'slice lengths differ: %s vs %s' % (
                    expr_str(rs[0][2])[:60], expr_str(rs[1][2])[:60]))
                continue
            L = lens[0]
            logical = [x for x in expr_walk(L) if x[0] == 'bin' and x[1].startswith('Sub') and
                       _strip0(x[2])[0] == 'param' and _strip0(x[3])[0] == 'param']
            if not logical:
                ctx.violation(key, f.loc(bi), 'the common length %s is not derived from `limit - current_len`' % expr_str(L)[:70])
                continue
            lg = logical[0]
            ctx.ok(key, f.loc(bi), 'both slices have length %s (logical part %s - %s)' % (
                expr_str(L)[:60], _strip0(lg[2])[2], _strip0(lg[3])[2]))
    if n == 0:
        ctx.anchor_missing('pairwise slice comparator call')


# --------------------------------------------------------------------------- C14 ASM-DISPATCH

def _eval_count(e, count):
    """Evaluate an integer expression whose only variable is a parameter (the bit count)."""
    if not isinstance(e, tuple):
        return None
    k = e[0]
    if k == 'const' and isinstance(e[2], int):
        return e[2]
    if k == 'param':
        return count if e[1] >= 2 else None
    if k == 'cast':
        return _eval_count(e[-1], count)
    if k == 'field' and isinstance(e[1], tuple) and e[1][0] == 'bin' and e[1][1].endswith('WithOverflow') and str(e[2]) == '0':
        return _eval_count(('bin', e[1][1][:-len('WithOverflow')], e[1][2], e[1][3]), count)
    if k == 'bin':
        a, b = _eval_count(e[2], count), _eval_count(e[3], count)
        if a is None or b is None:
            return None
        op = e[1]
        if op == 'Add': return a + b
        if op == 'Sub': return a - b
        if op == 'Mul': return a * b
        if op == 'Div': return a // b if b else None
        if op == 'Shr': return a >> b
        if op == 'Shl': return a << b
        if op == 'BitAnd': return a & b
    return None


@rule('ASM-DISPATCH', ['C14', 'C06'], configs=('def',), floor=1, thorough_configs=('nostd-opt',))
def asm_dispatch(ctx):
    """A hand-written assembly path that clamps its loads (it re-reads the last byte when the input runs out)
    is only dispatched to when it cannot reach the clamp: the call is control dependent on a comparison
    between the bytes left in the buffer (`buf().len()` and `pos()`) and a bound derived from the bit count.
    Otherwise the portable path (which substitutes zero and keeps counting past the end) and the assembly
    path decode a truncated chunk differently and the builds report different errors."""
    from lzlint.core import control_conditions
    F = ctx.facts
    asm_fns = {f.path for f in F.fns if any(b['term']['k'] == 'asm' for b in f.blocks)}
    if not asm_fns:
        return ctx.anchor_missing('functions with inline assembly')
    n = 0
    for f in F.fns:
        prov = None
        for bi, t, c in f.calls():
            gs = [g for g in F.resolve_callee(c) if g.path in asm_fns]
            if not gs:
                continue
            g = gs[0]
            # only assembly that loads through a clamped index is concerned
            if not any('cmov' in b['term'].get('template', '') or 'csel' in b['term'].get('template', '')
                       for b in g.blocks if b['term']['k'] == 'asm'):
                continue
            prov = prov or Prov(f)
            n += 1
            key = '%s:dispatch:%s' % (f.key, g.name)
            conds = [x for _, x in control_conditions(f, bi, prov)]
            conds += [x for _, _, x in guards_of(f, bi, prov)]
            ok = None
            for cnd in conds:
                has_len = any(x[0] == 'len' or (x[0] == 'call' and x[1].split('::')[-1] == 'len') for x in expr_walk(cnd))
                has_pos = any(x[0] == 'call' and x[1].split('::')[-1] == 'pos' for x in expr_walk(cnd))
                has_cnt = any(x[0] == 'param' and x[1] >= 2 for x in expr_walk(cnd))   # the bit count, not `self`
                nc = norm_cmp(cnd, True) if cnd[0] in ('bin', 'un') else None
                if has_len and has_pos and has_cnt and nc and nc[0] in ('Lt', 'Le'):
                    ok = cnd
            short = None
            if ok is not None:
                # is the bound large enough? `count` direct bits consume at most 1 + ceil((count - 1) / 8) bytes: the
                # range is renormalised (one byte) when it drops below 2^24, at worst before the first bit and then again
                # after one and after every further eight halvings.
                nc = norm_cmp(ok, True)
                lhs_has_len = any(x[0] == 'len' or (x[0] == 'call' and x[1].split('::')[-1] == 'len') for x in expr_walk(nc[1]))
                # the bytes left are len - pos; the buffer reader keeps counting `pos` past the end of a truncated chunk
                # (read_u8 substitutes zero and increments), so a plain subtraction can underflow: it has to saturate
                plain_sub = any(x[0] == 'bin' and x[1].startswith('Sub') and
                                any(y[0] == 'call' and y[1].split('::')[-1] == 'len' for y in expr_walk(x[2])) and
                                any(y[0] == 'call' and y[1].split('::')[-1] == 'pos' for y in expr_walk(x[3]))
                                for side in (nc[1], nc[2]) for x in expr_walk(side))
                if lhs_has_len:
                    short = 'the comparison bounds the bytes left from above, not from below'
                elif plain_sub:
                    short = ('the bytes left are computed as `len - pos` with a plain subtraction, but pos runs past len on a truncated chunk '
                             '(read_u8 keeps incrementing it): overflow panic in debug builds, a huge value that lets the assembly path in on release')
                else:
                    for cntv in range(1, 33):
                        bv = _eval_count(nc[1], cntv)
                        if bv is None:
                            short = 'the bound %s cannot be evaluated for count = %d (not decided, fail closed)' % (expr_str(nc[1])[:60], cntv)
                            break
                        min_left = bv if nc[0] == 'Le' else bv + 1
                        need = 1 + (cntv - 1 + 7) // 8
                        if min_left < need:
                            short = ('for count = %d the path is entered with %d byte(s) left, but %d direct bits can consume %d bytes '
                                     '(1 + ceil((count - 1) / 8))' % (cntv, min_left, cntv, need))
                            break
            if ok is not None and short is None:
                ctx.ok(key, f.loc(bi), 'taken only when %s; the bound covers 1 + ceil((count - 1) / 8) bytes for every count in 1..=32' % expr_str(ok)[:120])
            elif ok is not None:
                ctx.violation(key, f.loc(bi), 'the assembly path %s is guarded by %s, which is too weak: %s; at the end of a truncated chunk it re-reads the '
                              'last byte where the portable path reads zero, and the builds decode the same corrupt stream differently'
                              % (g.key, expr_str(ok)[:100], short))
            else:
                ctx.violation(key, f.loc(bi), 'the assembly path %s is entered without checking that the bytes it can consume are left in '
                              'the buffer: at the end of a truncated chunk it re-reads the last byte and clamps the position, the '
                              'portable path reads zero and overruns; the two builds then fail differently (or one accepts)' % g.key)
    if n == 0:
        ctx.anchor_missing('dispatch to a clamping assembly path')



@rule('ALIGNED-LEN-USE', ['C14'], configs=('def',), floor=5, thorough_configs=('nostd-opt',))
def aligned_len_use(ctx):
    """The over-aligned table type used with `optimization` rounds its length up to a whole cache line, the plain
    `Vec` of the other builds does not. The length of such a table may therefore only be *checked* (compared),
    never used as a value: a size derived from it (cyclic buffer size, mask, loop bound) differs between the
    builds and with it the matches found and the bytes emitted."""
    F = ctx.facts
    aligned = [a for p, a in F.adts.items() if 'Aligned' in last_seg(p)]
    if not aligned:
        return ctx.anchor_missing('over-aligned table type')
    n = 0
    cnt = {}
    for f in F.fns:
        if f.self_adt and 'Aligned' in last_seg(f.self_adt):
            continue   # the type's own methods
        prov = None
        for bi, t, c in f.calls():
            if not (c.name == 'len' and c.self_adt and 'Aligned' in last_seg(c.self_adt)):
                continue
            n += 1
            base = '%s:aligned-len' % (f.key if f.kind != 'closure' else f.npath)
            cnt[base] = cnt.get(base, 0) + 1
            key = base if cnt[base] == 1 else '%s#%d' % (base, cnt[base])
            d = t['dest']['l']
            bad = None
            # every use of the result must be a comparison
            for b2, blk in enumerate(f.blocks):
                for st in blk['stmts']:
                    if st['k'] != 'assign':
                        continue
                    rv = st['rv']
                    uses = [k2 for k2 in ('o', 'a', 'b') if isinstance(rv.get(k2), dict) and (op_place(rv[k2]) or {}).get('l') == d]
                    if rv['r'] == 'agg' and any((op_place(o) or {}).get('l') == d for o in rv['ops']):
                        bad = (b2, 'stored into a value')
                    if not uses:
                        continue
                    if rv['r'] == 'bin' and rv['op'] in ('Ge', 'Gt', 'Le', 'Lt', 'Eq', 'Ne'):
                        continue
                    bad = (b2, 'used in `%s`' % (rv.get('op') or rv['r']))
                tt = blk['term']
                if tt['k'] == 'call' and any((op_place(a) or {}).get('l') == d for a in tt['args']):
                    bad = (b2, 'passed to %s' % ((callee_of(tt) or {}).get('name')))
            if bad:
                ctx.violation(key, f.loc(bad[0]), 'the rounded-up length of an over-aligned table is %s: the value differs from the plain-Vec build, so '
                              'the two configurations compute different sizes from the same options' % bad[1])
            else:
                ctx.ok(key, f.loc(bi), 'length only compared (allocation check)')
    if n == 0:
        ctx.anchor_missing('length reads of the over-aligned table type')
