"""Decoder totality: NO-RECURSION, ALLOC-TAINT (C06)."""
from lzlint.framework import rule
from lzlint.core import (Prov, Callee, callee_of, strip_generics, last_seg, expr_walk, expr_str, op_local, op_place,
                         guards_of, norm_cmp)

# function key -> (depth bound, reason). One symbol, one reason.
RECURSION_EXCEPTIONS = {
    '<LZMA2ReaderMT as Read>::read': (
        2, 'depth <= 2: every non-final work unit holds at least one LZMA2 chunk and every chunk decodes to >= 1 '
           'byte (size fields are stored minus one); only the final [0x00] unit decodes to nothing, and after an '
           'empty result the next get_next_uncompressed_chunk call returns None or Err'),
}


def self_edges(F):
    """Call edges made on the caller's own receiver (arg0 provenance == self parameter) or
    receiver-less calls between local functions."""
    g = {}
    for f in F.fns:
        es = []
        prov = None
        for bi, t, c in f.calls():
            for callee in F.resolve_callee(c):
                if callee.kind == 'closure':
                    continue
                takes_self = callee.arg_count >= 1 and (callee.locals[1].get('name') == 'self')
                if takes_self:
                    if f.arg_count < 1 or f.locals[1].get('name') != 'self' or not t['args']:
                        continue
                    prov = prov or Prov(f)
                    a0 = prov.operand(t['args'][0])
                    # `self.m()` reborrows self (&mut *self collapses to the parameter); `(**self).m()` or
                    # `self.inner.m()` delegate to a different object and are not edges of this graph
                    if not (a0[0] == 'param' and a0[1] == 1):
                        continue
                    # generic/dyn dispatch on self resolves to every impl: keep only same-type impls
                    if callee.self_adt != f.self_adt:
                        continue
                es.append((bi, callee))
        g[f.path] = es
    return g


def sccs(nodes, succ):
    index = {}
    low = {}
    onstack = set()
    stack = []
    out = []
    counter = [0]
    import sys
    sys.setrecursionlimit(10000)

    def strong(v):
        index[v] = low[v] = counter[0]
        counter[0] += 1
        stack.append(v)
        onstack.add(v)
        for w in succ(v):
            if w not in index:
                strong(w)
                low[v] = min(low[v], low[w])
            elif w in onstack:
                low[v] = min(low[v], index[w])
        if low[v] == index[v]:
            comp = []
            while True:
                w = stack.pop()
                onstack.discard(w)
                comp.append(w)
                if w == v:
                    break
            out.append(comp)
    for v in nodes:
        if v not in index:
            strong(v)
    return out


def decoder_entry_points(F):
    """DEC: constructors and Read::read of the public readers and filter readers."""
    names = ('LZMAReader', 'LZMA2Reader', 'XZReader', 'LZIPReader', 'LZMA2ReaderMT', 'LZIPReaderMT', 'BCJReader',
             'BCJ2Reader', 'DeltaReader')
    roots = []
    present = set()
    for f in F.fns:
        adt = last_seg(f.self_adt) if f.self_adt else None
        if adt in names:
            present.add(adt)
            if f.d.get('pub') or (f.impl and f.impl.get('trait')):
                roots.append(f)
    return roots, present


@rule('NO-RECURSION', ['C06'], floor=1, thorough_configs=('nostd-xzlzip',))
def no_recursion(ctx):
    """No call cycle on the decoder's own receiver among functions reachable from the decoder entry
    points: recursion depth would be driven by the input (stack overflow on hostile streams)."""
    F = ctx.facts
    roots, present = decoder_entry_points(F)
    if not roots:
        return ctx.anchor_missing('public reader types')
    reach = F.reachable_fns(roots)
    g = self_edges(F)
    nodes = [p for p in reach]
    comps = sccs(nodes, lambda v: [c.path for _, c in g.get(v, []) if c.path in reach])
    ncyc = 0
    for comp in comps:
        cyc = len(comp) > 1 or any(c.path == comp[0] for _, c in g.get(comp[0], []))
        if not cyc:
            continue
        ncyc += 1
        fs = sorted(F.by_path[p].key for p in comp)
        f0 = F.by_path[comp[0]]
        site = [bi for bi, c in g[f0.path] if c.path in comp][0]
        key = 'cycle:' + '+'.join(fs)
        exc = RECURSION_EXCEPTIONS.get(fs[0]) if len(fs) == 1 else None
        if exc:
            ctx.exception(key, f0.loc(site), exc[1])
        else:
            ctx.violation(key, f0.loc(site), 'recursion on self among decoder functions %s: depth is driven by the '
                          'input (consecutive empty units), a hostile stream overflows the stack' % fs)
    ctx.ok('decoder-self-call-graph', '-', '%d functions reachable from %d decoder entry points (%s); %d SCCs, '
           '%d recursive' % (len(nodes), len(roots), ','.join(sorted(present)), len(comps), ncyc))


# --------------------------------------------------------------------------- ALLOC-TAINT

from lzlint.intervals import Intervals, INF, eval_lifted

ALLOC_SINKS = {'Vec::with_capacity': 0, 'vec::from_elem': 1, 'Vec::resize': 1, 'Vec::reserve': 1,
               'Vec::reserve_exact': 1, 'VecDeque::with_capacity': 0, 'String::with_capacity': 0,
               'Vec::try_reserve': 1, 'Vec::try_reserve_exact': 1, 'alloc::alloc': 0, 'alloc::alloc_zeroed': 0,
               'Box::new_uninit_slice': 0, 'Vec::resize_with': 1}
ALLOC_LIMIT = 1 << 24   # elements; constants and type-bounded sizes must stay below this

# function key -> reason: the declared dictionary is allowed by the property's own bound
ALLOC_EXCEPTIONS = {
    'LZDecoder::new': 'the dictionary size declared by the stream/caller: the property allows "the dictionary size the input declares"',
}


@rule('ALLOC-TAINT', ['C06'], floor={'def': 12, 'nostd-xzlzip': 7}, thorough_configs=('nostd-xzlzip',))
def alloc_taint(ctx):
    """Every allocation size reachable from the decoder entry points is a constant, bounded by the
    type of a narrow header field, proportional to bytes actually held, the declared dictionary
    size, or an input-derived wide integer that a dominating check bounds (interval analysis with
    guard refinement across calls and struct fields)."""
    F = ctx.facts
    roots, present = decoder_entry_points(F)
    if not roots:
        return ctx.anchor_missing('public reader types')
    reach = F.reachable_fns(roots)
    iv = Intervals(F)
    n = 0
    cnt = {}
    for p in sorted(reach):
        f = F.by_path[p]
        prov = None
        for bi, t, c in f.calls():
            idx = None
            for nm, i in ALLOC_SINKS.items():
                if c.is_(nm):
                    idx = i
            if idx is None or idx >= len(t['args']):
                continue
            prov = prov or Prov(f)
            n += 1
            size = prov.operand(t['args'][idx], 0, '%d:T' % bi)
            base = '%s:%s' % (f.key if f.kind != 'closure' else f.npath, c.name)
            cnt[base] = cnt.get(base, 0) + 1
            key = base if cnt[base] == 1 else '%s#%d' % (base, cnt[base])
            if f.key in ALLOC_EXCEPTIONS:
                ctx.exception(key, f.loc(bi), ALLOC_EXCEPTIONS[f.key])
                continue
            r, where = eval_lifted(iv, f, bi, size, ALLOC_LIMIT)
            if r.hi != INF and r.hi <= ALLOC_LIMIT:
                ctx.ok(key, f.loc(bi), 'size %s in %r (bounded in %s)' % (expr_str(size)[:60], r, where), nontrivial=size[0] != 'const')
            else:
                ctx.violation(key, f.loc(bi), 'allocation of %s elements where the size derives from untrusted input without '
                              'a dominating upper bound (interval %r): a tiny hostile stream forces a huge allocation / '
                              'capacity-overflow panic; worst context: %s' % (expr_str(size)[:70], r, where))
    if n == 0:
        ctx.anchor_missing('allocation sites reachable from the decoders')


# --------------------------------------------------------------------------- READ-ERR-LATCH

@rule('READ-ERR-LATCH', ['C06', 'C05', 'C04'], floor=6)
def read_err_latch(ctx):
    """A reader that owns LZ decoder state (an LZMADecoder, or a nested LZMAReader), or that swaps its own
    source between a decoder chain and the raw container (a `Box<dyn Read>` field: XZReader), never runs again
    after one of its `read` calls returned an error: the decoder is left half-updated by a failed symbol
    (stored distance outside the window, output not flushed, source moved out of `self`), and a second call
    panics or returns garbage as Ok. Structure required: `read` (or the method it forwards to) starts with a
    test of a sticky field that returns Err at once, and every other path on which `read` returns an Err has
    stored into that field."""
    from rules.units import self_field_stores
    from lzlint.core import self_field_of, switch_edges
    from rules.io import read_impls
    F = ctx.facts
    n = 0
    for f in read_impls(F):
        adt = F.adts.get(f.self_adt or '')
        if not adt:
            continue
        ftys = [fl['ty'] for v in adt['variants'][:1] for fl in v['fields']]
        # BCJReader / BCJ2Reader: they put converted bytes into the caller's buffer BEFORE they pull more from their source in the
        # same call; when that pull fails the bytes are lost with the Err, so going on afterwards hands out data with a hole
        if not (any('LZMADecoder' in t or 'LZMAReader<' in t or ('Box<(dyn' in t and 'Read' in t) for t in ftys)
                or last_seg(f.self_adt) in ('BCJReader', 'BCJ2Reader')):
            continue
        n += 1
        key = '%s:error-is-sticky' % f.key
        # candidate functions for the entry guard: read itself and same-type methods it calls
        cands = [f]
        for bi, t, c in f.calls():
            for g in F.resolve_callee(c):
                if g.self_adt == f.self_adt and g.kind != 'closure' and g not in cands:
                    cands.append(g)
        guard_fields = {}
        for g in cands:
            pg = Prov(g)
            for s in g.reachable:
                if g.blocks[s]['term']['k'] != 'switch':
                    continue
                e = sorted(set(g.succs(s)))
                cond = pg.operand(g.blocks[s]['term']['discr'], 0, '%d:T' % s)
                names = set()

                def direct_fields(x):
                    # fields read directly by the condition; calls are only looked through when they are Option/bool accessors
                    # (a condition like `!self.decoder.decode(&mut self.base, ..)` does not test a latch)
                    if not isinstance(x, tuple):
                        return
                    if x[0] == 'field':
                        sf = self_field_of(x)
                        if sf and len(sf) == 1:
                            names.add(sf[0])
                            return
                    if x[0] == 'call' and last_seg(x[1]) not in ('is_some', 'is_none', 'as_ref', 'as_mut', 'is_ok', 'is_err', 'not', 'eq', 'ne', 'deref'):
                        return
                    for y in x[1:]:
                        if isinstance(y, tuple):
                            direct_fields(y)
                        elif isinstance(y, list):
                            for z in y:
                                direct_fields(z)
                direct_fields(cond)
                if not names:
                    continue
                # one edge leads straight to `return Err(..)` without any call to a local function
                for tgt in e:
                    region = g.reach_from([tgt])
                    small = {b for b in region if g.dominates(tgt, b)}
                    has_err = any(st['k'] == 'assign' and st['lhs']['l'] == 0 and st['rv']['r'] == 'agg' and st['rv'].get('variant_name') == 'Err'
                                  for b in small for st in g.blocks[b]['stmts'])
                    local_calls = any(g.blocks[b]['term']['k'] == 'call' and callee_of(g.blocks[b]['term']) and
                                      callee_of(g.blocks[b]['term']).get('local') and
                                      not callee_of(g.blocks[b]['term'])['path'].split('::')[-1].startswith(('error_', 'copy_error'))
                                      for b in small)
                    if has_err and not local_calls and len(small) <= 12:
                        for nm in names:
                            guard_fields.setdefault(nm, (g, s))
        if not guard_fields:
            ctx.violation(key, f.loc(0), 'no sticky error test at the start of read: after an Err the LZ decoder is run again on its half-updated '
                          'state (panic in LZDecoder::get_byte / flush, "inner reader not set", or garbage returned as Ok)')
            continue
        # stores to a guard field in read itself
        stores = {b2 for b2, si, name, rv in self_field_stores(f) if name in guard_fields}
        prov = Prov(f)
        # Err-carrying returns of read: explicit Err, from_residual, or a Result of a same-type call returned as it is
        bad = []
        reach = f.reach_from([0], stop=stores)
        for b in reach:
            blk = f.blocks[b]
            explicit = any(st['k'] == 'assign' and st['lhs']['l'] == 0 and not st['lhs']['p'] and st['rv']['r'] == 'agg' and
                           st['rv'].get('variant_name') == 'Err' for st in blk['stmts'])
            tt = blk['term']
            resid = tt['k'] == 'call' and tt['dest']['l'] == 0 and callee_of(tt) and callee_of(tt)['path'].endswith('from_residual')
            tail = tt['k'] == 'call' and tt['dest']['l'] == 0 and not tt['dest']['p'] and callee_of(tt) and \
                any(g.self_adt == f.self_adt for g in F.resolve_callee(Callee(callee_of(tt))))
            if explicit or resid or tail:
                # the guard's own early return is fine
                if any(gf is f and f.dominates(gs, b) and b != gs and explicit for gf, gs in guard_fields.values()):
                    continue
                if tail and any(gf in F.resolve_callee(Callee(callee_of(tt))) for gf, gs in guard_fields.values()) and not stores:
                    # forwards to the method that holds the guard but never stores: only fine if that method stores itself
                    callee_stores = any(name in guard_fields for gf, gs in guard_fields.values() for b2, si, name, rv in self_field_stores(gf))
                    if callee_stores:
                        continue
                bad.append(b)
        # a Result obtained from a same-type method and handed back through a local (`let r = self.step(); r`)
        from rules.io import value_closure
        for bi, t, c in f.calls():
            if t['dest']['p'] or not any(g.self_adt == f.self_adt for g in F.resolve_callee(c)):
                continue
            if 'Result' not in f.local_ty(t['dest']['l']):
                continue
            if 0 in value_closure(f, {t['dest']['l']}) and t['dest']['l'] != 0:
                after = f.reach_from(f.succs(bi), stop=stores)
                if any(b in after for b in f.return_blocks()):
                    # unless the callee itself holds guard and store (LZMA2Reader::read_decode style is handled above)
                    bad.append(bi)
        if bad:
            ctx.violation(key, f.loc(sorted(bad)[0]), 'read can return an error (e.g. at %s) without recording it in %s: the next call runs the decoder '
                          'again on its half-updated state' % (f.loc(sorted(bad)[0]), '/'.join(sorted(guard_fields))))
        else:
            ctx.ok(key, f.loc(0), 'errors are recorded in `%s`, which is tested before the decoder runs' % '/'.join(sorted(guard_fields)))
    if n == 0:
        ctx.anchor_missing('readers owning LZ decoder state')


# --------------------------------------------------------------------------- BOUNDS

def _state_invariant(F, iv, adt_path, fld, bound):
    """Inductive invariant `0 <= adt.fld <= bound`: every store to the field in a method of the type stays within
    the bound when the field is within it before, and every construction of the type starts within it.
    Returns (ok, detail)."""
    from rules.units import self_field_stores
    notes = []
    for g in F.fns:
        if g.kind == 'closure':
            continue
        pg = None
        # constructions
        for bi, b in enumerate(g.blocks):
            if b['cleanup']:
                continue
            for si, st in enumerate(b['stmts']):
                if st['k'] == 'assign' and st['rv']['r'] == 'agg' and st['rv'].get('adt') == adt_path:
                    pg = pg or Prov(g)
                    names = st['rv'].get('fields') or []
                    if fld in names:
                        e = pg.operand(st['rv']['ops'][names.index(fld)], 0, '%d:%d' % (bi, si))
                        r = iv.eval(g, bi, e)
                        if not (r.lo >= 0 and r.hi <= bound):
                            if not iv.callers(g) and not (F.adts.get(adt_path) or {}).get('pub'):
                                notes.append('%s is never called' % g.key)
                                continue
                            return False, '%s constructs the value with %s in %r' % (g.key, expr_str(e)[:40], r)
        if g.self_adt != adt_path:
            continue
        for bi, si, name, rv in self_field_stores(g):
            if name != fld:
                continue
            pg = pg or Prov(g)
            e = pg.rvalue(rv, 0, '%d:%d' % (bi, si))
            # assume the invariant for reads of the same field (of self or of another value of the same type)
            r = _eval_assuming(iv, g, bi, e, adt_path, fld, bound)
            if not (r.lo >= 0 and r.hi <= bound):
                return False, '%s stores %s in %r' % (g.key, expr_str(e)[:50], r)
    return True, 'inductive invariant 0..=%d holds for every store and construction%s' % (bound, (' (' + '; '.join(notes) + ')') if notes else '')


def _eval_assuming(iv, g, bi, e, adt_path, fld, bound):
    """interval of e at block bi of g where every read of `<adt>.fld` is assumed in [0, bound] (refined by guards)."""
    from lzlint.intervals import Ival
    gb = iv.guard_bounds_cached(g, bi)

    def ev(x):
        k = x[0]
        if k == 'field' and x[2] == fld and (len(x) < 4 or x[3] is None or x[3] == last_seg(adt_path)):
            lo, hi = 0, bound
            from lzlint.intervals import strip
            ent = gb.get(strip(x, g))
            if ent:
                l, h, _ = ent
                if h is not None and h[0][0] == 'const':
                    hi = min(hi, h[0][2] - (1 if h[1] else 0))
                if l is not None and l[0][0] == 'const':
                    lo = max(lo, l[0][2] + (1 if l[1] else 0))
            return Ival(lo, hi)
        if k == 'cast':
            return ev(x[2])
        if k == 'field' and x[2] == '0' and x[1][0] == 'bin':
            return ev(x[1])
        if k == 'bin':
            op = x[1].replace('WithOverflow', '')
            a, b = ev(x[2]), ev(x[3])
            if op == 'Sub':
                return Ival(a.lo - b.hi, a.hi - b.lo)
            if op == 'Add':
                return Ival(a.lo + b.lo, a.hi + b.hi)
        return iv.eval(g, bi, x)
    return ev(e)


@rule('BOUNDS', ['C06'], floor={'def': 112, 'nostd-xzlzip': 101}, thorough_configs=('nostd-xzlzip',))
def bounds(ctx):
    """Indexing into a table of fixed size cannot panic in decoder-reachable code: for every bounds-check
    assert whose length operand is a constant, the index is proven below that length by interval analysis
    (guard refinement, caller lifting, field writers, loop-exit conditions on loop-carried values, integer
    range iterators) or, for an index read from a single-field state type, by an inductive invariant over all
    stores to that field. Slices and vectors (run-time lengths) are not decided here."""
    from lzlint.intervals import Ival
    F = ctx.facts
    roots, present = decoder_entry_points(F)
    if not roots:
        return ctx.anchor_missing('public reader types')
    reach = F.reachable_fns(roots)
    iv = Intervals(F, scope=set(reach))
    inv_cache = {}
    n = 0
    cnt = {}
    for p in sorted(reach):
        f = F.by_path[p]
        prov = None
        for bi, b in enumerate(f.blocks):
            t = b['term']
            if b['cleanup'] or t['k'] != 'assert' or not t['msg'].startswith('BoundsCheck'):
                continue
            ops = t['msg_ops']
            k = (ops[0].get('k') if ops else None)
            if k is None or not isinstance(k.get('v'), int):
                continue
            ln = k['v']
            prov = prov or Prov(f)
            idx = prov.operand(ops[1], 0, '%d:T' % bi)
            n += 1
            base = '%s:index<%d' % (f.key if f.kind != 'closure' else f.npath, ln)
            cnt[base] = cnt.get(base, 0) + 1
            key = base if cnt[base] == 1 else '%s#%d' % (base, cnt[base])
            try:
                r, where = eval_lifted(iv, f, bi, idx, ln - 1)
            except RecursionError:
                r, where = Ival(-INF, INF), f.key
            if r.hi != INF and r.hi <= ln - 1 and r.lo >= 0:
                ctx.ok(key, f.loc(bi), 'index %s in %r' % (expr_str(idx)[:50], r), nontrivial=idx[0] != 'const')
                continue
            # index read through an accessor of a single-field state type: inductive invariant
            x = idx
            while x[0] == 'cast':
                x = x[2]
            done = False
            if x[0] == 'call' and len(x) > 3 and x[3]:
                c = callee_of(x[3])
                g = F.by_path.get(c['path']) if c and c.get('local') else None
                if g is not None and g.self_adt and not g.loops():
                    pg = Prov(g)
                    rets = [ex for _, ex in pg.def_exprs(0)]
                    if len(rets) == 1 and rets[0][0] == 'field':
                        from lzlint.core import self_field_of
                        sf = self_field_of(rets[0])
                        if sf and len(sf) == 1:
                            ck = (g.self_adt, sf[0], ln - 1)
                            if ck not in inv_cache:
                                inv_cache[ck] = _state_invariant(F, iv, g.self_adt, sf[0], ln - 1)
                            okk, detail = inv_cache[ck]
                            if okk:
                                ctx.ok(key, f.loc(bi), 'index %s: %s.%s, %s' % (expr_str(idx)[:40], last_seg(g.self_adt), sf[0], detail))
                            else:
                                ctx.violation(key, f.loc(bi), 'index %s into a table of %d entries: the invariant %s.%s <= %d does not hold: %s' % (
                                    expr_str(idx)[:40], ln, last_seg(g.self_adt), sf[0], ln - 1, detail))
                            done = True
            if done:
                continue
            ctx.violation(key, f.loc(bi), 'index %s into a table of %d entries is not provably in range (interval %r, context %s): a hostile '
                          'stream can make the decoder panic with an out-of-bounds index' % (expr_str(idx)[:60], ln, r, where))
    if n == 0:
        ctx.anchor_missing('constant-length bounds checks in decoder-reachable code')


# --------------------------------------------------------------------------- RANGE-ORDER

@rule('RANGE-ORDER', ['C06'], floor=20)
def range_order(ctx):
    """A two-sided range `a..b` used to slice (Index/IndexMut/copy_within) panics when a > b ("slice index starts
    at X but ends at Y") whatever the length of the slice is. On the decoding side (everything outside src/enc and
    the LZ encoder) every such range must be ordered by construction: a is the constant 0, or b is `a + n`, or
    both come from constant tables with a[k] <= b[k] for all k, or a comparison `a <= b` / `a < b` guards the
    slicing. Anything else is an index pair whose order depends on input bytes."""
    F = ctx.facts
    n = 0
    for f in F.fns:
        if f.file.startswith('src/enc/') or f.file == 'src/lz/lz_encoder.rs' or f.file.startswith('src/lz/') and 'encoder' in f.file:
            continue
        prov = None
        cnt = {}
        for bi, t, c in f.calls():
            if c.name not in ('index', 'index_mut', 'copy_within', 'get', 'get_mut', 'get_unchecked', 'get_unchecked_mut'):
                continue
            targs = c.d.get('args', [])
            if not any('ops::Range<' in x for x in targs) or len(t['args']) < 2:
                continue
            prov = prov or Prov(f)
            e = prov.operand(t['args'][1], 0, '%d:T' % bi)
            while e[0] in ('ref', 'deref', 'cast'):
                e = e[-1] if e[0] == 'cast' else e[1]
            n += 1
            base = '%s:range-ordered' % (f.key if f.kind != 'closure' else f.npath)
            cnt[base] = cnt.get(base, 0) + 1
            key = base if cnt[base] == 1 else '%s#%d' % (base, cnt[base])
            if not (e[0] == 'agg' and str(e[1]).endswith('Range::Range') and len(e[2]) == 2):
                ctx.violation(key, f.loc(bi), 'range operand is not built at the slicing site (%s): order of its ends not decided (fail closed)' % expr_str(e)[:80])
                continue
            a, b = e[2]
            sa, sb = expr_str(a), expr_str(b)
            why = None
            if a[0] == 'const' and a[2] == 0:
                why = 'starts at the constant 0'
            if why is None:
                bb = b
                if bb[0] == 'field' and isinstance(bb[1], tuple) and bb[1][0] == 'bin' and bb[1][1] == 'AddWithOverflow' and str(bb[2]) == '0':
                    bb = ('bin', 'Add', bb[1][2], bb[1][3])
                if bb[0] == 'bin' and bb[1] == 'Add' and sa in (expr_str(bb[2]), expr_str(bb[3])):
                    why = 'end is start + n (that the addition cannot wrap is INT-OVF\'s obligation)'
            if why is None:
                aa = a
                if aa[0] == 'field' and isinstance(aa[1], tuple) and aa[1][0] == 'bin' and aa[1][1] == 'SubWithOverflow' and str(aa[2]) == '0':
                    aa = ('bin', 'Sub', aa[1][2], aa[1][3])
                if aa[0] == 'bin' and aa[1] == 'Sub' and sb == expr_str(aa[2]):
                    why = 'start is end - n (that the subtraction cannot wrap is INT-OVF\'s obligation)'
            if why is None and a[0] == 'index' and b[0] == 'index':
                ta, tb = const_tuple(a[1]), const_tuple(b[1])
                if ta and tb and len(ta) == len(tb) and expr_str(a[2]) == expr_str(b[2]) and all(x <= y for x, y in zip(ta, tb)):
                    why = 'both ends come from constant tables with start[k] <= end[k] for all %d k' % len(ta)
            if why is None:
                for sblk, pol, cond in guards_of(f, bi, prov):
                    nc = norm_cmp(cond, pol) if cond[0] in ('bin', 'un') else None
                    if nc and nc[0] in ('Lt', 'Le') and expr_str(nc[1]) == sa and expr_str(nc[2]) == sb:
                        why = 'guarded by %s %s %s' % (sa[:40], nc[0], sb[:40])
                        break
            if why:
                ctx.ok(key, f.loc(bi), '%s..%s: %s' % (sa[:50], sb[:50], why))
            else:
                ctx.violation(key, f.loc(bi), 'slice range %s..%s: nothing orders its ends (no `start <= end` guard, end is not start + n): '
                              'when start > end the slicing panics ("slice index starts at .. but ends at ..") - on the decoding side '
                              'both derive from input' % (sa[:70], sb[:70]))
    if not n:
        ctx.anchor_missing('two-sided range slicing on the decoding side')


def const_tuple(e):
    while isinstance(e, tuple) and e[0] in ('ref', 'deref', 'cast'):
        e = e[-1] if e[0] == 'cast' else e[1]
    if isinstance(e, tuple) and e[0] == 'const' and isinstance(e[2], tuple) and all(isinstance(x, int) for x in e[2]):
        return e[2]
    return None


# --------------------------------------------------------------------------- OUTPUT-BUFFERED

@rule('OUTPUT-BUFFERED', ['C06'], floor=2)
def output_buffered(ctx):
    """Allocation clause of C06: a decoder may allocate the dictionary its input declares plus something
    proportional to the input's length - not something proportional to the *decoded* length, which a few bytes of
    input can make arbitrarily large. A worker of a multi-threaded reader that drains a decoder of the crate with
    `read_to_end` into a Vec holds a whole decompressed unit (an LZIP member, everything up to the next independent
    LZMA2 chunk) in memory: 10 KB of input, 64 KiB dictionary, > 100 MiB allocated for the first byte. Every worker
    function of the MT readers is an instance; it passes when it hands decoded data on in bounded pieces."""
    from rules.concurrency import worker_fns, fn_tag
    F = ctx.facts
    ws = [(f, sb, st) for f, sb, st in worker_fns(F) if 'reader' in f.file]
    if not ws:
        return ctx.anchor_missing('worker functions of the multi-threaded readers')
    for f, sb, st in ws:
        key = '%s:decoded-output-not-buffered-whole' % fn_tag(f)
        prov = None
        hit = None
        for bi, t, c in f.calls():
            if c.name in ('read_to_end', 'read_to_string') and t['args']:
                prov = prov or Prov(f)
                recv = prov.operand(t['args'][0], 0, '%d:T' % bi)
                ty = (c.d.get('self_ty') or '') + ' ' + expr_str(recv)
                if any(x in ty for x in ('LZMA2Reader', 'LZIPReader', 'LZMAReader', 'XZReader')):
                    hit = (bi, ty)
        if hit:
            ctx.violation(key, f.loc(hit[0]), 'drains a decoder with read_to_end into a Vec: the worker (and the reorder buffer behind it) holds a whole '
                          'decompressed unit; memory is proportional to the decoded size, which the input does not bound')
        else:
            ctx.ok(key, f.loc(sb), 'no read_to_end on a decoder of the crate')


# --------------------------------------------------------------------------- INDEX-GUARD

def _base_plus(e):
    """(base_expr, k) for e = base + k with constant k >= 0 (k = 0 when e is not an addition)."""
    x = e
    while x[0] == 'cast':
        x = x[-1]
    if x[0] == 'field' and isinstance(x[1], tuple) and x[1][0] == 'bin' and x[1][1] == 'AddWithOverflow' and str(x[2]) == '0':
        x = ('bin', 'Add', x[1][2], x[1][3])
    if x[0] == 'bin' and x[1] == 'Add':
        for a, c in ((x[2], x[3]), (x[3], x[2])):
            if c[0] == 'const' and isinstance(c[2], int) and c[2] >= 0:
                return a, c[2]
    return x, 0


def _is_len_of(e, vec_str):
    x = e
    while x[0] == 'cast':
        x = x[-1]
    return x[0] == 'call' and last_seg(x[1]) == 'len' and len(x[2]) == 1 and expr_str(x[2][0]).lstrip('&') == vec_str.lstrip('&')


@rule('INDEX-GUARD', ['C06'], floor=13)
def index_guard(ctx):
    """Container header parsers index byte vectors whose length and whose index both come from the input
    (`header_data[offset]` in BlockHeader::parse, `members[seq]`): every such element access in the reader files is
    covered by a comparison with the length of the same vector that edge-dominates it - `i < len`, `i + k <= len`,
    `i + k == len`, `i + k < len` with the accessed offset inside the compared span - and the index variable is
    not reassigned between the comparison and the access. (Constant-length arrays are BOUNDS' business, ranges
    RANGE-ORDER's.) A missing comparison is a panic on a crafted header."""
    from lzlint.intervals import Intervals
    F = ctx.facts
    I = None
    FILES = ('src/xz/reader.rs', 'src/xz.rs', 'src/lzip.rs', 'src/lzip/reader.rs', 'src/lzip/reader_mt.rs', 'src/lzma2_reader.rs',
             'src/lzma_reader.rs', 'src/lzma2_reader_mt.rs')
    n = 0
    for f in F.fns:
        if f.file not in FILES:
            continue
        prov = None
        cnt = {}
        for bi, t, c in f.calls():
            if not (c.name in ('index', 'index_mut') and c.trait and last_seg(c.trait) in ('Index', 'IndexMut')):
                continue
            targs = c.d.get('args', [])
            if len(targs) < 2 or targs[1] != 'usize':
                continue
            prov = prov or Prov(f)
            n += 1
            base = '%s:element-access-guarded' % (f.key if f.kind != 'closure' else f.npath)
            cnt[base] = cnt.get(base, 0) + 1
            key = base if cnt[base] == 1 else '%s#%d' % (base, cnt[base])
            vec = prov.operand(t['args'][0], 0, '%d:T' % bi)
            idx = prov.operand(t['args'][1], 0, '%d:T' % bi)
            vs = expr_str(vec)
            ib, ik = _base_plus(idx)
            ibs = expr_str(ib)
            why = None
            for sblk, pol, cond in guards_of(f, bi, prov):
                nc = norm_cmp(cond, pol) if cond[0] in ('bin', 'un') else None
                if not nc:
                    continue
                op, a, b = nc
                if op in ('Lt', 'Le', 'Eq') and _is_len_of(b, vs):
                    gb, gk = _base_plus(a)
                    if expr_str(gb) != ibs and not (ib[0] == 'const' and gb[0] == 'const'):
                        continue
                    if ib[0] == 'const' and gb[0] == 'const':
                        gk, ik2 = gb[2], ib[2]
                    else:
                        ik2 = ik
                    covered = (ik2 <= gk) if op == 'Lt' else (ik2 < gk)
                    if not covered:
                        continue
                    # the index variable is not reassigned between the comparison and the access
                    il = ib[1] if ib[0] == 'local' else None
                    if il is not None:
                        fwd = f.reach_from(f.succs(sblk), stop={bi, sblk})
                        back = set()
                        st_ = [bi]
                        while st_:
                            x_ = st_.pop()
                            for p_ in f.pred[x_]:
                                if p_ not in back and p_ != sblk and p_ != bi:
                                    back.add(p_)
                                    st_.append(p_)
                        mid = fwd & back
                        redefs = [d for d in f.whole_defs(il) if d[0] in mid]
                        if redefs:
                            continue
                    why = 'guarded by %s %s len' % (expr_str(a)[:40], op)
                    break
            if why is None:
                # index below a proven lower bound of the length (e.g. element 0 of a vector of >= 1 elements)
                I = I or Intervals(F)
                ln = ('call', 'core::slice::len', [vec], None)
                x = vec
                while x[0] in ('ref', 'deref', 'cast'):
                    x = x[-1] if x[0] == 'cast' else x[1]
                if x[0] == 'call' and last_seg(x[1]) == 'from_elem' and len(x[2]) == 2:
                    lv = I.eval(f, bi, x[2][1], 0, None, frozenset())
                    iv = I.eval(f, bi, idx, 0, None, frozenset())
                    if iv.hi < lv.lo and not iv.prop:
                        why = 'index %r below the smallest possible length %r of the vector' % (iv, lv)
            if why:
                ctx.ok(key, f.loc(bi), '%s[%s]: %s' % (vs[:30], expr_str(idx)[:40], why))
            else:
                ctx.violation(key, f.loc(bi), 'element access %s[%s]: no comparison of the index with the length of this vector dominates it '
                              '(index and length both derive from the input): index out of bounds panic on a crafted header'
                              % (vs[:40], expr_str(idx)[:50]))
    if not n:
        ctx.anchor_missing('dynamic element accesses in the reader files')


# --------------------------------------------------------------------------- WRITE-ERR-LATCH

@rule('WRITE-ERR-LATCH', ['C15', 'C05'], floor=1)
def write_err_latch(ctx):
    """A writer whose range encoder writes straight into the sink (a `RangeEncoder<W>` over the caller's writer, not
    the in-memory chunk buffer of LZMA2) is interrupted by a sink error in the middle of a symbol: the LZ encoder is
    left between two steps, and running it again reaches the unchecked match-extension helpers with a start position in
    front of the window (out-of-bounds read with `optimization`), or quietly completes a stream with bytes missing.
    Such a writer must latch the failure: `write` tests a sticky bool field before it runs the encoder and stores
    into it whenever the encoder run failed; `finish` tests the same field before it runs the encoder."""
    from rules.units import self_field_stores
    from lzlint.core import self_field_of, switch_edges
    from rules.io import effective_read
    F = ctx.facts
    n = 0
    for path, adt in F.adts.items():
        flds = adt['variants'][0]['fields'] if adt.get('variants') else []
        if not any(fl['ty'].startswith('enc::range_enc::RangeEncoder<') and 'RangeEncoderBuffer' not in fl['ty'] for fl in flds):
            continue
        bools = {fl['name'] for fl in flds if fl['ty'] == 'bool'}
        w = [f for f in F.fns if f.self_adt == path and f.impl and last_seg(f.impl.get('trait') or '') == 'Write' and f.name == 'write']
        fin = [f for f in F.fns if f.self_adt == path and f.name == 'finish' and not (f.impl and f.impl.get('trait'))]
        if not w or not fin:
            continue
        n += 1
        key = '%s:sink-error-is-sticky' % last_seg(path)

        def entry_latch(f, before_names):
            """bool self fields tested by a switch that dominates every call named in before_names and whose true edge only returns Err."""
            from rules.errors import _only_err_returns_from
            prov = Prov(f)
            targets = [bi for bi, t, c in f.calls() if c.name in before_names]
            out = set()
            for sb in f.reachable:
                t = f.blocks[sb]['term']
                if t['k'] != 'switch':
                    continue
                se = switch_edges(f, sb)
                if not se:
                    continue
                cond = prov.operand(t['discr'], 0, '%d:T' % sb)
                if cond[0] == 'field':
                    sf = self_field_of(cond)
                    if sf and len(sf) == 1 and sf[0] in bools and _only_err_returns_from(f, se[1]) and targets and \
                            all(f.dominates(sb, tb) for tb in targets):
                        out.add(sf[0])
            return out

        wf = w[0]
        body = effective_read(F, wf)
        body_names = {body.name} if body is not wf else {'fill_window', 'encode_for_lzma1'}
        lw = entry_latch(wf, body_names)
        lf = entry_latch(fin[0], {'set_finishing', 'encode_for_lzma1'})
        stores = {name for b2, si, name, rv in self_field_stores(wf)}
        common = lw & lf & stores
        if common:
            ctx.ok(key, wf.loc(0), 'write and finish test `%s` before they run the encoder; write stores into it' % sorted(common)[0])
        else:
            ctx.violation(key, wf.loc(0), 'the range encoder of %s writes straight into the sink, but the writer keeps no record of a failed write '
                          '(tested at entry of write: %s, of finish: %s, stored by write: %s): after a sink error the encoder is run again from a '
                          'half-updated state (out-of-bounds match extension with `optimization`, or Ok with bytes missing)'
                          % (last_seg(path), sorted(lw) or '-', sorted(lf) or '-', sorted(stores & bools) or '-'))
    if not n:
        ctx.anchor_missing('writers with a RangeEncoder over the caller\'s sink')
