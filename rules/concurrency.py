"""Concurrency rules: CV-LOCK, LOCK-SCOPE, DROP-CLOSE, SPAWN-BOUND, WORKER-NOTIFY,
ERRCHK-BEFORE-BLOCK, WAIT-LOOP (C08/C09/C10)."""
from lzlint.framework import rule
from lzlint.core import (Prov, Callee, callee_of, strip_generics, last_seg, expr_walk, expr_str,
                         expr_has_call, self_field_of, guards_of, norm_cmp, op_local, op_place, switch_edges)
from lzlint.locks import LockSets, outer_field, WAIT_FNS, LOCK_FNS

ATOMIC_WRITES = ('Atomic::store', 'Atomic::swap', 'Atomic::fetch_add', 'Atomic::fetch_sub', 'Atomic::fetch_or',
                 'Atomic::fetch_and', 'Atomic::compare_exchange', 'Atomic::compare_exchange_weak',
                 'Atomic::fetch_xor', 'Atomic::fetch_update', 'Atomic::fetch_nand', 'Atomic::fetch_max',
                 'Atomic::fetch_min',
                 'AtomicBool::store', 'AtomicBool::swap', 'AtomicBool::fetch_or', 'AtomicBool::fetch_and',
                 'AtomicBool::compare_exchange', 'AtomicU32::store', 'AtomicU32::fetch_add', 'AtomicU32::fetch_sub')
ATOMIC_READS = ('Atomic::load', 'AtomicBool::load', 'AtomicU32::load')

BLOCKING = ('JoinHandle::join', 'Receiver::recv', 'Receiver::recv_timeout', 'Receiver::iter', 'Condvar::wait',
            'Condvar::wait_while', 'Condvar::wait_timeout', 'thread::sleep', 'thread::park', 'Barrier::wait',
            'SyncSender::send', 'io::Read::read', 'io::Read::read_exact', 'io::Write::write',
            'io::Write::write_all', 'io::Write::flush', 'Read::read_to_end', 'thread::scope',
            'ScopedJoinHandle::join')


def mt_types(facts):
    """ADTs that own a work queue and join handles (discovered by field types)."""
    out = []
    for path, a in facts.adts.items():
        if a['kind'] != 'struct':
            continue
        fields = a['variants'][0]['fields']
        q = [f for f in fields if 'WorkStealingQueue<' in f['ty']]
        h = [f for f in fields if 'JoinHandle<' in f['ty']]
        if q and h:
            out.append((path, a, q[0]['name'], h[0]['name']))
    return out


def wait_sites(facts):
    for f in facts.fns:
        for bi, t, c in f.calls():
            if c.is_(*WAIT_FNS):
                yield f, bi, t, c


@rule('CV-LOCK', ['C10'], floor=2)
def cv_lock(ctx):
    """Every write to a condvar predicate variable happens while the condvar's mutex is held.

    Instances: each atomic field that is read inside the wait loop of a Condvar::wait site
    (predicate variable) x each write site of that field anywhere in the crate."""
    F = ctx.facts
    sites = list(wait_sites(F))
    if not sites:
        return ctx.anchor_missing('Condvar::wait call site')
    for f, bi, t, c in sites:
        ls = LockSets(f)
        prov = Prov(f)
        held = ls.held_at_term(bi)
        # the guard handed to wait
        gl = op_local(t['args'][1]) if len(t['args']) > 1 else None
        st = ls.at_term.get(bi, {})
        mutex = st.get(gl, (None, None))[1] if gl is not None else None
        cv = outer_field(prov.operand(t['args'][0]))
        if mutex is None or cv is None:
            ctx.violation('%s:wait-unresolved' % f.key, f.loc(bi),
                          'cannot resolve the mutex/condvar pair of this wait (fail closed)')
            continue
        # the wait loop
        loops = [(h, body) for h, body in f.loops().items() if bi in body]
        if not loops:
            ctx.violation('%s:wait-not-in-loop' % f.key, f.loc(bi),
                          'Condvar::wait is not inside a loop: a woken waiter does not re-test its predicate')
            continue
        h, body = min(loops, key=lambda x: len(x[1]))
        preds = set()
        for b2 in body:
            t2 = f.blocks[b2]['term']
            c2 = callee_of(t2)
            if c2 and Callee(c2).is_(*ATOMIC_READS):
                fld = outer_field(prov.operand(t2['args'][0]))
                if fld:
                    preds.add(fld)
        ctx.ok('%s:wait-loop-retests' % f.key, f.loc(bi),
               'wait on %s.%s under %s.%s is inside a loop (head bb%d) that re-reads predicate atomics %s' % (
                   cv[0], cv[1], mutex[0], mutex[1], h, sorted(preds)))
        # all writers of predicate atomics
        for (owner, name) in sorted(preds, key=str):
            nw = 0
            for g in F.fns:
                lsg = None
                pg = None
                for b3, t3, c3 in g.calls():
                    if not c3.is_(*ATOMIC_WRITES):
                        continue
                    pg = pg or Prov(g)
                    fld = outer_field(pg.operand(t3['args'][0]))
                    if fld != (owner, name):
                        continue
                    nw += 1
                    lsg = lsg or LockSets(g)
                    key = '%s:write:%s.%s:%s' % (g.key, owner, name, c3.name)
                    if mutex in lsg.held_at_term(b3):
                        ctx.ok(key, g.loc(b3), 'predicate write under %s.%s guard' % mutex)
                    else:
                        ctx.violation(key, g.loc(b3),
                                      'write to condvar predicate %s.%s (read in the wait loop of %s) without holding '
                                      '%s.%s: a waiter between its predicate test and Condvar::wait misses the '
                                      'wake-up (lost wake-up)' % (owner, name, f.key, mutex[0], mutex[1]))
            if nw == 0:
                ctx.info('%s.%s:no-writers' % (owner, name), '-', 'predicate atomic has no writers')


LOCK_SCOPE_ALLOWED = ('VecDeque::', 'Atomic::load', 'Condvar::wait', 'ops::Deref::deref', 'ops::DerefMut::deref_mut',
                      'Result::unwrap', 'Option::', 'mem::drop', 'Condvar::notify_one', 'Condvar::notify_all',
                      'Atomic::store')


@rule('LOCK-SCOPE', ['C10'], floor=4)
def lock_scope(ctx):
    """While the work-queue mutex is held only queue operations, atomic accesses and the paired
    Condvar::wait are called (short critical sections, no second lock, no I/O, no channel op)."""
    F = ctx.facts
    sites = list(wait_sites(F))
    if not sites:
        return ctx.anchor_missing('Condvar::wait call site')
    mutexes = set()
    for f, bi, t, c in sites:
        ls = LockSets(f)
        gl = op_local(t['args'][1]) if len(t['args']) > 1 else None
        m = ls.at_term.get(bi, {}).get(gl, (None, None))[1]
        if m:
            mutexes.add(m)
    for g in F.fns:
        locks_here = [(b, t) for b, t, c in g.calls() if c.is_(*LOCK_FNS)]
        if not locks_here:
            continue
        ls = LockSets(g)
        pg = Prov(g)
        relevant = False
        for b, t in locks_here:
            if outer_field(pg.operand(t['args'][0])) in mutexes:
                relevant = True
        if not relevant:
            continue
        bad = []
        n = 0
        for b, t, c in g.calls():
            held = ls.held_at_term(b) & mutexes
            if not held:
                continue
            n += 1
            if c.is_(*LOCK_FNS):
                bad.append((b, c.npath + ' (second lock while holding the queue mutex)'))
            elif not any(a in c.npath for a in LOCK_SCOPE_ALLOWED):
                bad.append((b, c.npath))
        key = '%s:critical-section' % g.key
        if bad:
            for b, what in bad:
                ctx.violation(key + ':' + last_seg(what.split(' ')[0]), g.loc(b),
                              'call to %s while the work-queue mutex is held' % what)
        else:
            ctx.ok(key, g.loc(locks_here[0][0]), '%d calls under the queue mutex, all queue/atomic/condvar ops' % n)


def _blocking_reach(F, root):
    """Blocking std calls transitively reachable from `root` through local calls: list of
    (fn, bb, callee npath, via)."""
    out = []
    seen = set()
    stack = [(root, [root.key])]
    while stack:
        f, via = stack.pop()
        if f.path in seen:
            continue
        seen.add(f.path)
        for bi, t, c in f.calls():
            if c.is_(*BLOCKING):
                out.append((f, bi, c.npath, via))
            for g in F.resolve_callee(c):
                if g.path not in seen:
                    stack.append((g, via + [g.key]))
    return out


@rule('DROP-CLOSE', ['C10'], floor=4)
def drop_close(ctx):
    """Each type owning a work queue and join handles implements Drop; every path of drop stores
    the shutdown flag and closes the queue; drop reaches no blocking call; the type is never
    mem::forget-ed / wrapped in ManuallyDrop."""
    F = ctx.facts
    types = mt_types(F)
    if not types:
        return ctx.anchor_missing('struct with WorkStealingQueue + JoinHandle fields')
    for path, adt, qfield, hfield in types:
        tn = last_seg(path)
        drops = [f for f in F.fns if f.impl and last_seg(f.impl.get('trait')) == 'Drop' and f.self_adt == path]
        if not drops:
            ctx.violation('%s:no-Drop' % tn, adt['span'], 'type owns worker threads but has no Drop impl: '
                          'dropping it leaves workers blocked in steal() forever')
            continue
        d = drops[0]
        prov = Prov(d)
        close_blocks = []
        store_blocks = []
        for bi, t, c in d.calls():
            if c.is_('WorkStealingQueue::close'):
                close_blocks.append(bi)
            if c.is_(*ATOMIC_WRITES) and c.name in ('store', 'swap', 'fetch_or'):
                v = prov.operand(t['args'][1])
                fld = outer_field(prov.operand(t['args'][0]))
                if v[0] == 'const' and v[2] == 1 and fld and fld[0] == tn:
                    store_blocks.append(bi)
        rets = d.return_blocks()
        def on_all_paths(blks):
            return bool(blks) and all(any(d.dominates(b, r) for b in blks) for r in rets)
        if on_all_paths(close_blocks):
            ctx.ok('%s:drop-closes-queue' % tn, d.loc(close_blocks[0]), 'close() dominates every return of drop')
        else:
            ctx.violation('%s:drop-closes-queue' % tn, d.loc(0),
                          'a path through Drop::drop does not call WorkStealingQueue::close: workers blocked in '
                          'steal() are never released')
        if on_all_paths(store_blocks):
            ctx.ok('%s:drop-sets-shutdown' % tn, d.loc(store_blocks[0]), 'shutdown flag stored true on every path')
        else:
            ctx.violation('%s:drop-sets-shutdown' % tn, d.loc(0),
                          'a path through Drop::drop does not store true to the shutdown flag')
        blk = [x for x in _blocking_reach(F, d)]
        if blk:
            for (g, bi, what, via) in blk:
                ctx.violation('%s:drop-blocks:%s' % (tn, last_seg(what)), g.loc(bi),
                              'Drop::drop reaches blocking call %s via %s' % (what, ' -> '.join(via)))
        else:
            ctx.ok('%s:drop-nonblocking' % tn, d.loc(0), 'no join/recv/wait/IO reachable from drop')
    # forget / ManuallyDrop on these types
    names = [last_seg(p) for p, _, _, _ in types]
    bad = 0
    for f in F.fns:
        for bi, t, c in f.calls():
            if c.is_('mem::forget', 'ManuallyDrop::new', 'Box::leak', 'mem::ManuallyDrop::new'):
                args = ' '.join(c.d.get('args', []))
                for n in names:
                    if n in args:
                        bad += 1
                        ctx.violation('%s:forget:%s' % (n, f.key), f.loc(bi),
                                      '%s applied to %s: its Drop (which releases the workers) never runs' % (c.npath, n))
    if not bad:
        ctx.ok('no-forget', '-', 'no mem::forget/ManuallyDrop/Box::leak on %s' % names, nontrivial=False)


def spawn_sites(F):
    for f in F.fns:
        for bi, t, c in f.calls():
            if c.is_('thread::spawn', 'Builder::spawn', 'Builder::spawn_unchecked', 'Scope::spawn', 'thread::scope'):
                yield f, bi, t, c


@rule('SPAWN-BOUND', ['C10'], floor=12)
def spawn_bound(ctx):
    """(i) thread::spawn only in functions that push the handle into a Vec<JoinHandle> field of
    self; (ii) each call of such a spawner is in a constructor outside any loop, or guarded by
    `handles.len() < self.max`; (iii) the max field is only ever built from clamp(_, 1, <=256)."""
    F = ctx.facts
    sites = list(spawn_sites(F))
    if not sites:
        return ctx.anchor_missing('thread::spawn call site')
    spawners = {}
    for f, bi, t, c in sites:
        prov = Prov(f)
        key = '%s:spawn-records-handle' % f.key
        pushed = None
        for b2, t2, c2 in f.calls():
            if c2.is_('Vec::push'):
                recv = prov.operand(t2['args'][0])
                fld = outer_field(recv)
                val = prov.operand(t2['args'][1])
                from_spawn = any(x[0] == 'call' and x[3] is t for x in expr_walk(val))
                if fld and from_spawn and f.dominates(bi, b2):
                    rets = f.return_blocks()
                    if all(f.dominates(b2, r) for r in rets):
                        pushed = (fld, b2)
        if pushed is None or f.arg_count < 1:
            ctx.violation(key, f.loc(bi), 'thread::spawn whose JoinHandle is not pushed into a handle vector of '
                          'self on every path: the worker count can no longer be bounded by handles.len()')
            continue
        ctx.ok(key, f.loc(bi), 'handle pushed to %s.%s on every path' % pushed[0])
        spawners[f.path] = (f, pushed[0])
    # (ii) callers
    max_fields = set()
    for spath, (sf, hfld) in spawners.items():
        for g in F.fns:
            for bi, t, c in g.calls():
                if c.path != spath:
                    continue
                key = '%s:calls:%s' % (g.key, sf.name)
                is_ctor = (g.arg_count == 0 or not g.d['inputs'] or 'self' not in (g.locals[1].get('name') or '')) \
                    and last_seg(g.self_adt or '') in g.d.get('output', '')
                if is_ctor:
                    if g.in_loop(bi):
                        ctx.violation(key, g.loc(bi), 'spawner called inside a loop in a constructor')
                    else:
                        ctx.ok(key, g.loc(bi), 'one spawn in constructor, outside any loop', nontrivial=False)
                    continue
                prov = Prov(g)
                found = None
                for s, pol, cond in guards_of(g, bi, prov):
                    nc = norm_cmp(cond, pol)
                    if not nc or nc[0] != 'Lt':
                        continue
                    a, b = nc[1], nc[2]
                    lenc = expr_has_call(a, 'Vec::len')
                    if not lenc:
                        continue
                    lf = outer_field(lenc[2][0])
                    bf = outer_field(b)
                    if lf == hfld and bf and bf[0] == hfld[0]:
                        found = (s, bf)
                if found:
                    max_fields.add(found[1])
                    ctx.ok(key, g.loc(bi), 'guarded by %s.%s.len() < self.%s (edge-dominating true branch of bb%d)' % (
                        hfld[0], hfld[1], found[1][1], found[0]))
                else:
                    ctx.violation(key, g.loc(bi), 'spawn of a worker not guarded by `%s.len() < self.<max>`: '
                                  'the number of worker threads is unbounded' % hfld[1])
    # (iii) writers of the max field(s)
    for (owner, name) in sorted(max_fields):
        adt = F.adt(owner)
        idx = [i for i, fl in enumerate(adt['variants'][0]['fields']) if fl['name'] == name][0]
        nw = 0
        for g in F.fns:
            prov = None
            for bi, b in enumerate(g.blocks):
                if b['cleanup']:
                    continue
                for si, s in enumerate(b['stmts']):
                    if s['k'] != 'assign':
                        continue
                    val = None
                    rv = s['rv']
                    if rv['r'] == 'agg' and rv.get('kind') == 'adt' and last_seg(rv['adt']) == owner:
                        prov = prov or Prov(g)
                        val = prov.operand(rv['ops'][idx])
                    else:
                        lp = s['lhs']['p']
                        if lp and isinstance(lp[-1], dict) and lp[-1].get('n') == name and last_seg(lp[-1].get('o')) == owner:
                            prov = prov or Prov(g)
                            val = prov.rvalue(rv, 0)
                    if val is None:
                        continue
                    nw += 1
                    key = '%s:writes:%s.%s' % (g.key, owner, name)
                    cl = expr_has_call(val, 'Ord::clamp', 'cmp::Ord::clamp', 'clamp')
                    okc = False
                    if cl and val[0] == 'call':
                        lo, hi = cl[2][1], cl[2][2]
                        if lo[0] == 'const' and hi[0] == 'const' and lo[2] >= 1 and hi[2] <= 256:
                            okc = True
                    if okc:
                        ctx.ok(key, g.loc(bi, si), 'max = clamp(_, %s, %s)' % (cl[2][1][2], cl[2][2][2]))
                    else:
                        ctx.violation(key, g.loc(bi, si), 'worker limit %s.%s written from %s, not from '
                                      'clamp(_, 1, <=256)' % (owner, name, expr_str(val)))
        if nw == 0:
            ctx.violation('%s.%s:no-writer' % (owner, name), '-', 'cannot find where the worker limit is initialised')


def worker_fns(F):
    """Functions that take units from the work queue (call WorkerHandle::steal)."""
    out = []
    for f in F.fns:
        if f.self_adt and last_seg(f.self_adt) in ('WorkerHandle', 'WorkStealingQueue'):
            continue
        for bi, t, c in f.calls():
            if c.is_('WorkerHandle::steal'):
                out.append((f, bi, t))
    return out


def fn_tag(f):
    """Disambiguating tag for same-named free functions: module path."""
    return f.npath


@rule('WORKER-NOTIFY', ['C09'], floor=4)
def worker_notify(ctx):
    """Every path of a worker from a successful steal() to a function exit passes through
    Sender::send on the result channel (the coordinator keeps its own Sender, so a blocked recv()
    is only ever woken by a worker send)."""
    F = ctx.facts
    ws = worker_fns(F)
    if not ws:
        return ctx.anchor_missing('function calling WorkerHandle::steal')
    for f, bi, t in ws:
        # Some edge of the steal result
        dest = t['dest']['l']
        some_targets = []
        for b2 in f.reachable:
            t2 = f.blocks[b2]['term']
            if t2['k'] != 'switch':
                continue
            d = op_local(t2['discr'])
            if d is None:
                continue
            # discr local defined as discr(dest)
            dd = f.whole_defs(d)
            if len(dd) == 1 and dd[0][2] == 'assign' and dd[0][3]['rv']['r'] == 'discr' and dd[0][3]['rv']['p']['l'] == dest:
                for v, tgt in t2['arms']:
                    if v == '1':
                        some_targets.append(tgt)
                if not any(v == '1' for v, _ in t2['arms']):
                    some_targets.append(t2['otherwise'])
        if not some_targets:
            ctx.violation('%s:steal-unbranched' % fn_tag(f), f.loc(bi), 'cannot find the Some/None branch on steal()')
            continue
        send_blocks = {b for b, t3, c3 in f.calls() if c3.is_('Sender::send', 'SyncSender::send')}
        reach = f.reach_from(some_targets, stop=send_blocks)
        rets = [b for b in reach if f.blocks[b]['term']['k'] == 'return']
        # also leaving the steal loop back to another steal without send is fine only via send; a
        # path that reaches the steal call again without a send silently drops the unit
        again = bi in reach
        if not rets and not again:
            ctx.ok('%s:unit-always-answered' % fn_tag(f), f.loc(bi),
                   'every path from the Some edge of steal() reaches Sender::send before exit/next steal '
                   '(%d blocks explored, %d send sites)' % (len(reach), len(send_blocks)))
            continue
        # identify offending exits by the last call before the exit on the send-free path
        exits = {}
        def last_calls(start):
            # DFS over send-free region recording last "notable" call name on each path to return
            stack = [(start, None, frozenset())]
            seen = set()
            while stack:
                b, last, vis = stack.pop()
                if (b, last) in seen or b in send_blocks:
                    continue
                seen.add((b, last))
                tt = f.blocks[b]['term']
                c4 = callee_of(tt)
                if c4:
                    nm = strip_generics(c4['path'])
                    if not any(x in nm for x in ('Deref', 'fetch_', 'Atomic::', 'drop', 'as_slice', 'Option::', 'as_deref')):
                        last = last_seg(nm)
                if tt['k'] == 'return' or (b == bi and again):
                    kind = 'exit' if tt['k'] == 'return' else 'next-steal'
                    exits.setdefault((kind, last), []).append(b)
                    continue
                for s in f.succs(b):
                    stack.append((s, last, vis))
        for st in some_targets:
            last_calls(st)
        for (kind, last), bs in sorted(exits.items(), key=str):
            ctx.violation('%s:%s-without-send-after:%s' % (fn_tag(f), kind, last), f.loc(bs[0]),
                          'a worker that took a unit can leave (%s) after `%s` without posting to the result '
                          'channel; the coordinator holds its own Sender, so its blocking recv() is never woken: '
                          'the caller hangs' % (kind, last))


def coordinator_fns(F):
    """Functions with a blocking Receiver::recv on a field of self."""
    out = {}
    for f in F.fns:
        for bi, t, c in f.calls():
            if c.is_('Receiver::recv'):
                out.setdefault(f.path, (f, []))[1].append((bi, t))
    return list(out.values())


@rule('ERRCHK-BEFORE-BLOCK', ['C09'], floor=8)
def errchk_before_block(ctx):
    """Every blocking recv() in a coordinator is preceded, on every path from the head of its
    enclosing loop, by a read of the shared error store (lock + take) that branches to return."""
    F = ctx.facts
    cs = coordinator_fns(F)
    if not cs:
        return ctx.anchor_missing('function with blocking Receiver::recv')
    for f, recvs in cs:
        prov = Prov(f)
        loops = f.loops()
        errlocks = []
        for bi, t, c in f.calls():
            if c.is_(*LOCK_FNS):
                a = prov.operand(t['args'][0])
                tys = op_place(t['args'][0])
                ty = tys['ty'] if tys else ''
                if 'Error' in ty or 'Error' in (f.local_ty(tys['l']) if tys else ''):
                    errlocks.append(bi)
                else:
                    # resolve the type of the locked mutex through the field type
                    for x in expr_walk(a):
                        if x[0] == 'field' and 'err' in x[2]:
                            errlocks.append(bi)
                            break
        n = 0
        for bi, t in recvs:
            n += 1
            inner = [(h, body) for h, body in loops.items() if bi in body]
            key = '%s:recv#%d' % (f.key, n)
            if not inner:
                ctx.violation(key, f.loc(bi), 'blocking recv outside the coordinator loop')
                continue
            h, body = min(inner, key=lambda x: len(x[1]))
            good = [e for e in errlocks if e in body and f.dominates(e, bi)]
            if good:
                ctx.ok(key, f.loc(bi), 'error-store check at bb%d dominates the recv inside loop bb%d' % (good[0], h))
            else:
                ctx.violation(key, f.loc(bi), 'blocking recv() not preceded by a check of the shared error store '
                              'in its loop: a worker failure is not reported before the coordinator blocks')




@rule('ERRCHK-BEFORE-HANDOUT', ['C09', 'C08'], floor=2)
def errchk_before_handout(ctx):
    """A reader coordinator hands out the units in sequence. A failing worker stores its error and then wakes the
    coordinator with an empty placeholder for its unit, which the coordinator consumes like a result; later units may
    already sit in the reorder buffer. So that nothing behind a failed unit reaches the caller, every hand-out from
    the reorder buffer (`out_of_order_chunks.remove(..)` followed by Ok) must come after the error store has been
    looked at in the same round (the lock+take dominates the removal inside the loop) and must not happen in the
    error state (the removal is control dependent on a test of `self.state`, or the state test returns first).
    Otherwise read() returns Ok(unit k+1) although unit k failed: successful reads with a hole in the data."""
    F = ctx.facts
    cs = [(f, r) for f, r in coordinator_fns(F) if 'reader' in f.file]
    if not cs:
        return ctx.anchor_missing('reader coordinator functions')
    ev_cache = {}
    for f, recvs in cs:
        prov = Prov(f)
        key = '%s:error-store-before-reorder-buffer' % f.key
        removes = [bi for bi, t, c in f.calls() if c.name == 'remove' and 'BTreeMap' in c.path]
        if not removes:
            ctx.violation(key, f.loc(0), 'cannot find the reorder buffer lookup (BTreeMap::remove): anchor lost (fail closed)')
            continue
        errlocks = []
        for bi, t, c in f.calls():
            if c.is_(*LOCK_FNS):
                a = prov.operand(t['args'][0])
                if any(x[0] == 'field' and 'err' in x[2] for x in expr_walk(a)):
                    errlocks.append(bi)
        loops = f.loops()
        bad = None
        for rb in removes:
            inner = [(h, body) for h, body in loops.items() if rb in body]
            if not inner:
                bad = (rb, 'the reorder buffer is consulted outside the coordinator loop')
                break
            h, body = min(inner, key=lambda x: len(x[1]))
            if not any(e in body and f.dominates(e, rb) for e in errlocks):
                bad = (rb, 'the reorder buffer is consulted before the shared error store in the coordinator loop: after a failed unit (whose '
                           'placeholder was consumed like a result) later units that already arrived are handed out before the error is reported')
                break
            ev, sty = _error_variant(F, f)
            state_tested = False
            for sb, pol, cond in guards_of(f, rb, prov):
                pass
            # a switch on discr(self.state) that dominates the removal and whose Error edge does not reach it
            for sb in f.reachable:
                t = f.blocks[sb]['term']
                if t['k'] != 'switch' or not f.dominates(sb, rb) or sb not in body:
                    continue
                dl = op_local(t['discr'])
                dd = f.whole_defs(dl) if dl is not None else []
                if len(dd) == 1 and dd[0][2] == 'assign' and dd[0][3]['rv']['r'] == 'discr':
                    pl = dd[0][3]['rv']['p']
                    if pl['l'] == 1 and 'State' in pl['ty'] and ev is not None:
                        arms = {int(a[0]): a[1] for a in t['arms']}
                        etgt = _follow_known_bools(f, arms.get(ev, t['otherwise']))
                        if rb not in f.reach_from([etgt], stop={h}):
                            state_tested = True
            if not state_tested:
                bad = (rb, 'units are taken from the reorder buffer also in the error state: after the error has been reported once, the next read() '
                           'hands out the units behind the failed one')
                break
        if bad:
            ctx.violation(key, f.loc(bad[0]), bad[1])
        else:
            ctx.ok(key, f.loc(removes[0]), 'the error store is read before the reorder buffer in every round, and not in the error state')


@rule('CV-NOTIFY', ['C10'], floor=2)
def cv_notify(ctx):
    """Every change of a condvar predicate is announced: after a store to a predicate atomic (e.g.
    `closed`) every path to the function's return passes notify_all on the paired condvar (all
    waiters must re-test), and after an item is pushed into the guarded queue every path passes
    notify_one/notify_all."""
    F = ctx.facts
    sites = list(wait_sites(F))
    if not sites:
        return ctx.anchor_missing('Condvar::wait call site')
    for f, bi, t, c in sites:
        prov = Prov(f)
        cv = outer_field(prov.operand(t['args'][0]))
        ls = LockSets(f)
        gl = op_local(t['args'][1]) if len(t['args']) > 1 else None
        mutex = ls.at_term.get(bi, {}).get(gl, (None, None))[1]
        if cv is None or mutex is None:
            continue
        loops = [(h, body) for h, body in f.loops().items() if bi in body]
        if not loops:
            continue
        h, body = min(loops, key=lambda x: len(x[1]))
        preds = set()
        for b2 in body:
            c2 = callee_of(f.blocks[b2]['term'])
            if c2 and Callee(c2).is_(*ATOMIC_READS):
                fld = outer_field(prov.operand(f.blocks[b2]['term']['args'][0]))
                if fld:
                    preds.add(fld)
        for g in F.fns:
            pg = None
            for b3, t3, c3 in g.calls():
                kind = None
                if c3.is_(*ATOMIC_WRITES):
                    pg = pg or Prov(g)
                    if outer_field(pg.operand(t3['args'][0])) in preds:
                        kind = 'flag'
                elif c3.is_('VecDeque::push_back', 'VecDeque::push_front', 'VecDeque::extend'):
                    lsg = LockSets(g)
                    if mutex in lsg.held_at_term(b3):
                        kind = 'item'
                if not kind:
                    continue
                want = ('Condvar::notify_all',) if kind == 'flag' else ('Condvar::notify_all', 'Condvar::notify_one')
                pg = pg or Prov(g)
                nb = {b for b, tt, cc in g.calls() if cc.is_(*want) and outer_field(pg.operand(tt['args'][0])) == cv}
                region = g.reach_from(g.succs(b3), stop=nb)
                leaks = [b for b in region if g.blocks[b]['term']['k'] == 'return']
                key = '%s:%s-change-notified' % (g.key, kind)
                if nb and not leaks:
                    ctx.ok(key, g.loc(b3), 'every path from the %s change to return passes %s on %s.%s' % (kind, '/'.join(last_seg(w) for w in want), cv[0], cv[1]))
                else:
                    ctx.violation(key, g.loc(b3), 'a %s change that waiters in %s test is not followed by %s on every path: workers '
                                  'already waiting on the condvar are never woken and block forever' % (
                                      'closed-flag' if kind == 'flag' else 'queue', f.key, ' or '.join(last_seg(w) for w in want)))


def _error_variant(F, f):
    """Index of the state variant whose match arm returns Err without blocking (the 'Error' state)."""
    prov = Prov(f)
    for sb in f.reachable:
        t = f.blocks[sb]['term']
        if t['k'] != 'switch':
            continue
        dl = op_local(t['discr'])
        if dl is None:
            continue
        dd = f.whole_defs(dl)
        if len(dd) != 1 or dd[0][2] != 'assign' or dd[0][3]['rv']['r'] != 'discr':
            continue
        p = dd[0][3]['rv']['p']
        if not (p['l'] == 1 and 'State' in p['ty']):
            continue
        for v, tgt in t['arms']:
            region = {b for b in f.reach_from([tgt]) if f.dominates(tgt, b)}
            has_recv = any((callee_of(f.blocks[b]['term']) or {}).get('name') in ('recv', 'try_recv') for b in region)
            has_err = any(s['k'] == 'assign' and s['lhs']['l'] == 0 and s['rv']['r'] == 'agg' and s['rv'].get('variant_name') == 'Err'
                          for b in region for s in f.blocks[b]['stmts'])
            has_ok = any(s['k'] == 'assign' and s['lhs']['l'] == 0 and s['rv']['r'] == 'agg' and s['rv'].get('variant_name') == 'Ok'
                         for b in region for s in f.blocks[b]['stmts'])
            if has_err and not has_recv and not has_ok:
                return int(v), last_seg(p['ty'])
    return None, None


@rule('ERR-STICKY', ['C09'], floor=4)
def err_sticky(ctx):
    """A worker failure stays reported: when a coordinator takes the error out of the shared store
    and returns it, it first moves its own state to the error state, so that later calls fail at
    once instead of dispatching to dead workers and blocking in recv()."""
    F = ctx.facts
    cs = coordinator_fns(F)
    if not cs:
        return ctx.anchor_missing('coordinator functions')
    for f, recvs in cs:
        ev, sty = _error_variant(F, f)
        if ev is None:
            ctx.violation('%s:no-error-state' % f.key, f.loc(0), 'cannot find a non-blocking error state arm (fail closed)')
            continue
        prov = Prov(f)
        loops = f.loops()
        for bi, t, c in f.calls():
            if not c.is_('Option::take'):
                continue
            # only the loop-top check: a take whose Some edge returns Err(payload)
            inner = [(h, b) for h, b in loops.items() if bi in b]
            if not inner:
                continue
            dest = t['dest']['l']
            some_t = []
            for sb in f.reachable:
                tt = f.blocks[sb]['term']
                if tt['k'] != 'switch':
                    continue
                dl = op_local(tt['discr'])
                dd = f.whole_defs(dl) if dl is not None else []
                if len(dd) == 1 and dd[0][2] == 'assign' and dd[0][3]['rv']['r'] == 'discr' and dd[0][3]['rv']['p']['l'] == dest:
                    for v, tgt in tt['arms']:
                        if v == '1':
                            some_t.append(tgt)
            if not some_t:
                continue
            # stores of the error variant to self.state
            errst = set()
            adt = [a for p, a in F.adts.items() if last_seg(p) == sty and a['kind'] == 'enum' and p.rsplit('::', 1)[0] in f.path]
            vname = None
            for a in adt or [a for p, a in F.adts.items() if last_seg(p) == sty]:
                for v in a['variants']:
                    if v['idx'] == ev:
                        vname = v['name']
            for b2, si, name, rv in self_field_stores(f):
                e = prov.rvalue(rv, 0, '%d:%d' % (b2, si))
                if e[0] == 'agg' and str(e[1]) == 'adt:%s::%s' % (sty, vname):
                    errst.add(b2)
            region = f.reach_from(some_t, stop=errst)
            leaks = [b for b in region if f.blocks[b]['term']['k'] == 'return']
            key = '%s:taken-error-is-sticky' % f.key
            if errst and not leaks:
                ctx.ok(key, f.loc(bi), 'the Some edge of error_store.take() sets the error state before returning Err')
            else:
                ctx.violation(key, f.loc(bi), 'the error taken from the shared store is returned without moving the coordinator to '
                              'its error state: the next call finds an empty store and a live state, dispatches to dead workers '
                              'and blocks in recv() forever')
            break


from rules.units import self_field_stores  # noqa: E402


@rule('EOF-MEANS-END', ['C09', 'C05'], floor=4)
def eof_means_end(ctx):
    """A reader that pulls from successive units never forwards a unit's zero count as its own
    result: `Ok(n)` with n the count of the current unit's read is only returned under n > 0 (a zero
    would tell the caller the stream ended while later units or a stored error are pending)."""
    from rules.io import is_trait_call, READ_TRAITS, value_closure
    F = ctx.facts
    n_inst = 0
    for adt in ('LZMA2ReaderMT', 'LZIPReaderMT', 'LZIPReader', 'XZReader'):
        fs = [f for f in F.fns if f.self_adt and last_seg(f.self_adt) == adt and f.impl and last_seg(f.impl.get('trait')) == 'Read' and f.name == 'read']
        if not fs:
            ctx.anchor_missing('<%s as Read>::read' % adt)
            continue
        from rules.io import effective_read
        f = effective_read(F, fs[0])
        prov = Prov(f)
        for rb, rt, rc in f.calls():
            if not is_trait_call(rc, READ_TRAITS, 'read') or rt['dest']['p']:
                continue
            recv = prov.operand(rt['args'][0], 0, '%d:T' % rb)
            if recv[0] == 'param':
                continue  # recursion on self: not a unit read
            clo = value_closure(f, {rt['dest']['l']})
            nl = {l for l in clo if f.local_ty(l) == 'usize'}
            tail = 0 in clo  # the Result itself is returned
            n_inst += 1
            key = '%s:zero-count-not-forwarded' % f.key
            if tail:
                ctx.violation(key, f.loc(rb), 'the result of the current unit\'s read is returned as is: a zero count (unit '
                              'exhausted, or an empty placeholder posted by a failing worker) reaches the caller as end of '
                              'stream although more units or a stored error are pending')
                continue
            bad = None
            for bi, b in enumerate(f.blocks):
                if b['cleanup']:
                    continue
                for si, s in enumerate(b['stmts']):
                    if s['k'] != 'assign' or s['lhs']['l'] != 0 or s['rv']['r'] != 'agg' or s['rv'].get('variant_name') != 'Ok':
                        continue
                    ol = op_local(s['rv']['ops'][0])
                    pl = op_place(s['rv']['ops'][0])
                    if ol not in nl and not (pl and pl['l'] in clo and pl['p']):
                        continue
                    # guarded by n > 0 / n != 0 / non-zero arm of a switch on n
                    good = False
                    for sblk, pol, cond in guards_of(f, bi, prov):
                        nc = norm_cmp(cond, pol) if cond[0] in ('bin', 'un') else None
                        if nc and nc[0] in ('Lt', 'Ne') and any(x[0] == 'const' and x[2] == 0 for x in (nc[1], nc[2])):
                            good = True
                    # match arm on the payload: reached via a non-zero arm
                    for sb in f.reachable:
                        tt = f.blocks[sb]['term']
                        if tt['k'] == 'switch':
                            p = op_place(tt['discr'])
                            if p is not None and p['l'] in clo and p['ty'] == 'usize' and any(a[0] == '0' for a in tt['arms']):
                                zero_t = [a[1] for a in tt['arms'] if a[0] == '0'][0]
                                from lzlint.core import reachable_without_edge
                                if not reachable_without_edge(f, bi, (sb, tt['otherwise'])) and tt['otherwise'] != zero_t:
                                    good = True
                    if not good:
                        bad = (bi, si)
            if bad:
                ctx.violation(key, f.loc(*bad), 'a count that may be zero is returned from a unit read without a `> 0` guard')
            else:
                ctx.ok(key, f.loc(rb), 'the unit read count is only returned under n > 0; zero falls through to the next unit / end handling')
    if n_inst == 0:
        ctx.anchor_missing('unit reads in container/MT readers')


@rule('SINK-ERR-STICKY', ['C09', 'C05'], floor=2)
def sink_err_sticky(ctx):
    """In a multi-threaded writer a compressed unit is taken out of the reorder buffer (and the sequence counter
    advanced) before it is written to the sink; if that write fails the unit is gone. The failure must
    therefore be sticky: on the Err edge of every sink write made through `&mut self` the writer's state is
    moved to its error state before the error is returned, so that a later finish()/flush()/write() fails
    instead of completing a stream with the unit missing."""
    from rules.io import is_trait_call, WRITE_TRAITS, value_closure
    F = ctx.facts
    cs = coordinator_fns(F)
    n = 0
    for cf, _ in cs:
        adt = cf.self_adt
        if not adt or not any(g.self_adt == adt and g.impl and last_seg(g.impl.get('trait')) == 'Write' for g in F.fns):
            continue
        ev, sty = _error_variant(F, cf)
        if ev is None:
            ctx.violation('%s:no-error-state' % cf.key, cf.loc(0), 'cannot find the writer\'s error state (fail closed)')
            continue
        vname = None
        for p, a in F.adts.items():
            if last_seg(p) == sty and a['kind'] == 'enum' and p.rsplit('::', 1)[0] in cf.path:
                for v in a['variants']:
                    if v['idx'] == ev:
                        vname = v['name']
        for f in F.fns:
            if f.self_adt != adt or f.kind == 'closure':
                continue
            if not (f.arg_count >= 1 and f.local_ty(1).startswith('&mut')):
                continue   # by-value self (finish): the writer is consumed, nothing can be called afterwards
            prov = None
            cnt = 0
            for bi, t, c in f.calls():
                if not any(is_trait_call(c, WRITE_TRAITS, nm) for nm in ('write', 'write_all', 'flush')) or not t['args']:
                    continue
                prov = prov or Prov(f)
                recv = prov.operand(t['args'][0], 0, '%d:T' % bi)
                if not any(x[0] == 'field' and self_field_of(x) for x in expr_walk(recv)):
                    continue
                if c.name == 'flush':
                    continue   # nothing has been consumed by a flush
                n += 1
                cnt += 1
                key = '%s:sink-%s%s' % (f.key, c.name, '' if cnt == 1 else '#%d' % cnt)
                holders = value_closure(f, {t['dest']['l']})
                err_targets = []
                for s in f.reachable:
                    tt = f.blocks[s]['term']
                    if tt['k'] != 'switch':
                        continue
                    dl = op_local(tt['discr'])
                    dd = f.whole_defs(dl) if dl is not None else []
                    if len(dd) == 1 and dd[0][2] == 'assign' and dd[0][3]['rv']['r'] == 'discr':
                        dp = dd[0][3]['rv']['p']
                        hit = dp['l'] in holders and not dp['p']
                        if not hit and dp['p'] == ['*']:
                            # `if let Err(e) = &result`: the discriminant is read through a reference to the Result
                            for (rb, rs, rk, rnode) in f.whole_defs(dp['l']):
                                if rk == 'assign' and rnode['rv']['r'] == 'ref' and rnode['rv']['p']['l'] in holders and not rnode['rv']['p']['p']:
                                    hit = True
                        if hit:
                            for a in tt['arms']:
                                if int(a[0]) == 1:
                                    err_targets.append(a[1])
                if not err_targets:
                    # the Result is returned as it is (tail call): the caller's arm is checked there
                    if 0 in holders:
                        ctx.info(key + ':returned', f.loc(bi), 'Result returned unchanged')
                        n -= 1
                        continue
                    ctx.violation(key, f.loc(bi), 'cannot find the Err edge of the sink write (fail closed)')
                    continue
                errst = set()
                for b2, si, name, rv in self_field_stores(f):
                    e = prov.rvalue(rv, 0, '%d:%d' % (b2, si))
                    if e[0] == 'agg' and str(e[1]) == 'adt:%s::%s' % (sty, vname):
                        errst.add(b2)
                region = f.reach_from(err_targets, stop=errst)
                leaks = [b for b in region if f.blocks[b]['term']['k'] == 'return']
                if leaks:
                    ctx.violation(key, f.loc(bi), 'a failed write of a compressed unit to the sink is returned without moving the writer to '
                                  'its error state (%s::%s): the unit has already been removed from the reorder buffer, a later finish() '
                                  'completes the stream without it and reports success' % (sty, vname))
                else:
                    ctx.ok(key, f.loc(bi), 'the Err edge sets %s::%s before returning' % (sty, vname))
    if n == 0:
        ctx.anchor_missing('sink writes in the multi-threaded writers')


def _follow_known_bools(f, start):
    """Follow an edge through the `matches!` idiom: blocks that only set bool temporaries to constants (or negate
    a known one) and then switch on such a temporary. Returns the first block whose continuation is not decided
    by those constants."""
    from lzlint.core import op_const
    env = {}
    b = start
    for _ in range(12):
        blk = f.blocks[b]
        ok = True
        for st in blk['stmts']:
            if st['k'] != 'assign' or st['lhs']['p']:
                ok = False
                break
            rv = st['rv']
            if rv['r'] == 'use' and op_const(rv['o']) is not None and f.locals[st['lhs']['l']]['ty'] in ('bool', '()'):
                v = op_const(rv['o']).get('v')
                if f.locals[st['lhs']['l']]['ty'] == 'bool':
                    env[st['lhs']['l']] = bool(v)
                continue
            if rv['r'] == 'use' and op_local(rv['o']) in env:
                env[st['lhs']['l']] = env[op_local(rv['o'])]
                continue
            if rv['r'] == 'un' and rv.get('op') == 'Not' and op_local(rv['o']) in env:
                env[st['lhs']['l']] = not env[op_local(rv['o'])]
                continue
            ok = False
            break
        if not ok:
            return b
        t = blk['term']
        if t['k'] == 'goto':
            b = t['target']
            continue
        if t['k'] == 'switch' and op_local(t['discr']) in env:
            val = 1 if env[op_local(t['discr'])] else 0
            arms = {int(a[0]): a[1] for a in t['arms']}
            b = arms.get(val, t['otherwise'])
            continue
        return b
    return b


@rule('ERR-STATE-ENTRY', ['C09', 'C05'], floor=6)
def err_state_entry(ctx):
    """Once a multi-threaded writer is in its error state (a unit was lost: failed sink write, failed worker) no
    `&mut self` entry point of the Write implementation may report success again: `write` and `flush` test the
    state before anything else can return Ok - a switch on `self.state` dominates every exit that can carry Ok, and
    its Error edge leads only to Err returns; finish() likewise (the one-shot error store is not a substitute: the
    call that reported the error has emptied it). Without the test a second flush() finds no sequence number left to wait for and returns
    Ok(()) with a hole in the output."""
    from rules.errors import _only_err_returns_from
    from lzlint.core import op_const
    F = ctx.facts
    cs = coordinator_fns(F)
    n = 0
    seen = set()
    for cf, _ in cs:
        adt = cf.self_adt
        if not adt or adt in seen:
            continue
        seen.add(adt)
        entries = [g for g in F.fns if g.self_adt == adt and g.impl and last_seg(g.impl.get('trait')) == 'Write' and g.name in ('write', 'flush')]
        if entries:
            entries += [g for g in F.fns if g.self_adt == adt and g.name == 'finish' and g.kind != 'closure' and not (g.impl and g.impl.get('trait'))]
        if not entries:
            continue
        ev, sty = _error_variant(F, cf)
        if ev is None:
            ctx.violation('%s:no-error-state' % cf.key, cf.loc(0), 'cannot find the writer\'s error state (fail closed)')
            continue
        for f in entries:
            n += 1
            key = '%s:fails-in-error-state' % f.key
            # exits that can carry Ok: `_0 = Ok(..)` and calls whose result is written to _0 (tail calls)
            okx = set()
            for b in f.reachable:
                blk = f.blocks[b]
                if blk['cleanup']:
                    continue
                for st in blk['stmts']:
                    if st['k'] == 'assign' and st['lhs']['l'] == 0 and not st['lhs']['p'] and st['rv']['r'] == 'agg' and st['rv'].get('variant_name') == 'Ok':
                        okx.add(b)
                t = blk['term']
                if t['k'] == 'call' and t['dest']['l'] == 0 and not t['dest']['p']:
                    c = callee_of(t)
                    if not (c and strip_generics(c['path']).endswith('from_residual')):
                        okx.add(b)
            # switches on self.state
            guards = []
            for sb in f.reachable:
                t = f.blocks[sb]['term']
                if t['k'] != 'switch':
                    continue
                dl = op_local(t['discr'])
                dd = f.whole_defs(dl) if dl is not None else []
                if len(dd) != 1 or dd[0][2] != 'assign' or dd[0][3]['rv']['r'] != 'discr':
                    continue
                pl = dd[0][3]['rv']['p']
                if not (pl['l'] == 1 and 'State' in pl['ty']):
                    continue
                arms = {int(a[0]): a[1] for a in t['arms']}
                etgt = _follow_known_bools(f, arms.get(ev, t['otherwise']))
                if _only_err_returns_from(f, etgt):
                    guards.append(sb)
            # an exit that can carry Ok for an input-independent reason (empty buffer) before the test is fine only if it is
            # the `buf.is_empty()` shortcut: a zero-length write reports nothing about the stream
            bad = []
            for b in sorted(okx):
                if any(f.dominates(g, b) for g in guards):
                    continue
                st_ok = [st for st in f.blocks[b]['stmts'] if st['k'] == 'assign' and st['lhs']['l'] == 0 and st['rv']['r'] == 'agg']
                if st_ok and all(op_const(st['rv']['ops'][0]) is not None and (op_const(st['rv']['ops'][0]) or {}).get('v') == 0 for st in st_ok):
                    continue   # Ok(0): the empty-write shortcut
                bad.append(b)
            if bad:
                ctx.violation(key, f.loc(bad[0]), 'can return Ok without having tested the writer\'s state against %s (variant %d): after a lost unit '
                              'this call reports success although the output has a hole' % (sty, ev))
            else:
                ctx.ok(key, f.loc(guards[0]) if guards else f.loc(0), 'every exit that can carry Ok (%d) is dominated by a test of self.state whose error edge only returns Err' % len(okx))
    if not n:
        ctx.anchor_missing('Write::write / Write::flush of the multi-threaded writers')


@rule('PANIC-WAKE', ['C09', 'C10'], floor=4)
def panic_wake(ctx):
    """A worker that unwinds while it holds a work unit still wakes its coordinator: before any crate code is
    called on the unit, the worker creates a guard value whose Drop implementation posts to the result
    channel (the coordinator keeps a sender of its own, so a dead worker never disconnects the channel; the
    only thing that ends a blocked recv() is a message)."""
    F = ctx.facts
    ws = worker_fns(F)
    if not ws:
        return ctx.anchor_missing('function calling WorkerHandle::steal')
    # guard types: ADTs with a Drop impl whose drop (transitively, two levels) calls Sender::send
    guards = set()
    for f in F.fns:
        if f.impl and last_seg(f.impl.get('trait')) == 'Drop' and f.name == 'drop' and f.self_adt:
            sends = any(c.is_('Sender::send') for _, _, c in f.calls())
            if sends:
                guards.add(f.self_adt)
    for f, sb, st in ws:
        key = '%s:guard-before-unit-work' % fn_tag(f)
        gblocks = [bi for bi, b in enumerate(f.blocks) if not b['cleanup'] for s in b['stmts']
                   if s['k'] == 'assign' and s['rv']['r'] == 'agg' and s['rv'].get('adt') in guards]
        if not gblocks:
            ctx.violation(key, f.loc(sb), 'no guard that posts to the result channel when the worker unwinds: a panic while a unit is processed '
                          '(e.g. in the encoder on unvalidated options) leaves the coordinator blocked in recv() forever')
            continue
        gb = gblocks[0]
        # calls into the crate made in the loop after the steal must be dominated by the guard's creation
        loops = [body for h, body in f.loops().items() if sb in body]
        body = min(loops, key=len) if loops else set(f.reachable)
        late = []
        for bi, t, c in f.calls():
            if bi not in body or bi == sb or f.blocks[bi]['cleanup']:
                continue
            if c.is_('WorkerHandle::steal') or not (c.local or (c.resolved and c.d.get('resolved_local'))):
                continue
            if c.name in ('set_error',):
                continue
            if not f.dominates(gb, bi):
                late.append(bi)
        if late:
            ctx.violation(key, f.loc(late[0]), 'crate code runs on the stolen unit at %s before the unwinding guard exists' % f.loc(late[0]))
        else:
            ctx.ok(key, f.loc(gb), 'guard %s created before any unit work; its Drop posts to the result channel' % last_seg(
                [s['rv']['adt'] for s in f.blocks[gb]['stmts'] if s['k'] == 'assign' and s['rv']['r'] == 'agg' and s['rv'].get('adt') in guards][0]))


# --------------------------------------------------------------------------- UNIT-EXACT

@rule('UNIT-EXACT', ['C04', 'C08'], floor=1)
def unit_exact(ctx):
    """LZIPReaderMT cuts its work units by the member sizes found in the trailers and lets a worker decode each unit with
    the single-threaded reader - which accepts anything after a complete member as trailing data and ends with success.
    Inside a unit there is no such thing as trailing data: the worker has to check that the member it decoded fills
    the unit (what is left of the unit's bytes after decoding is empty), otherwise a damaged member that an edited
    member size has pulled into its predecessor's unit silently drops out of the middle of the file (Ok with a hole).
    Structure required in the LZIP reader worker: the decoder's source is taken back (`into_inner`) after
    `read_to_end`, tested with `is_empty`, and the non-empty edge reaches the error path (set_error), not the send of
    the result."""
    F = ctx.facts
    ws = [(f, sb, st) for f, sb, st in worker_fns(F) if f.file == 'src/lzip/reader_mt.rs']
    if not ws:
        return ctx.anchor_missing('worker function of LZIPReaderMT')
    for f, sb, st in ws:
        key = '%s:member-fills-its-unit' % fn_tag(f)
        cands = [f] + [g for g in F.closures_of(f)] if hasattr(F, 'closures_of') else [f]
        ok = False
        for g in cands:
            pg = Prov(g)
            for bi, t, c in g.calls():
                if c.name != 'is_empty' or not t['args']:
                    continue
                a = pg.operand(t['args'][0], 0, '%d:T' % bi)
                if not any(x[0] == 'call' and last_seg(x[1]) == 'into_inner' and 'LZIPReader' in x[1] for x in expr_walk(a)):
                    continue
                # the result decides between Ok and Err
                nb = t.get('target')
                if nb is not None and g.blocks[nb]['term']['k'] == 'switch':
                    se = switch_edges(g, nb)
                    if se:
                        nonempty = se[0]
                        region = g.reach_from([nonempty], stop={se[1]})
                        if any(s['k'] == 'assign' and s['rv']['r'] == 'agg' and s['rv'].get('variant_name') == 'Err'
                               for b in region for s in g.blocks[b]['stmts']):
                            ok = True
        if ok:
            ctx.ok(key, f.loc(sb), 'what is left of the unit after decoding is tested with is_empty(); a non-empty rest is an error')
        else:
            ctx.violation(key, f.loc(sb), 'the worker never checks that the decoded member fills its unit: bytes after the member inside the unit (a damaged '
                          'member pulled in by an edited member size) are taken for trailing data and dropped; the reader returns Ok with a hole')


# --------------------------------------------------------------------------- ERR-RETURN-STICKY

@rule('ERR-RETURN-STICKY', ['C09', 'C05', 'C08'], floor=2)
def err_return_sticky(ctx):
    """A reader coordinator that returns an error has stopped in the middle of something (a half-read chunk, a unit
    that was dispatched and lost, a source at an unknown position): the next call must not carry on from there. Every
    `Err` the coordinator builds inside its loop is therefore either built in the error state's own arm, or preceded
    on its path by a store of the error state into `self.state`. An `Err` returned from any other state leaves the
    reader live; the next read() resumes parsing in the middle of a chunk and can hand out wrong bytes with Ok."""
    F = ctx.facts
    cs = [(f, r) for f, r in coordinator_fns(F) if 'reader' in f.file]
    if not cs:
        return ctx.anchor_missing('reader coordinator functions')
    for f, recvs in cs:
        key = '%s:every-Err-leaves-the-error-state-behind' % f.key
        ev, sty = _error_variant(F, f)
        if ev is None:
            ctx.violation(key, f.loc(0), 'cannot find the error state (fail closed)')
            continue
        prov = Prov(f)
        vname = None
        for p, a in F.adts.items():
            if last_seg(p) == sty and a['kind'] == 'enum' and p.rsplit('::', 1)[0] in f.path:
                for v in a['variants']:
                    if v['idx'] == ev:
                        vname = v['name']
        errst = set()
        for b2, si, name, rv in self_field_stores(f):
            e = prov.rvalue(rv, 0, '%d:%d' % (b2, si))
            if e[0] == 'agg' and str(e[1]) == 'adt:%s::%s' % (sty, vname):
                errst.add(b2)
        # the error state's own arm(s)
        arm_region = set()
        for sb in f.reachable:
            t = f.blocks[sb]['term']
            if t['k'] != 'switch':
                continue
            dl = op_local(t['discr'])
            dd = f.whole_defs(dl) if dl is not None else []
            if len(dd) == 1 and dd[0][2] == 'assign' and dd[0][3]['rv']['r'] == 'discr' and dd[0][3]['rv']['p']['l'] == 1 and \
                    'State' in dd[0][3]['rv']['p']['ty']:
                arms = {int(a[0]): a[1] for a in t['arms']}
                tgt = arms.get(ev)
                if tgt is not None:
                    arm_region |= {b for b in f.reach_from([tgt]) if f.dominates(tgt, b)}
        errs = [b for b in sorted(f.reachable) if not f.blocks[b]['cleanup'] for s in f.blocks[b]['stmts']
                if s['k'] == 'assign' and s['lhs']['l'] == 0 and not s['lhs']['p'] and s['rv']['r'] == 'agg' and s['rv'].get('variant_name') == 'Err']
        # `?` exits
        errs += [b for b, t, c in f.calls() if strip_generics(c.path).endswith('from_residual') and t['dest']['l'] == 0]
        bad = None
        free = f.reach_from([0], stop=errst)
        for b in errs:
            if b in arm_region:
                continue
            if b in free and b not in errst:
                bad = b
                break
        if bad is not None:
            ctx.violation(key, f.loc(bad), 'an Err is returned at %s without the reader having been moved to its error state (%s::%s): the next read() carries on '
                          'from the middle of whatever was interrupted (a half-read chunk with a zero-filled payload decodes "successfully")' % (f.loc(bad), sty, vname))
        else:
            ctx.ok(key, f.loc(0), '%d Err exit(s): each in the error arm or behind a store of %s::%s' % (len(errs), sty, vname))


# --------------------------------------------------------------------------- WAIT-TARGET (C09) - round 12
from lzlint.core import field_path, self_field_of, switch_edges, norm_cmp  # noqa: E402

def _incremented_fields(f, prov):
    out = set()
    for bi, b in enumerate(f.blocks):
        if b['cleanup']:
            continue
        for si, s in enumerate(b['stmts']):
            if s['k'] == 'assign' and s['lhs']['l'] == 1 and s['lhs']['p']:
                fp = field_path(s['lhs'])
                if not fp or len(fp) != 1:
                    continue
                e = prov.rvalue(s['rv'], 0, '%d:%d' % (bi, si))
                if e[0] == 'field' and e[2] == '0':
                    e = e[1]
                if e[0] == 'bin' and e[1].startswith('Add') and self_field_of(e[2]) == (fp[0],) and e[3][0] == 'const' and e[3][2] == 1:
                    out.add(fp[0])
    return out


@rule('WAIT-TARGET', ['C09'], floor=2)
def wait_target(ctx):
    """`flush` of a multi-threaded writer waits until everything dispatched so far has been written: a loop that calls the
    blocking drain while `written < target`. The loop can only end if the target is a number of units that really were
    dispatched: the continue condition, normalised, is `written - D <= -1` where D is a value of the dispatch counter
    (the field the dispatching method increments next to WorkStealingQueue::push) and `written` the counter the drain
    increments. `written <= D` (or a target of D + k) waits for a sequence number that nobody holds; with an empty partial
    buffer (input ending on a unit boundary, two flushes in a row) nothing is dispatched to make it true, the drain blocks
    in recv() and - the coordinator keeping a Sender of its own - is never woken."""
    F = ctx.facts
    n = 0
    for adt in sorted({f.self_adt for f in F.fns if f.self_adt and f.kind != 'closure' and
                       any(c.is_('WorkStealingQueue::push') for _, _, c in f.calls())}):
        if 'Writer' not in last_seg(adt):
            continue
        ms = [f for f in F.fns if f.self_adt == adt and f.kind != 'closure']
        disp = set()
        drain_fns = set()
        written = set()
        for f in ms:
            prov = Prov(f)
            if any(c.is_('WorkStealingQueue::push') for _, _, c in f.calls()):
                disp |= _incremented_fields(f, prov)
            if any(c.name in ('recv', 'try_recv') for _, _, c in f.calls()):
                drain_fns.add(f.path)
                written |= _incremented_fields(f, prov)
        written -= disp
        if not disp or not written:
            ctx.anchor_missing('%s: dispatch counter / written counter' % last_seg(adt))
            continue
        for f in ms:
            loops = f.loops()
            if not loops:
                continue
            prov = Prov(f)
            for h, body in loops.items():
                if not any(any(g.path in drain_fns for g in F.resolve_callee(c)) for bi, t, c in f.calls() if bi in body):
                    continue
                # the loop's continue condition: a switch in the body with one edge leaving the loop, comparing a written counter
                for sb in sorted(body):
                    e = switch_edges(f, sb)
                    if e is None or (e[0] in body) == (e[1] in body):
                        continue
                    cond = prov.operand(f.blocks[sb]['term']['discr'], 0, '%d:T' % sb)
                    stay = e[1] in body
                    nc = norm_cmp(cond, stay) if cond[0] in ('bin', 'un') else None
                    if not nc or not any(self_field_of(x) and self_field_of(x)[0] in written for x in expr_walk(cond) if x[0] == 'field'):
                        continue
                    n += 1
                    key = '%s:waits-only-for-dispatched-units' % f.key
                    # linear form over {W (written counter), D (dispatch counter)}
                    def lin(x):
                        while x[0] == 'cast' or (x[0] == 'field' and x[1][0] == 'bin' and x[2] == '0'):
                            x = x[2] if x[0] == 'cast' else x[1]
                        if x[0] == 'const' and isinstance(x[2], int):
                            return {1: x[2]}
                        sf = self_field_of(x)
                        if sf and len(sf) == 1 and sf[0] in written:
                            return {'W': 1}
                        if sf and len(sf) == 1 and sf[0] in disp:
                            return {'D': 1}
                        if x[0] == 'bin' and x[1].replace('WithOverflow', '') in ('Add', 'Sub'):
                            a, b = lin(x[2]), lin(x[3])
                            if a is None or b is None:
                                return None
                            sg = 1 if x[1].startswith('Add') else -1
                            o = dict(a)
                            for k, v in b.items():
                                o[k] = o.get(k, 0) + sg * v
                            return o
                        return None
                    la, lb = lin(nc[1]), lin(nc[2])
                    ok = False
                    if la is not None and lb is not None and nc[0] in ('Lt', 'Le'):
                        d = dict(la)
                        for k, v in lb.items():
                            d[k] = d.get(k, 0) - v
                        bound = (-1 if nc[0] == 'Lt' else 0) - d.get(1, 0)
                        ok = d.get('W', 0) == 1 and d.get('D', 0) == -1 and bound <= -1
                    if ok:
                        ctx.ok(key, f.loc(sb), 'the drain loop continues while written < (a value of) the dispatch counter')
                    else:
                        ctx.violation(key, f.loc(sb), 'the blocking drain loop continues while %s: that is not `written < dispatched` - it can wait for a '
                                      'sequence number no unit carries (nothing buffered at flush time), and recv() never returns' % expr_str(cond)[:90])
    if n == 0:
        ctx.anchor_missing('a drain loop bounded by the dispatch counter in a multi-threaded writer')
