"""C11 (clause level): structural necessary conditions for "the BCJ / Delta filters are exact inverses".
What is decided is the shape of the encoder/decoder twins, not the numeric identity."""
import re

from lzlint.core import *
from lzlint.framework import rule


def _mirror(s):
    return s.replace('wrapping_add', '\x00').replace('wrapping_sub', 'wrapping_add').replace('\x00', 'wrapping_sub')


@rule('FILTER-INVERSE', ['C11'], floor=18)
def filter_inverse(ctx):
    """(a) In every branch converter, where the code forks on `is_encoder` and both arms define the same
    variable, the two definitions are mirror images: identical operands, `wrapping_add` on the encoder side
    where the decoder has `wrapping_sub` (absolute = relative + position, relative = absolute - position).
    (b) The delta coder's two directions read the history at the same index, add resp. subtract that byte, and
    both store the *unfiltered* byte into the history. (c) Every BCJWriter constructor builds the filter
    with is_encoder = true and the BCJReader constructor of the same architecture with false, from the same
    BCJFilter constructor."""
    F = ctx.facts
    n = 0
    # (a)
    for f in F.fns:
        if not f.file.startswith('src/filter/bcj/') or f.kind == 'closure':
            continue
        prov = Prov(f)
        for s in f.reachable:
            t = f.blocks[s]['term']
            if t['k'] != 'switch':
                continue
            cond = prov.operand(t['discr'], 0, '%d:T' % s)
            if not (cond[0] == 'field' and cond[2] == 'is_encoder'):
                continue
            e = switch_edges(f, s)
            if e is None:
                continue
            res = {}
            for side, tgt in (('dec', e[0]), ('enc', e[1])):
                region = {b for b in f.reach_from([tgt]) if f.dominates(tgt, b)}
                for b in sorted(region):
                    for si, st in enumerate(f.blocks[b]['stmts']):
                        if st['k'] == 'assign' and not st['lhs']['p'] and f.locals[st['lhs']['l']].get('name'):
                            res.setdefault(st['lhs']['l'], {}).setdefault(side, []).append(expr_str(prov.rvalue(st['rv'], 0, '%d:%d' % (b, si))))
                    tt = f.blocks[b]['term']
                    if tt['k'] == 'call' and not tt['dest']['p'] and f.locals[tt['dest']['l']].get('name'):
                        c = callee_of(tt)
                        res.setdefault(tt['dest']['l'], {}).setdefault(side, []).append(
                            expr_str(('call', strip_generics(c['path']) if c else '?', [prov.operand(a, 0, '%d:T' % b) for a in tt['args']], tt)))
            both = {l: d for l, d in res.items() if 'enc' in d and 'dec' in d and len(d['enc']) == 1 and len(d['dec']) == 1}
            if not both:
                ctx.info('%s:fork@%s' % (f.key, f.loc(s)), f.loc(s), 'encoder and decoder arms are structurally different here (not decided)')
                continue
            for l, d in both.items():
                n += 1
                key = '%s:%s' % (f.key, f.local_name(l))
                en, de = d['enc'][0], d['dec'][0]
                me = re.match(r'^(wrapping_add|wrapping_sub)\((.*)\)$', en)
                md = re.match(r'^(wrapping_add|wrapping_sub)\((.*)\)$', de)
                if en == de:
                    ctx.ok(key, f.loc(s), 'same expression on both sides (direction independent)')
                elif me and md and me.group(2) == md.group(2) and me.group(1) == 'wrapping_add' and md.group(1) == 'wrapping_sub':
                    ctx.ok(key, f.loc(s), 'encoder wrapping_add / decoder wrapping_sub over identical operands')
                elif not (me and md):
                    n -= 1
                    ctx.info(key + ':not-decided', f.loc(s), 'the two directions build this value differently (not an add/sub pair): not decided')
                else:
                    ctx.violation(key, f.loc(s), 'encoder defines `%s` as %s but the decoder as %s: not mirror images (add/sub of the same operands), '
                                  'so decoding does not undo encoding' % (f.local_name(l), en[:90], de[:90]))
    # (b) delta
    enc = dec = None
    for f in F.fns:
        if f.self_adt and last_seg(f.self_adt) == 'Delta' and f.name in ('encode', 'decode') and f.kind != 'closure':
            if f.name == 'encode':
                enc = f
            else:
                dec = f
    if enc and dec:
        def shape(f):
            prov = Prov(f)
            reads, stores, ops = [], [], []
            for bi, b in enumerate(f.blocks):
                if b['cleanup']:
                    continue
                for si, st in enumerate(b['stmts']):
                    if st['k'] != 'assign':
                        continue
                    names = [pe.get('n') for pe in st['lhs']['p'] if isinstance(pe, dict) and 'f' in pe]
                    if 'history' in names:
                        idx = [pe for pe in st['lhs']['p'] if isinstance(pe, dict) and 'i' in pe]
                        stores.append((expr_str(prov.local(idx[0]['i'], 0, '%d:%d' % (bi, si))) if idx else '?',
                                       expr_str(prov.rvalue(st['rv'], 0, '%d:%d' % (bi, si)))))
                    e = prov.rvalue(st['rv'], 0, '%d:%d' % (bi, si))
                    for x in expr_walk(e):
                        if x[0] == 'index' and any(y[0] == 'field' and y[2] == 'history' for y in expr_walk(x[1])):
                            reads.append(expr_str(x[2]))
                t = b['term']
                if t['k'] == 'call':
                    c = callee_of(t)
                    if c and c.get('name') in ('wrapping_add', 'wrapping_sub') and f.local_ty(t['dest']['l']) == 'u8' and len(t['args']) == 2:
                        a1 = prov.operand(t['args'][1], 0, '%d:T' % bi)
                        if any(x[0] == 'index' and any(y[0] == 'field' and y[2] == 'history' for y in expr_walk(x[1])) for x in expr_walk(a1)):
                            ops.append(c['name'])
            return sorted(set(reads)), stores, ops
        re_, se, oe = shape(enc)
        rd, sd, od = shape(dec)
        n += 1
        key = 'Delta:encode~decode'
        probs = []
        if re_ != rd or not re_:
            probs.append('history read index differs: encode %s, decode %s' % (re_, rd))
        if [x[0] for x in se] != [x[0] for x in sd] or not se:
            probs.append('history store index differs: encode %s, decode %s' % ([x[0] for x in se], [x[0] for x in sd]))
        if oe != ['wrapping_sub'] or od != ['wrapping_add']:
            probs.append('encode must subtract and decode add the history byte (encode %s, decode %s)' % (oe, od))
        # encode stores the byte before the subtraction, decode the byte after the addition: compare the position of
        # the read of `*item` that feeds the history store with the position of the write to `*item`
        def item_rw(f):
            wr = rd = None
            for bi, b in enumerate(f.blocks):
                if b['cleanup']:
                    continue
                for si, st in enumerate(b['stmts']):
                    if st['k'] != 'assign':
                        continue
                    if st['lhs']['p'] == ['*'] and f.local_ty(st['lhs']['l']).startswith('&mut u8'):
                        wr = (bi, si)
                    names = [pe.get('n') for pe in st['lhs']['p'] if isinstance(pe, dict) and 'f' in pe]
                    if 'history' in names and st['rv']['r'] == 'use':
                        p0 = op_place(st['rv']['o'])
                        if p0 is not None and p0['p'] == ['*']:
                            rd = (bi, si)          # reads *item directly at the store
                        elif p0 is not None and not p0['p']:
                            for (b2, s2, k2, n2) in f.whole_defs(p0['l']):
                                if k2 == 'assign' and n2['rv']['r'] == 'use' and (op_place(n2['rv']['o']) or {}).get('p') == ['*']:
                                    rd = (b2, s2)
            return wr, rd
        wre, rde = item_rw(enc)
        wrd, rdd = item_rw(dec)
        if wre and rde and not (rde < wre):
            probs.append('encode stores the filtered byte into the history (it reads *item after overwriting it)')
        if wrd and rdd and not (rdd > wrd):
            probs.append('decode stores the still filtered byte into the history (it reads *item before restoring it)')
        if se and 'wrapping_sub' in se[0][1]:
            probs.append('encode stores the filtered byte into the history')
        if sd and 'wrapping_add' not in sd[0][1] and 'item' not in sd[0][1]:
            probs.append('decode does not store the restored byte into the history')
        if probs:
            ctx.violation(key, enc.loc(0), '; '.join(probs))
        else:
            ctx.ok(key, enc.loc(0), 'same history indices (%s / %s); encode subtracts, decode adds; both keep the unfiltered byte' % (re_[0][:40], se[0][0][:40]))
    else:
        ctx.anchor_missing('Delta::encode / Delta::decode')
    # (c) constructor table
    table = {}
    for f in F.fns:
        if f.kind == 'closure' or not f.self_adt or last_seg(f.self_adt) not in ('BCJReader', 'BCJWriter') or not (f.name or '').startswith('new_'):
            continue
        prov = Prov(f)
        for bi, t, c in f.calls():
            if c.self_adt and last_seg(c.self_adt) == 'BCJFilter' and (c.name or '').startswith('new_') and len(t['args']) >= 2:
                flag = prov.operand(t['args'][-1], 0, '%d:T' % bi)
                table.setdefault(f.name, {})[last_seg(f.self_adt)] = (c.name, flag[2] if flag[0] == 'const' else None, f, bi)
    for nm, d in sorted(table.items()):
        n += 1
        key = 'BCJ:%s' % nm
        r, w = d.get('BCJReader'), d.get('BCJWriter')
        if not r or not w:
            ctx.violation(key, (r or w)[2].loc((r or w)[3]), 'only one of BCJReader::%s / BCJWriter::%s exists' % (nm, nm))
        elif r[0] != w[0]:
            ctx.violation(key, r[2].loc(r[3]), 'reader builds BCJFilter::%s, writer BCJFilter::%s' % (r[0], w[0]))
        elif r[1] not in (0, False) or w[1] not in (1, True):
            ctx.violation(key, r[2].loc(r[3]), 'is_encoder flags: reader %r, writer %r (must be false / true)' % (r[1], w[1]))
        else:
            ctx.ok(key, r[2].loc(r[3]), 'reader and writer use BCJFilter::%s with is_encoder = false / true' % r[0])
    if n == 0:
        ctx.anchor_missing('BCJ / Delta twins')


# --------------------------------------------------------------------------- SCAN-COVERAGE

def _eval_int(e, env):
    """Evaluate a provenance expression over integers; `env(e)` supplies leaves. None = unknown."""
    v = env(e)
    if v is not None:
        return v
    if not isinstance(e, tuple):
        return None
    if e[0] == 'const' and isinstance(e[2], int):
        return e[2]
    if e[0] == 'cast':
        return _eval_int(e[-1], env)
    if e[0] == 'field' and isinstance(e[1], tuple) and e[1][0] == 'bin' and e[1][1].endswith('WithOverflow') and str(e[2]) == '0':
        return _eval_int(('bin', e[1][1][:-len('WithOverflow')], e[1][2], e[1][3]), env)
    if e[0] == 'bin':
        a, b = _eval_int(e[2], env), _eval_int(e[3], env)
        if a is None or b is None:
            return None
        op = e[1]
        if op == 'Add': return a + b
        if op == 'Sub': return a - b
        if op == 'Mul': return a * b
        return None
    if e[0] == 'call' and last_seg(e[1]) in ('saturating_sub',) and len(e[2]) == 2:
        a, b = _eval_int(e[2][0], env), _eval_int(e[2][1], env)
        return None if a is None or b is None else max(0, a - b)
    return None


@rule('SCAN-COVERAGE', ['C11'], floor=8)
def scan_coverage(ctx):
    """Every BCJ conversion routine examines every position at which a whole instruction still fits in the
    buffer (the reference filters do; bytes that are left over are only those too short for one instruction,
    and at the end of the stream they are passed through unconverted). Stated belief vs. use: each routine
    returns early for `len < W`, i.e. it holds that W bytes are enough for one instruction; its scan loop must
    therefore be entered for a buffer of exactly W bytes (guard true for i = 0, len = W). A guard that is
    false there (`i < len - W`) silently skips the last instruction slot of every buffer - and of the stream."""
    F = ctx.facts
    n = 0
    for f in F.fns:
        if not (f.key.startswith('BCJFilter::') and f.key.endswith('_code')):
            continue
        n += 1
        key = '%s:last-slot-scanned' % f.key
        prov = Prov(f)
        loops = f.loops()
        if not loops:
            ctx.violation(key, f.loc(0), 'no scan loop found')
            continue
        # early return: a switch outside loops on `len(buf) < W`
        w0 = None
        for b in sorted(f.reachable):
            t = f.blocks[b]['term']
            if t['k'] != 'switch' or f.in_loop(b):
                continue
            c = norm_cmp(prov.operand(t['discr'], 0, '%d:T' % b))
            if c and c[0] == 'Lt' and c[1][0] == 'call' and last_seg(c[1][1]) == 'len' and c[2][0] == 'const' and isinstance(c[2][2], int):
                w0 = c[2][2]
                break
        if w0 is None:
            ctx.violation(key, f.loc(0), 'no early return of the form `len < W` found: cannot tell the instruction size the routine assumes')
            continue
        h = max(loops, key=lambda x: len(loops[x]))
        body = loops[h]
        guard = None
        for b in sorted(body):
            t = f.blocks[b]['term']
            if t['k'] != 'switch':
                continue
            se = switch_edges(f, b)
            if not se or (se[0] in body) == (se[1] in body):
                continue
            e = prov.operand(t['discr'], 0, '%d:T' % b)
            c = norm_cmp(e)
            if c and any(x[0] == 'call' and last_seg(x[1]) == 'len' for x in expr_walk(e)):
                guard = (b, c, se[1] in body)
                break
        if guard is None:
            ctx.violation(key, f.loc(h), 'scan loop has no exit test against the buffer length')
            continue
        b, c, true_stays = guard

        def env(e):
            if isinstance(e, tuple) and e[0] == 'call' and last_seg(e[1]) == 'len':
                return w0
            if isinstance(e, tuple) and e[0] == 'local':
                # the scan index: value at loop entry; every store to it outside the loop must be the constant 0
                inits = [s for bi in f.reachable if bi not in body for s in f.blocks[bi]['stmts']
                         if s['k'] == 'assign' and s['lhs']['l'] == e[1] and not s['lhs']['p']]
                if inits and all(s['rv']['r'] == 'use' and (op_const(s['rv']['o']) or {}).get('v') == 0 for s in inits):
                    return 0
            return None
        l, r = _eval_int(c[1], env), _eval_int(c[2], env)
        if l is None or r is None:
            ctx.info(key, f.loc(b), 'loop guard %s not evaluable at i = 0, len = %d (not decided)' % (expr_str(('bin', c[0], c[1], c[2])), w0))
            ctx.violation(key, f.loc(b), 'loop guard is not of a form this rule can evaluate at the boundary len = %d' % w0)
            continue
        val = {'Lt': l < r, 'Le': l <= r, 'Eq': l == r, 'Ne': l != r}[c[0]]
        entered = val if true_stays else not val
        if entered:
            ctx.ok(key, f.loc(b), 'returns early for len < %d and the scan loop is entered for len = %d (guard %s %s %s at i = 0)' % (w0, w0, l, c[0], r))
        else:
            ctx.violation(key, f.loc(b), 'the routine returns early only for len < %d, but its scan loop is not entered for a buffer of exactly %d bytes '
                          '(guard %s %s %s at i = 0): the last instruction slot of every buffer, and an instruction that ends the stream, '
                          'is never converted - output differs from the reference filter' % (w0, w0, l, c[0], r))
    if not n:
        ctx.anchor_missing('BCJFilter::*_code')


# --------------------------------------------------------------------------- OWED-OUTPUT

@rule('OWED-OUTPUT', ['C05'], floor=1)
def owed_output(ctx):
    """BCJ2Reader is given the size of its output. When one of its inputs reports end of data (inner read count
    0), `read` may return Ok only if the declared size has been produced (`uncompressed_size == 0` on the path)
    or if it returns a non-zero count (progress; the condition is met again on the next call). Every other path
    from the zero count to an `Ok(..)` return tells the caller "end of stream" with output still owed: a
    truncated input passes for a complete, shorter one. Decided on path conditions (acyclic paths from the zero
    edge, equal tests correlated, contradictory paths pruned)."""
    from rules.io import is_trait_call, READ_TRAITS
    from rules.errors import path_conds
    F = ctx.facts
    fs = [f for f in F.fns if f.self_adt and last_seg(f.self_adt) == 'BCJ2Reader' and f.impl and
          last_seg(f.impl.get('trait')) == 'Read' and f.name == 'read']
    if not fs:
        ctx.anchor_missing('<BCJ2Reader as Read>::read')
        return
    from rules.io import effective_read
    key = '%s:input-end-with-output-owed-is-not-Ok' % fs[0].key
    f = effective_read(F, fs[0])
    prov = Prov(f)
    back = {(t, h) for t in f.reachable for h in f.succ[t] if f.dominates(h, t)}
    starts = []
    for b in sorted(f.reachable):
        t = f.blocks[b]['term']
        if t['k'] != 'switch':
            continue
        se = switch_edges(f, b)
        if not se:
            continue
        e = prov.operand(t['discr'], 0, '%d:T' % b)
        c = norm_cmp(e)
        if not c or c[0] not in ('Eq', 'Ne'):
            continue
        sides = [c[1], c[2]]
        if not any(x[0] == 'const' and x[2] == 0 for x in sides):
            continue
        other = [x for x in sides if not (x[0] == 'const' and x[2] == 0)]
        if not other or not any(y[0] == 'call' and last_seg(y[1]) == 'read' and 'Read' in y[1] for y in expr_walk(other[0])):
            continue
        zero_tgt = se[1] if c[0] == 'Eq' else se[0]
        starts.append((b, zero_tgt))
    if not starts:
        ctx.violation(key, f.loc(0), 'no test of an inner read count against zero found: cannot locate the end-of-input handling (fail closed)')
        return
    okblocks = {}
    for b in f.reachable:
        for s in f.blocks[b]['stmts']:
            if s['k'] == 'assign' and s['lhs']['l'] == 0 and not s['lhs']['p'] and s['rv']['r'] == 'agg' and s['rv'].get('variant_name') == 'Ok':
                okblocks[b] = s['rv']['ops'][0]

    def cond_key(c):
        return (expr_str(c[1]), expr_str(c[2]))

    bad = None
    npaths = 0
    for sb, start in starts:
        stack = [(start, ((sb, start),), (start,))]
        while stack and bad is None:
            b, path, visited = stack.pop()
            npaths += 1
            if npaths > 20000:
                bad = (b, 'path budget exceeded (not decided, fail closed)')
                break
            if b in okblocks:
                conds = []
                for cond, pol in path_conds(f, prov, path):
                    nc = norm_cmp(cond, pol) if cond[0] in ('bin', 'un') else None
                    if nc:
                        conds.append(nc)
                eqs = {cond_key(c) for c in conds if c[0] == 'Eq'}
                nes = {cond_key(c) for c in conds if c[0] == 'Ne'}
                if eqs & nes:
                    continue   # contradictory: infeasible
                retop = okblocks[b]
                rl = op_local(retop)
                rname = f.locals[rl].get('name') if rl is not None else None
                rdefs = [d for d in f.whole_defs(rl)] if rl is not None else []
                # the returned operand is a copy of a named local
                src = None
                if rl is not None:
                    e = prov.operand(retop, 0, '%d:R' % b)
                    src = expr_str(e)
                just = False
                for c in conds:
                    a, bb_ = expr_str(c[1]), expr_str(c[2])
                    zero = (c[2][0] == 'const' and c[2][2] == 0) or (c[1][0] == 'const' and c[1][2] == 0)
                    if not zero:
                        continue
                    if c[0] == 'Eq' and ('uncompressed_size' in a or 'uncompressed_size' in bb_):
                        just = True
                    if c[0] in ('Ne', 'Lt') and src is not None and src in (a, bb_):
                        just = True
                if op_const(retop) is not None and (op_const(retop) or {}).get('v') not in (0, None):
                    just = True
                if not just:
                    bad = (b, 'returns Ok(%s) after an input reported end of data, on a path that neither established '
                              '`uncompressed_size == 0` nor a non-zero count: a truncated input ends the stream cleanly with output '
                              'still owed (path conditions: %s)' % (src, '; '.join('%s %s %s' % (expr_str(c[1]), c[0], expr_str(c[2])) for c in conds[:8])))
                continue
            t = f.blocks[b]['term']
            for s in f.succs(b):
                if (b, s) in back or s in visited:
                    continue
                stack.append((s, path + ((b, s),) if t['k'] == 'switch' else path, visited + (s,)))
    # stability of the correlated operands in the explored region
    if bad:
        ctx.violation(key, f.loc(bad[0]), bad[1])
    else:
        ctx.ok(key, f.loc(starts[0][0]), '%d zero-count test(s); %d path prefixes explored: every Ok return after an exhausted input is under '
               'uncompressed_size == 0 or returns a non-zero count' % (len(starts), npaths))


# --------------------------------------------------------------------------- CARRY-SOURCE

def _place_fields(p):
    return [x.get('n') for x in p['p'] if isinstance(x, dict) and 'f' in x]


@rule('CARRY-SOURCE', ['C11'], floor=1)
def carry_source(ctx):
    """BCJ2Reader::read keeps the 1-3 bytes of a CALL/JUMP address that a short read split: before refilling a
    stream buffer it copies them from the decoder's current read position (`decoder.bufs[state]`, as
    Bcj2Decoder::decode left it) to the start of the buffer, then resets the position. The position used as
    the source of that copy must be the one decode() left behind: on no path from a decode() call may a store to
    `decoder.bufs[..]` come before the load that feeds the copy (the copy would read from the reset position,
    i.e. copy the buffer start onto itself, and the carried bytes are replaced by stale ones)."""
    F = ctx.facts
    fs = [f for f in F.fns if f.self_adt and last_seg(f.self_adt) == 'BCJ2Reader' and f.impl and
          last_seg(f.impl.get('trait')) == 'Read' and f.name == 'read']
    if not fs:
        ctx.anchor_missing('<BCJ2Reader as Read>::read')
        return
    from rules.io import effective_read
    key = '%s:carry-copied-from-the-position-decode-left' % fs[0].key
    f = effective_read(F, fs[0])
    dec = {bi for bi, t, c in f.calls() if c.name == 'decode' and 'Bcj2Decoder' in c.path}
    loads, stores = [], []
    for bi in sorted(f.reachable):
        for si, s in enumerate(f.blocks[bi]['stmts']):
            if s['k'] != 'assign':
                continue
            if _place_fields(s['lhs'])[:2] == ['decoder', 'bufs'] and s['lhs']['l'] == 1:
                stores.append((bi, si))
            rv = s['rv']
            if rv['r'] == 'use':
                p = op_place(rv['o'])
                if p is not None and p['l'] == 1 and _place_fields(p)[:2] == ['decoder', 'bufs'] and not s['lhs']['p']:
                    loads.append((bi, si, s['lhs']['l']))
    # which loads feed a copy inside base.bufs
    feeding = []
    for (bi, si, l) in loads:
        taint = {l}
        changed = True
        while changed:
            changed = False
            for b in f.reachable:
                for s in f.blocks[b]['stmts']:
                    if s['k'] != 'assign' or s['lhs']['p'] or s['lhs']['l'] in taint:
                        continue
                    rv = s['rv']
                    ops = []
                    if rv['r'] in ('use', 'cast', 'un', 'repeat'):
                        ops = [rv['o']]
                    elif rv['r'] == 'bin':
                        ops = [rv['a'], rv['b']]
                    elif rv['r'] == 'agg':
                        ops = rv['ops']
                    if any((op_place(o) or {}).get('l') in taint for o in ops):
                        taint.add(s['lhs']['l'])
                        changed = True
        for b, t, c in f.calls():
            if c.name in ('index', 'copy_within', 'copy_from_slice', 'get') and any((op_place(a) or {}).get('l') in taint for a in t['args'][1:]):
                feeding.append((bi, si))
                break
    if not dec or not feeding or not stores:
        ctx.violation(key, f.loc(0), 'cannot locate the carry copy (decode calls %d, position loads feeding a copy %d, position stores %d): '
                      'anchor lost (fail closed)' % (len(dec), len(feeding), len(stores)))
        return
    bad = None
    for (lb, ls) in feeding:
        for (sb, ss) in stores:
            # store reachable from a decode call without passing another one
            from_dec = f.reach_from([f.blocks[d]['term']['target'] for d in dec if f.blocks[d]['term'].get('target') is not None], stop=dec)
            if sb not in from_dec:
                continue
            if sb == lb:
                if ss < ls:
                    bad = (sb, lb)
            else:
                after = f.reach_from(f.succs(sb), stop=dec)
                if lb in after:
                    bad = (sb, lb)
    if bad:
        ctx.violation(key, f.loc(bad[1]), 'the source position of the carry copy is loaded after `decoder.bufs[..]` was overwritten (store at %s): '
                      'the carried bytes of a split CALL/JUMP address are copied from the reset position, i.e. replaced by stale bytes; output is '
                      'silently wrong whenever a CALL/JUMP source returns a byte count that is not a multiple of four' % f.loc(bad[0]))
    else:
        ctx.ok(key, f.loc(feeding[0][0]), '%d position load(s) feed the carry copy; no store to decoder.bufs precedes them after decode() (%d store(s), all behind the copy)'
               % (len(feeding), len(stores)))


# --------------------------------------------------------------------------- MASK-AGEING-TWIN

@rule('MASK-AGEING-TWIN', ['C11', 'C07'], floor=1)
def mask_ageing_twin(ctx):
    """The x86 BCJ filter remembers recent E8/E9 opcodes in `prev_mask` and ages that memory by the distance d to the
    previous opcode in two places: inside the scan loop (at the next opcode) and once more at the end of the call
    (so that the state carried to the next call is the same as if the buffer had not ended there). Both places
    compute `prev_mask << (d - 1)` and both must drop the memory under the same condition on d - they are the same
    step, cut in two by the buffer boundary. If the conditions differ, the filter's output depends on where the
    caller's buffers end and no longer matches the reference."""
    F = ctx.facts
    fs = [f for f in F.fns if f.key == 'BCJFilter::x86_code']
    if not fs:
        ctx.anchor_missing('BCJFilter::x86_code')
        return
    f = fs[0]
    prov = Prov(f)
    key = '%s:both-ageing-sites-use-one-condition' % f.key
    sites = []
    for b in sorted(f.reachable):
        for si, s in enumerate(f.blocks[b]['stmts']):
            if s['k'] != 'assign' or s['rv']['r'] != 'bin' or not s['rv']['op'].startswith('Shl'):
                continue
            e = prov.rvalue(s['rv'], 0, '%d:%d' % (b, si))
            amt = e[3]
            while amt[0] == 'cast':
                amt = amt[-1]
            if amt[0] == 'field' and isinstance(amt[1], tuple) and amt[1][0] == 'bin' and amt[1][1].startswith('Sub') and str(amt[2]) == '0':
                amt = ('bin', 'Sub', amt[1][2], amt[1][3])
            if not (amt[0] == 'bin' and amt[1] == 'Sub' and amt[3][0] == 'const' and amt[3][2] == 1):
                continue
            if 'prev_mask' not in expr_str(e[2]):
                continue
            d = expr_str(amt[2])
            conds = []
            for sb, pol, cond in guards_of(f, b, prov):
                cs = expr_str(cond)
                if d in cs:
                    nc = norm_cmp(cond, pol) if cond[0] in ('bin', 'un') else None
                    conds.append('%s %s %s' % (expr_str(nc[1]), nc[0], expr_str(nc[2])) if nc else ('%s is %s' % (cs, pol)))
            sites.append((b, d, tuple(sorted(conds))))
    if len(sites) < 2:
        ctx.violation(key, f.loc(0), 'expected two sites that age prev_mask by `prev_mask << (d - 1)` (loop and end of call), found %d: '
                      'anchor lost (fail closed)' % len(sites))
        return
    kinds = {(d, c) for _, d, c in sites}
    if len(kinds) == 1 and sites[0][2]:
        ctx.ok(key, f.loc(sites[0][0]), '%d ageing sites, all under %s' % (len(sites), ' and '.join(sites[0][2])[:150]))
    else:
        ctx.violation(key, f.loc(sites[-1][0]), 'the sites that age prev_mask disagree on when the opcode memory is dropped: %s - the state carried '
                      'across a buffer boundary differs from the state inside one buffer, output depends on the caller\'s chunking'
                      % ' vs '.join('[%s | %s]' % (d, ' and '.join(c)[:90]) for _, d, c in sites))
