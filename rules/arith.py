"""INT-OVF (C06, C17): overflow/div-by-zero asserts in loop-free scalar functions proven unreachable by
interval analysis with caller-side guards; KIB-UNITS, LIMIT-BEFORE-ALLOC (C17)."""
from lzlint.framework import rule
from lzlint.core import (Prov, Callee, callee_of, strip_generics, last_seg, expr_walk, expr_str, op_local, op_place,
                         const_val, guards_of, norm_cmp, switch_edges)
from lzlint.intervals import Intervals, INF, TYMAX, TYMIN, ty_range, eval_lifted
from rules.totality import decoder_entry_points

SCALAR = set(TYMAX) | {'lz::lz_encoder::MFType', 'enc::encoder::EncodeMode', 'MFType', 'EncodeMode'}


def is_scalar_fn(f):
    if f.kind == 'closure' or f.loops():
        return False
    ins = f.d.get('inputs') or []
    if not ins:
        return False
    return all(t in SCALAR for t in ins)


def overflow_asserts(f):
    for bi, b in enumerate(f.blocks):
        if b['cleanup']:
            continue
        t = b['term']
        if t['k'] == 'assert' and (t['msg'].startswith('Overflow') or t['msg'] in ('DivisionByZero', 'RemainderByZero', 'OverflowNeg')):
            yield bi, t


def check_assert(iv, f, bi, t, prov):
    """Return (ok, detail)."""
    msg = t['msg']
    pos = '%d:T' % bi
    ops = [prov.operand(o, 0, pos) for o in t['msg_ops']]
    if msg in ('DivisionByZero', 'RemainderByZero'):
        # the divisor is the second operand of the following Div; the assert carries the dividend: find the cond
        cond = prov.operand(t['cond'], 0, pos)
        # cond = Eq(divisor, 0)
        if cond[0] == 'bin' and cond[1] == 'Eq':
            d = iv.eval(f, bi, cond[2])
            if d.lo >= 1 or d.hi <= -1:
                return True, 'divisor %r' % d
            return False, 'divisor %s may be zero (%r)' % (expr_str(cond[2])[:40], d)
        return False, 'unrecognised division assert'
    op = msg.split(':')[1] if ':' in msg else msg
    # result type: type of the first operand
    p0 = op_place(t['msg_ops'][0])
    ty = None
    for o in t['msg_ops']:
        k = o.get('k')
        if k:
            ty = k['ty']
        p = op_place(o)
        if p:
            ty = p['ty']
            break
    tr = ty_range(ty or '')
    if op in ('Shl', 'Shr'):
        amt, _ = eval_lifted(iv, f, bi, ops[1], 63) if len(ops) > 1 else (None, '')
        bits = {'u8': 8, 'u16': 16, 'u32': 32, 'u64': 64, 'usize': 64, 'i32': 32, 'i64': 64, 'i8': 8, 'i16': 16, 'isize': 64}.get(ty, 64)
        if amt is not None and amt.lo >= 0 and amt.hi < bits:
            return True, 'shift amount %r < %d' % (amt, bits)
        return False, 'shift amount %s in %r may reach %d bits' % (expr_str(ops[1])[:40], amt, bits)
    if len(ops) < 2:
        return False, 'unary overflow'
    binop = {'Add': 'Add', 'Sub': 'Sub', 'Mul': 'Mul'}.get(op)
    if not binop:
        return False, 'op %s not modelled' % op
    e = ('bin', binop, ops[0], ops[1])
    r, where = eval_lifted(iv, f, bi, e, tr.hi if tr.hi != INF else (1 << 64))
    if r.lo >= tr.lo and r.hi <= tr.hi and not r.prop:
        return True, '%s in %r fits %s' % (binop, r, ty)
    if r.prop and binop != 'Sub' and r.hi <= tr.hi and ty in ('usize', 'u64'):
        return True, '%s bounded by held input length' % binop
    return False, '%s %s %s has range %r outside %s (worst context %s)' % (expr_str(ops[0])[:40], binop, expr_str(ops[1])[:40], r, ty, where)


def run_int_ovf(ctx, scope_paths, label):
    F = ctx.facts
    iv = Intervals(F, scope=set(scope_paths))
    n = 0
    for p in sorted(scope_paths):
        f = F.by_path[p]
        if not is_scalar_fn(f):
            continue
        prov = Prov(f)
        cnt = {}
        bad = []
        for bi, t in overflow_asserts(f):
            n += 1
            base = '%s:%s' % (f.key, t['msg'])
            cnt[base] = cnt.get(base, 0) + 1
            key = base if cnt[base] == 1 else '%s#%d' % (base, cnt[base])
            ok, detail = check_assert(iv, f, bi, t, prov)
            if ok:
                ctx.ok(key, f.loc(bi), detail)
            else:
                bad.append((bi, t['msg'], detail))
        if bad:
            # one finding per function: the root cause is the unbounded parameter, not each operator
            ctx.violation('%s:arith-overflow' % f.key, f.loc(bad[0][0]),
                          'arithmetic can overflow for %s input (panics in debug builds, wraps silently in release); '
                          '%d site(s): %s' % (label, len(bad), ' | '.join('%s %s' % (f.loc(b), d) for b, m, d in bad))[:900])
    return n


@rule('INT-OVF', ['C06'], floor=8)
def int_ovf_dec(ctx):
    """Decoder side: every overflow / division assert in a loop-free scalar function reachable from
    the decoder entry points is unreachable for every value the callers can pass (interval analysis
    with dominating guards at the call sites; public parameters range over their whole type)."""
    F = ctx.facts
    roots, _ = decoder_entry_points(F)
    # public free functions of the decoder modules (estimators, header helpers)
    for f in F.fns:
        if f.kind == 'fn' and f.d.get('pub') and f.file in ('src/lzma_reader.rs', 'src/lzma2_reader.rs', 'src/lzip.rs'):
            roots.append(f)
    reach = F.reachable_fns(roots)
    n = run_int_ovf(ctx, reach, 'untrusted')
    if n == 0:
        ctx.anchor_missing('scalar functions with overflow asserts reachable from decoders')


# --------------------------------------------------------------------------- KIB-UNITS (C17)

class UF:
    def __init__(self):
        self.p = {}
        self.label = {}
        self.why = {}

    def find(self, x):
        self.p.setdefault(x, x)
        while self.p[x] != x:
            self.p[x] = self.p[self.p[x]]
            x = self.p[x]
        return x

    def set_label(self, x, lab, why):
        r = self.find(x)
        old = self.label.get(r)
        if old == 'X':
            return None
        if old and old != lab:
            return (old, self.why.get(r), lab, why)
        self.label[r] = lab
        self.why.setdefault(r, why)
        return None

    def union(self, a, b, why):
        ra, rb = self.find(a), self.find(b)
        if ra == rb:
            return None
        la, lb = self.label.get(ra), self.label.get(rb)
        conflict = None
        if la and lb and la != lb and 'X' not in (la, lb):
            conflict = (la, self.why.get(ra), lb, self.why.get(rb))
        if conflict:
            return conflict   # keep the classes apart: the report stays at the site that joins them
        if 'X' in (la, lb):
            self.p[ra] = rb
            self.label[rb] = 'X'
            return None
        self.p[ra] = rb
        if la and not lb:
            self.label[rb] = la
            self.why[rb] = self.why.get(ra)
        return conflict


KIB_DIVISORS = {1024 // k for k in (1, 2, 4, 8, 16)}


def estimator_roots(F):
    out = []
    for f in F.fns:
        if f.kind == 'closure' or not f.d.get('pub'):
            continue
        if f.name and 'memory_usage' in f.name and (f.kind == 'fn' or (f.self_adt and F.adts.get(f.self_adt, {}).get('pub'))):
            if f.file in ('src/lzma_reader.rs', 'src/lzma2_reader.rs', 'src/enc/lzma2_writer.rs', 'src/lib.rs'):
                out.append(f)
    return out


@rule('KIB-UNITS', ['C17'], floor=4)
def kib_units(ctx):
    """Unit inference {bytes, KiB} over the estimator call tree: a value divided by a 1024-family
    constant is bytes and its quotient KiB; + / - / min / max operands and call arguments/results
    must agree. The public estimators return KiB."""
    F = ctx.facts
    roots = estimator_roots(F)
    if len(roots) < 3:
        return ctx.anchor_missing('public memory-usage estimators (found %d)' % len(roots))
    reach = F.reachable_fns(roots)
    uf = UF()
    conflicts = []
    def node(f, l):
        return (f.path, l)
    def opnode(f, op):
        p = op_place(op)
        if p is None:
            return None
        return node(f, p['l'])
    nfn = 0
    # callees before callers (DFS post-order over the call graph from the estimators)
    order = []
    seen_o = set()
    cg = F.callgraph()
    def dfs(p):
        if p in seen_o:
            return
        seen_o.add(p)
        for _, g in cg.get(p, []):
            if g.path in reach:
                dfs(g.path)
        order.append(p)
    for r in sorted(roots, key=lambda r: r.path):
        dfs(r.path)
    for pth in order:
        f = F.by_path[pth]
        ints = [i for i, l in enumerate(f.locals) if l['ty'] in ('u32', 'u64', 'usize', 'i32', '(u32, bool)', '(u64, bool)', '(usize, bool)') or l['ty'].startswith('std::result::Result<u32')]
        if not ints:
            continue
        nfn += 1
        isint = set(ints)
        for bi, b in enumerate(f.blocks):
            if b['cleanup']:
                continue
            for si, s in enumerate(b['stmts']):
                if s['k'] != 'assign' or s['lhs']['l'] not in isint:
                    continue
                lhs = node(f, s['lhs']['l'])
                rv = s['rv']
                where = f.loc(bi, si)
                r = rv['r']
                if r in ('use', 'cast'):
                    n = opnode(f, rv['o'])
                    if n and n[1] in isint:
                        c = uf.union(lhs, n, where)
                        if c:
                            conflicts.append((f, bi, si, c))
                elif r == 'agg' and rv.get('variant_name') in ('Ok', 'Some'):
                    n = opnode(f, rv['ops'][0]) if rv['ops'] else None
                    if n and n[1] in isint:
                        uf.union(lhs, n, where)
                elif r == 'bin':
                    op = rv['op'].replace('WithOverflow', '').replace('Unchecked', '')
                    na, nb = opnode(f, rv['a']), opnode(f, rv['b'])
                    ca, cb = const_val(rv['a']), const_val(rv['b'])
                    if op in ('Add', 'Sub'):
                        for n in (na, nb):
                            if n and n[1] in isint:
                                c = uf.union(lhs, n, where)
                                if c:
                                    conflicts.append((f, bi, si, c))
                                    # the mixed sum has no unit: do not cascade the report upwards
                                    r0 = uf.find(lhs)
                                    uf.p[lhs] = lhs
                                    uf.label[lhs] = 'X'
                                    
                    elif op == 'Div':
                        div = cb
                        if div is None and nb is not None:
                            # divisor computed as 1024 / k
                            dd = f.whole_defs(nb[1])
                            if len(dd) == 1 and dd[0][2] == 'assign' and dd[0][3]['rv']['r'] == 'bin' and dd[0][3]['rv']['op'] == 'Div':
                                x, y = const_val(dd[0][3]['rv']['a']), const_val(dd[0][3]['rv']['b'])
                                if x and y:
                                    div = x // y
                        if div in KIB_DIVISORS and na:
                            c = uf.set_label(na, 'bytes', 'divided by %d at %s' % (div, where))
                            if c:
                                conflicts.append((f, bi, si, c))
                            c = uf.set_label(lhs, 'KiB', 'quotient by %d at %s' % (div, where))
                            if c:
                                conflicts.append((f, bi, si, c))
                        elif na and na[1] in isint:
                            uf.union(lhs, na, where)
                    elif op in ('Mul', 'Shl', 'Shr', 'BitOr', 'BitAnd', 'Rem'):
                        for n, other_const in ((na, cb), (nb, ca)):
                            if n and n[1] in isint and (other_const is not None or op in ('BitOr', 'BitAnd')):
                                uf.union(lhs, n, where)
            t = b['term']
            if t['k'] == 'call':
                c = callee_of(t)
                if not c:
                    continue
                cal = Callee(c)
                dest = node(f, t['dest']['l']) if not t['dest']['p'] else None
                where = f.loc(bi)
                locs = [g for g in F.resolve_callee(cal) if g.path in reach]
                if locs:
                    for g in locs:
                        for i, a in enumerate(t['args']):
                            n = opnode(f, a)
                            if n and n[1] in isint and i + 1 <= g.arg_count and g.locals[i + 1]['ty'] in ('u32', 'u64', 'usize'):
                                cf = uf.union(n, (g.path, i + 1), where)
                                if cf:
                                    conflicts.append((f, bi, None, cf))
                        if dest and dest[1] in isint:
                            cf = uf.union(dest, (g.path, 0), where)
                            if cf:
                                conflicts.append((f, bi, None, cf))
                elif cal.name in ('min', 'max', 'saturating_sub', 'saturating_add', 'clamp', 'wrapping_sub', 'wrapping_add',
                                  'checked_sub', 'checked_add', 'unwrap', 'expect', 'branch', 'from', 'into', 'next_multiple_of'):
                    for a in t['args']:
                        n = opnode(f, a)
                        if n and n[1] in isint and dest and dest[1] in isint:
                            cf = uf.union(dest, n, where)
                            if cf:
                                conflicts.append((f, bi, None, cf))
        # payload extraction of `?`: (x as Continue).0 handled by 'use' of projected place: node is the base local
    # public estimators return KiB
    for r in roots:
        c = uf.set_label((r.path, 0), 'KiB', 'documented unit of public estimator %s' % r.key)
        if c:
            conflicts.append((r, 0, None, c))
    seen = set()
    for (f, bi, si, (la, wa, lb, wb)) in conflicts:
        key = '%s:unit-mismatch' % f.key
        if key in seen:
            continue
        seen.add(key)
        ctx.violation(key, f.loc(bi, si), 'a %s quantity (%s) is combined with a %s quantity (%s): the estimate mixes bytes and '
                      'KiB' % (la, wa, lb, wb))
    for r in roots:
        key = '%s:returns-KiB' % r.key
        if not any(k.startswith(r.key) for k in seen):
            ctx.ok(key, r.loc(0), 'return value unifies to KiB over the estimator call tree')
    ctx.ok('estimator-call-tree', '-', '%d functions with integer locals analysed under %d public estimators, %d unit classes labelled' % (
        nfn, len(roots), len(uf.label)))


def allocating_fns(F):
    """Local functions that (transitively) reach an allocation call."""
    from rules.totality import ALLOC_SINKS
    direct = set()
    for f in F.fns:
        for bi, t, c in f.calls():
            if any(c.is_(n) for n in ALLOC_SINKS):
                direct.add(f.path)
    cg = F.callgraph()
    res = set(direct)
    changed = True
    while changed:
        changed = False
        for p, edges in cg.items():
            if p not in res and any(g.path in res for _, g in edges):
                res.add(p)
                changed = True
    return res


@rule('LIMIT-BEFORE-ALLOC', ['C17'], floor=1)
def limit_before_alloc(ctx):
    """A reader created with a memory limit compares the limit with the estimator's figure, and fails
    with out-of-memory, before any call that can allocate."""
    F = ctx.facts
    alloc = allocating_fns(F)
    n = 0
    for f in F.fns:
        if f.kind == 'closure' or not f.d.get('pub') or not f.self_adt:
            continue
        # constructors with a u32 "limit" parameter compared against an estimator result
        prov = Prov(f)
        est_calls = [(bi, t) for bi, t, c in f.calls() if any(g.name and 'memory_usage' in g.name for g in F.resolve_callee(c))]
        if not est_calls:
            continue
        for s in f.reachable:
            e = switch_edges(f, s)
            if e is None:
                continue
            cond = prov.operand(f.blocks[s]['term']['discr'])
            nc = norm_cmp(cond, True) if cond[0] in ('bin', 'un') else None
            if not nc or nc[0] not in ('Lt', 'Le'):
                continue
            sides = (nc[1], nc[2])
            lim = [x for x in sides if x[0] == 'param']
            est = [x for x in sides if any(y[0] == 'call' and 'memory_usage' in y[1] for y in expr_walk(x))]
            if not lim or not est:
                continue
            n += 1
            key = '%s:limit-checked-before-allocation' % f.key
            # which edge rejects: the one leading to Err(out_of_memory)
            rej = None
            for tgt in e:
                region = f.reach_from([tgt])
                if any(callee_of(f.blocks[b]['term']) and 'out_of_memory' in callee_of(f.blocks[b]['term'])['path']
                       for b in region if f.blocks[b]['term']['k'] == 'call') and not any(
                        f.blocks[b]['term']['k'] == 'call' and any(g.path in alloc for g in F.resolve_callee(Callee(callee_of(f.blocks[b]['term'])))) for b in region if callee_of(f.blocks[b]['term'])):
                    rej = tgt
            # polarity: reject when limit < need
            lim_is_lhs = nc[1][0] == 'param'
            # every allocating call must be dominated by this test
            ac = [bi for bi, t, c in f.calls() if any(g.path in alloc for g in F.resolve_callee(c))]
            early = [b for b in ac if not f.dominates(s, b)]
            if rej is None:
                ctx.violation(key, f.loc(s), 'limit comparison has no rejecting edge that ends in an out-of-memory error before allocating')
            elif not lim_is_lhs and nc[0] in ('Lt', 'Le') and rej == e[1]:
                ctx.violation(key, f.loc(s), 'inverted limit test: rejects when need < limit')
            elif early:
                ctx.violation(key, f.loc(early[0]), 'a call that can allocate (%s) runs before the memory-limit test' % (
                    last_seg(callee_of(f.blocks[early[0]]['term'])['path'])))
            else:
                ctx.ok(key, f.loc(s), 'limit < estimate rejects with out-of-memory before the %d allocating call(s)' % len(ac))
    if n == 0:
        ctx.anchor_missing('public constructor comparing a limit parameter with a memory estimator')


@rule('INT-OVF-EST', ['C17'], floor=10)
def int_ovf_est(ctx):
    """Estimator side: an estimator whose arithmetic can overflow u32 is not an upper bound. Every
    overflow assert in the loop-free scalar functions under the four public estimators is proven
    unreachable for the documented parameter ranges... (whole type for public parameters)."""
    F = ctx.facts
    roots = estimator_roots(F)
    if len(roots) < 3:
        return ctx.anchor_missing('public memory-usage estimators')
    reach = F.reachable_fns(roots)
    n = run_int_ovf(ctx, reach, 'caller-chosen')
    if n == 0:
        ctx.anchor_missing('scalar functions under the estimators')
