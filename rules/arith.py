"""INT-OVF (C06, C17): overflow/div-by-zero asserts in loop-free scalar functions proven unreachable by
interval analysis with caller-side guards; KIB-UNITS, LIMIT-BEFORE-ALLOC (C17)."""
from lzlint.framework import rule
from lzlint.core import (Prov, Callee, callee_of, strip_generics, last_seg, expr_walk, expr_str, op_local, op_place,
                         const_val, guards_of, norm_cmp, switch_edges)
from lzlint.intervals import Intervals, INF, TYMAX, TYMIN, ty_range, eval_lifted
from rules.totality import decoder_entry_points

SCALAR = set(TYMAX) | {'lz::lz_encoder::MFType', 'enc::encoder::EncodeMode', 'MFType', 'EncodeMode'}


def is_scalar_fn(f):
    if f.kind == 'closure' or f.loops():
        return False
    ins = f.d.get('inputs') or []
    if not ins:
        return False
    return all(t in SCALAR for t in ins)


def overflow_asserts(f):
    for bi, b in enumerate(f.blocks):
        if b['cleanup']:
            continue
        t = b['term']
        if t['k'] == 'assert' and (t['msg'].startswith('Overflow') or t['msg'] in ('DivisionByZero', 'RemainderByZero', 'OverflowNeg')):
            yield bi, t


def check_assert(iv, f, bi, t, prov):
    """Return (ok, detail)."""
    msg = t['msg']
    pos = '%d:T' % bi
    ops = [prov.operand(o, 0, pos) for o in t['msg_ops']]
    if msg in ('DivisionByZero', 'RemainderByZero'):
        # the divisor is the second operand of the following Div; the assert carries the dividend: find the cond
        cond = prov.operand(t['cond'], 0, pos)
        # cond = Eq(divisor, 0)
        if cond[0] == 'bin' and cond[1] == 'Eq':
            d = iv.eval(f, bi, cond[2])
            if d.lo >= 1 or d.hi <= -1:
                return True, 'divisor %r' % d
            return False, 'divisor %s may be zero (%r)' % (expr_str(cond[2])[:40], d)
        return False, 'unrecognised division assert'
    op = msg.split(':')[1] if ':' in msg else msg
    # result type: type of the first operand
    p0 = op_place(t['msg_ops'][0])
    ty = None
    for o in t['msg_ops']:
        k = o.get('k')
        if k:
            ty = k['ty']
        p = op_place(o)
        if p:
            ty = p['ty']
            break
    tr = ty_range(ty or '')
    if op in ('Shl', 'Shr'):
        amt, _ = eval_lifted(iv, f, bi, ops[1], 63) if len(ops) > 1 else (None, '')
        bits = {'u8': 8, 'u16': 16, 'u32': 32, 'u64': 64, 'usize': 64, 'i32': 32, 'i64': 64, 'i8': 8, 'i16': 16, 'isize': 64}.get(ty, 64)
        if amt is not None and amt.lo >= 0 and amt.hi < bits:
            return True, 'shift amount %r < %d' % (amt, bits)
        return False, 'shift amount %s in %r may reach %d bits' % (expr_str(ops[1])[:40], amt, bits)
    if len(ops) < 2:
        return False, 'unary overflow'
    if op in ('Div', 'Rem'):
        d = iv.eval(f, bi, ops[1])
        if d.lo > -1 or d.hi < -1:
            return True, 'signed division cannot be MIN / -1: divisor %r' % d
        return False, 'signed division may be MIN / -1 (divisor %r)' % d
    binop = {'Add': 'Add', 'Sub': 'Sub', 'Mul': 'Mul'}.get(op)
    if not binop:
        return False, 'op %s not modelled' % op
    e = ('bin', binop, ops[0], ops[1])
    r, where = eval_lifted(iv, f, bi, e, tr.hi if tr.hi != INF else (1 << 64))
    if r.lo >= tr.lo and r.hi <= tr.hi and not r.prop:
        return True, '%s in %r fits %s' % (binop, r, ty)
    if r.prop and binop != 'Sub' and r.hi <= tr.hi and ty in ('usize', 'u64'):
        return True, '%s bounded by held input length' % binop
    return False, '%s %s %s has range %r outside %s (worst context %s)' % (expr_str(ops[0])[:40], binop, expr_str(ops[1])[:40], r, ty, where)


def run_int_ovf(ctx, scope_paths, label):
    F = ctx.facts
    iv = Intervals(F, scope=set(scope_paths))
    n = 0
    for p in sorted(scope_paths):
        f = F.by_path[p]
        if not is_scalar_fn(f):
            continue
        prov = Prov(f)
        cnt = {}
        bad = []
        for bi, t in overflow_asserts(f):
            n += 1
            base = '%s:%s' % (f.key, t['msg'])
            cnt[base] = cnt.get(base, 0) + 1
            key = base if cnt[base] == 1 else '%s#%d' % (base, cnt[base])
            ok, detail = check_assert(iv, f, bi, t, prov)
            if ok:
                ctx.ok(key, f.loc(bi), detail)
            else:
                bad.append((bi, t['msg'], detail))
        if bad:
            # one finding per function: the root cause is the unbounded parameter, not each operator
            ctx.violation('%s:arith-overflow' % f.key, f.loc(bad[0][0]),
                          'arithmetic can overflow for %s input (panics in debug builds, wraps silently in release); '
                          '%d site(s): %s' % (label, len(bad), ' | '.join('%s %s' % (f.loc(b), d) for b, m, d in bad))[:900])
    return n


@rule('INT-OVF', ['C06'], floor=8)
def int_ovf_dec(ctx):
    """Decoder side: every overflow / division assert in a loop-free scalar function reachable from
    the decoder entry points is unreachable for every value the callers can pass (interval analysis
    with dominating guards at the call sites; public parameters range over their whole type)."""
    F = ctx.facts
    roots, _ = decoder_entry_points(F)
    # public free functions of the decoder modules (estimators, header helpers)
    for f in F.fns:
        if f.kind == 'fn' and f.d.get('pub') and f.file in ('src/lzma_reader.rs', 'src/lzma2_reader.rs', 'src/lzip.rs'):
            roots.append(f)
    reach = F.reachable_fns(roots)
    n = run_int_ovf(ctx, reach, 'untrusted')
    if n == 0:
        ctx.anchor_missing('scalar functions with overflow asserts reachable from decoders')


# --------------------------------------------------------------------------- KIB-UNITS (C17)

class UF:
    def __init__(self):
        self.p = {}
        self.label = {}
        self.why = {}

    def find(self, x):
        self.p.setdefault(x, x)
        while self.p[x] != x:
            self.p[x] = self.p[self.p[x]]
            x = self.p[x]
        return x

    def set_label(self, x, lab, why):
        r = self.find(x)
        old = self.label.get(r)
        if old == 'X':
            return None
        if old and old != lab:
            return (old, self.why.get(r), lab, why)
        self.label[r] = lab
        self.why.setdefault(r, why)
        return None

    def union(self, a, b, why):
        ra, rb = self.find(a), self.find(b)
        if ra == rb:
            return None
        la, lb = self.label.get(ra), self.label.get(rb)
        conflict = None
        if la and lb and la != lb and 'X' not in (la, lb):
            conflict = (la, self.why.get(ra), lb, self.why.get(rb))
        if conflict:
            return conflict   # keep the classes apart: the report stays at the site that joins them
        if 'X' in (la, lb):
            self.p[ra] = rb
            self.label[rb] = 'X'
            return None
        self.p[ra] = rb
        if la and not lb:
            self.label[rb] = la
            self.why[rb] = self.why.get(ra)
        return conflict


KIB_DIVISORS = {1024 // k for k in (1, 2, 4, 8, 16)}


def estimator_roots(F):
    out = []
    for f in F.fns:
        if f.kind == 'closure' or not f.d.get('pub'):
            continue
        if f.name and 'memory_usage' in f.name and (f.kind == 'fn' or (f.self_adt and F.adts.get(f.self_adt, {}).get('pub'))):
            if f.file in ('src/lzma_reader.rs', 'src/lzma2_reader.rs', 'src/enc/lzma2_writer.rs', 'src/lib.rs'):
                out.append(f)
    return out


@rule('KIB-UNITS', ['C17'], floor=4)
def kib_units(ctx):
    """Unit inference {bytes, KiB} over the estimator call tree: a value divided by a 1024-family
    constant is bytes and its quotient KiB; + / - / min / max operands and call arguments/results
    must agree. The public estimators return KiB."""
    F = ctx.facts
    roots = estimator_roots(F)
    if len(roots) < 3:
        return ctx.anchor_missing('public memory-usage estimators (found %d)' % len(roots))
    reach = F.reachable_fns(roots)
    uf = UF()
    conflicts = []
    def node(f, l):
        return (f.path, l)
    def opnode(f, op):
        p = op_place(op)
        if p is None:
            return None
        return node(f, p['l'])
    nfn = 0
    # callees before callers (DFS post-order over the call graph from the estimators)
    order = []
    seen_o = set()
    cg = F.callgraph()
    def dfs(p):
        if p in seen_o:
            return
        seen_o.add(p)
        for _, g in cg.get(p, []):
            if g.path in reach:
                dfs(g.path)
        order.append(p)
    for r in sorted(roots, key=lambda r: r.path):
        dfs(r.path)
    for pth in order:
        f = F.by_path[pth]
        ints = [i for i, l in enumerate(f.locals) if l['ty'] in ('u32', 'u64', 'usize', 'i32', '(u32, bool)', '(u64, bool)', '(usize, bool)') or l['ty'].startswith('std::result::Result<u32')]
        if not ints:
            continue
        nfn += 1
        isint = set(ints)
        for bi, b in enumerate(f.blocks):
            if b['cleanup']:
                continue
            for si, s in enumerate(b['stmts']):
                if s['k'] != 'assign' or s['lhs']['l'] not in isint:
                    continue
                lhs = node(f, s['lhs']['l'])
                rv = s['rv']
                where = f.loc(bi, si)
                r = rv['r']
                if r in ('use', 'cast'):
                    n = opnode(f, rv['o'])
                    if n and n[1] in isint:
                        c = uf.union(lhs, n, where)
                        if c:
                            conflicts.append((f, bi, si, c))
                elif r == 'agg' and rv.get('variant_name') in ('Ok', 'Some'):
                    n = opnode(f, rv['ops'][0]) if rv['ops'] else None
                    if n and n[1] in isint:
                        uf.union(lhs, n, where)
                elif r == 'bin':
                    op = rv['op'].replace('WithOverflow', '').replace('Unchecked', '')
                    na, nb = opnode(f, rv['a']), opnode(f, rv['b'])
                    ca, cb = const_val(rv['a']), const_val(rv['b'])
                    if op in ('Add', 'Sub'):
                        for n in (na, nb):
                            if n and n[1] in isint:
                                c = uf.union(lhs, n, where)
                                if c:
                                    conflicts.append((f, bi, si, c))
                                    # the mixed sum has no unit: do not cascade the report upwards
                                    r0 = uf.find(lhs)
                                    uf.p[lhs] = lhs
                                    uf.label[lhs] = 'X'
                                    
                    elif op == 'Div':
                        div = cb
                        if div is None and nb is not None:
                            # divisor computed as 1024 / k
                            dd = f.whole_defs(nb[1])
                            if len(dd) == 1 and dd[0][2] == 'assign' and dd[0][3]['rv']['r'] == 'bin' and dd[0][3]['rv']['op'] == 'Div':
                                x, y = const_val(dd[0][3]['rv']['a']), const_val(dd[0][3]['rv']['b'])
                                if x and y:
                                    div = x // y
                        if div in KIB_DIVISORS and na:
                            c = uf.set_label(na, 'bytes', 'divided by %d at %s' % (div, where))
                            if c:
                                conflicts.append((f, bi, si, c))
                            c = uf.set_label(lhs, 'KiB', 'quotient by %d at %s' % (div, where))
                            if c:
                                conflicts.append((f, bi, si, c))
                        elif na and na[1] in isint:
                            uf.union(lhs, na, where)
                    elif op in ('Mul', 'Shl', 'Shr', 'BitOr', 'BitAnd', 'Rem'):
                        for n, other_const in ((na, cb), (nb, ca)):
                            if n and n[1] in isint and (other_const is not None or op in ('BitOr', 'BitAnd')):
                                uf.union(lhs, n, where)
            t = b['term']
            if t['k'] == 'call':
                c = callee_of(t)
                if not c:
                    continue
                cal = Callee(c)
                dest = node(f, t['dest']['l']) if not t['dest']['p'] else None
                where = f.loc(bi)
                locs = [g for g in F.resolve_callee(cal) if g.path in reach]
                if locs:
                    for g in locs:
                        for i, a in enumerate(t['args']):
                            n = opnode(f, a)
                            if n and n[1] in isint and i + 1 <= g.arg_count and g.locals[i + 1]['ty'] in ('u32', 'u64', 'usize'):
                                cf = uf.union(n, (g.path, i + 1), where)
                                if cf:
                                    conflicts.append((f, bi, None, cf))
                        if dest and dest[1] in isint:
                            cf = uf.union(dest, (g.path, 0), where)
                            if cf:
                                conflicts.append((f, bi, None, cf))
                elif cal.name in ('min', 'max', 'saturating_sub', 'saturating_add', 'clamp', 'wrapping_sub', 'wrapping_add',
                                  'checked_sub', 'checked_add', 'unwrap', 'expect', 'branch', 'from', 'into', 'next_multiple_of'):
                    for a in t['args']:
                        n = opnode(f, a)
                        if n and n[1] in isint and dest and dest[1] in isint:
                            cf = uf.union(dest, n, where)
                            if cf:
                                conflicts.append((f, bi, None, cf))
        # payload extraction of `?`: (x as Continue).0 handled by 'use' of projected place: node is the base local
    # public estimators return KiB
    for r in roots:
        c = uf.set_label((r.path, 0), 'KiB', 'documented unit of public estimator %s' % r.key)
        if c:
            conflicts.append((r, 0, None, c))
    seen = set()
    for (f, bi, si, (la, wa, lb, wb)) in conflicts:
        key = '%s:unit-mismatch' % f.key
        if key in seen:
            continue
        seen.add(key)
        ctx.violation(key, f.loc(bi, si), 'a %s quantity (%s) is combined with a %s quantity (%s): the estimate mixes bytes and '
                      'KiB' % (la, wa, lb, wb))
    for r in roots:
        key = '%s:returns-KiB' % r.key
        if not any(k.startswith(r.key) for k in seen):
            ctx.ok(key, r.loc(0), 'return value unifies to KiB over the estimator call tree')
    ctx.ok('estimator-call-tree', '-', '%d functions with integer locals analysed under %d public estimators, %d unit classes labelled' % (
        nfn, len(roots), len(uf.label)))


def allocating_fns(F):
    """Local functions that (transitively) reach an allocation call."""
    from rules.totality import ALLOC_SINKS
    direct = set()
    for f in F.fns:
        for bi, t, c in f.calls():
            if any(c.is_(n) for n in ALLOC_SINKS):
                direct.add(f.path)
    cg = F.callgraph()
    res = set(direct)
    changed = True
    while changed:
        changed = False
        for p, edges in cg.items():
            if p not in res and any(g.path in res for _, g in edges):
                res.add(p)
                changed = True
    return res


@rule('LIMIT-BEFORE-ALLOC', ['C17'], floor=2)
def limit_before_alloc(ctx):
    """A reader created with a memory limit compares the limit with the estimator's figure, and fails
    with out-of-memory, before any call that can allocate."""
    F = ctx.facts
    alloc = allocating_fns(F)
    n = 0
    for f in F.fns:
        if f.kind == 'closure' or not f.d.get('pub') or not f.self_adt:
            continue
        # constructors with a u32 "limit" parameter compared against an estimator result
        prov = Prov(f)
        est_calls = [(bi, t) for bi, t, c in f.calls() if any(g.name and 'memory_usage' in g.name for g in F.resolve_callee(c))]
        if not est_calls:
            continue
        for s in f.reachable:
            e = switch_edges(f, s)
            if e is None:
                continue
            cond = prov.operand(f.blocks[s]['term']['discr'])
            nc = norm_cmp(cond, True) if cond[0] in ('bin', 'un') else None
            if not nc or nc[0] not in ('Lt', 'Le'):
                continue
            sides = (nc[1], nc[2])
            lim = [x for x in sides if x[0] == 'param']
            est = [x for x in sides if any(y[0] == 'call' and 'memory_usage' in y[1] for y in expr_walk(x))]
            if not lim or not est:
                continue
            n += 1
            key = '%s:limit-checked-before-allocation' % f.key
            # which edge rejects: the one leading to Err(out_of_memory)
            rej = None
            for tgt in e:
                region = f.reach_from([tgt])
                if any(callee_of(f.blocks[b]['term']) and 'out_of_memory' in callee_of(f.blocks[b]['term'])['path']
                       for b in region if f.blocks[b]['term']['k'] == 'call') and not any(
                        f.blocks[b]['term']['k'] == 'call' and any(g.path in alloc for g in F.resolve_callee(Callee(callee_of(f.blocks[b]['term'])))) for b in region if callee_of(f.blocks[b]['term'])):
                    rej = tgt
            # polarity: reject when limit < need
            lim_is_lhs = nc[1][0] == 'param'
            # every allocating call must be dominated by this test
            ac = [bi for bi, t, c in f.calls() if any(g.path in alloc for g in F.resolve_callee(c))]
            early = [b for b in ac if not f.dominates(s, b)]
            if rej is None:
                ctx.violation(key, f.loc(s), 'limit comparison has no rejecting edge that ends in an out-of-memory error before allocating')
            elif not lim_is_lhs and nc[0] in ('Lt', 'Le') and rej == e[1]:
                ctx.violation(key, f.loc(s), 'inverted limit test: rejects when need < limit')
            elif early:
                ctx.violation(key, f.loc(early[0]), 'a call that can allocate (%s) runs before the memory-limit test' % (
                    last_seg(callee_of(f.blocks[early[0]]['term'])['path'])))
            else:
                ctx.ok(key, f.loc(s), 'limit < estimate rejects with out-of-memory before the %d allocating call(s)' % len(ac))
            # the figure compared with the limit is computed from the very values the reader is then built with
            key2 = '%s:limit-checked-on-construction-parameters' % f.key
            for eb, et in est_calls:
                eargs = [prov.operand(a, 0, '%d:T' % eb) for a in et['args']]
                for b in ac:
                    t2 = f.blocks[b]['term']
                    gs = F.resolve_callee(Callee(callee_of(t2)))
                    if not any(g.self_adt == f.self_adt for g in gs) or not f.dominates(s, b):
                        continue
                    cargs = {expr_str(prov.operand(a, 0, '%d:T' % b)) for a in t2['args']}
                    missing = [expr_str(x)[:70] for x in eargs if expr_str(x) not in cargs]
                    if missing:
                        ctx.violation(key2, f.loc(eb), 'the memory need is estimated for %s but the reader is constructed with (%s): '
                                      'the limit test and the allocation can disagree' % (', '.join(missing), ', '.join(sorted(cargs))[:120]))
                    else:
                        ctx.ok(key2, f.loc(eb), 'estimator arguments (%s) are passed unchanged to %s' % (
                            ', '.join(expr_str(x)[:30] for x in eargs), last_seg(callee_of(t2)['path'])))
    if n == 0:
        ctx.anchor_missing('public constructor comparing a limit parameter with a memory estimator')


@rule('INT-OVF-EST', ['C17'], floor=10)
def int_ovf_est(ctx):
    """Estimator side: an estimator whose arithmetic can overflow u32 is not an upper bound. Every
    overflow assert in the loop-free scalar functions under the four public estimators is proven
    unreachable for the documented parameter ranges... (whole type for public parameters)."""
    F = ctx.facts
    roots = estimator_roots(F)
    if len(roots) < 3:
        return ctx.anchor_missing('public memory-usage estimators')
    reach = F.reachable_fns(roots)
    n = run_int_ovf(ctx, reach, 'caller-chosen')
    if n == 0:
        ctx.anchor_missing('scalar functions under the estimators')


# --------------------------------------------------------------------------- OPT-TAINT (C19)

OPTION_ADTS = ('LZMAOptions', 'LZMA2Options', 'XZOptions', 'LZIPOptions', 'FilterConfig')
WRITER_ADTS = ('LZMAWriter', 'LZMA2Writer', 'XZWriter', 'LZIPWriter', 'LZMA2WriterMT', 'LZIPWriterMT', 'BCJWriter',
               'DeltaWriter')


def writer_ctor_roots(F):
    roots = []
    for f in F.fns:
        if f.kind == 'closure' or not f.self_adt:
            continue
        adt = last_seg(f.self_adt)
        if adt in WRITER_ADTS and f.d.get('pub') and not (f.impl and f.impl.get('trait')):
            first = f.locals[1].get('name') if f.arg_count >= 1 else None
            if first != 'self':
                roots.append(f)
        if adt in OPTION_ADTS and f.d.get('pub') and not (f.impl and f.impl.get('trait')):
            roots.append(f)
    return roots


def _exc_lzip_dict(F, f):
    """lzip::encode_dict_size is only called with LZIPWriter's stored dict_size, which the
    constructor overwrote with clamp(MIN_DICT_SIZE, MAX_DICT_SIZE)."""
    callers = []
    for g in F.fns:
        for bi, t, c in g.calls():
            if c.path == f.path:
                callers.append(g)
    if not callers or any(last_seg(g.self_adt or '') not in ('LZIPWriter',) for g in callers):
        return False, ''
    ctor = [g for g in F.fns if g.self_adt == callers[0].self_adt and g.name == 'new']
    if not ctor:
        return False, ''
    pg = Prov(ctor[0])
    for bi, b in enumerate(ctor[0].blocks):
        for s in b['stmts']:
            if s['k'] == 'assign' and s['lhs']['p'] and isinstance(s['lhs']['p'][-1], dict) and s['lhs']['p'][-1].get('n') == 'dict_size':
                v = pg.rvalue(s['rv'], 0)
                cl = [x for x in expr_walk(v) if x[0] == 'call' and x[1].endswith('clamp')]
                if cl and cl[0][2][1][0] == 'const' and cl[0][2][1][2] >= 4096 and cl[0][2][2][0] == 'const':
                    return True, ('only caller is LZIPWriter, whose constructor stores dict_size.clamp(%d, %d) before any use '
                                  '(checked on the constructor MIR): 1 <= leading_zeros <= 19, no underflow' % (cl[0][2][1][2], cl[0][2][2][2]))
    return False, ''


# functions outside the interval domain (DESIGN.md 3.2): listed as "not decided", never as "fine"
OPT_NOT_DECIDED = {
    'LZMAEncoder::get_dist_slot': 'total for dist >= 5 because `i` tracks the leading one of `n` (bit-level invariant '
                                  'outside an interval domain); not decided',
}
OPT_EXCEPTIONS = {'lzip::encode_dict_size': _exc_lzip_dict}


class OptionDerived:
    """Does an expression carry a public option value (a pub field of an option struct, or a
    parameter of a public constructor) — directly, through call arguments, or through a struct field
    that is only ever initialised from such a value?"""

    def __init__(self, F, iv, reach):
        self.F = F
        self.iv = iv
        self.reach = reach
        self.memo = {}

    def derived(self, fn, e, depth=0):
        for x in expr_walk(e):
            if x[0] == 'field' and len(x) > 3 and x[3]:
                r = self.field(x[3], x[2], depth)
                if r:
                    return r
            elif x[0] == 'param':
                r = self.param(fn, x[1], depth)
                if r:
                    return r
        return None

    def field(self, owner, name, depth):
        k = ('F', owner, name)
        if k in self.memo:
            return self.memo[k]
        self.memo[k] = None
        adt = self.F.adt(owner)
        if adt is None:
            return None
        fl = [x for x in adt['variants'][0]['fields'] if x['name'] == name]
        if not fl or fl[0]['ty'] not in TYMAX:
            return None
        if owner in OPTION_ADTS and fl[0].get('pub'):
            self.memo[k] = '%s.%s' % (owner, name)
            return self.memo[k]
        return None   # internal struct fields are run-time state: not followed
        if depth > 3:
            return None
        res = None
        for g in self.F.fns:
            if g.path not in self.reach:
                continue
            pg = None
            for bi, b in enumerate(g.blocks):
                if b['cleanup']:
                    continue
                for s in b['stmts']:
                    if s['k'] != 'assign':
                        continue
                    rv = s['rv']
                    lp = s['lhs']['p']
                    if lp and isinstance(lp[-1], dict) and lp[-1].get('n') == name and last_seg(lp[-1].get('o')) == owner:
                        # mutated after construction: run-time state, not an option carrier
                        self.memo[k] = None
                        return None
                    if rv['r'] == 'agg' and rv.get('kind') == 'adt' and last_seg(rv['adt']) == owner and name in rv['fields']:
                        pg = pg or self.iv.prov(g)
                        val = pg.operand(rv['ops'][rv['fields'].index(name)])
                        r = self.derived(g, val, depth + 1)
                        if r:
                            res = r
        self.memo[k] = res
        return res

    def param(self, fn, idx, depth):
        k = ('P', fn.path, idx)
        if k in self.memo:
            return self.memo[k]
        self.memo[k] = None
        if fn.local_ty(idx) not in TYMAX:
            return None
        res = None
        if fn.d.get('pub') and fn.self_adt and last_seg(fn.self_adt) in WRITER_ADTS and (fn.arg_count < 1 or fn.locals[1].get('name') != 'self'):
            res = '%s(%s)' % (fn.key, fn.local_name(idx))
        if res is None and depth <= 3:
            for (g, bi, t) in self.iv.callers(fn):
                if idx - 1 < len(t['args']):
                    r = self.derived(g, self.iv.prov(g).operand(t['args'][idx - 1]), depth + 1)
                    if r:
                        res = r
                        break
        self.memo[k] = res
        return res


@rule('OPT-TAINT', ['C19'], floor=20)
def opt_taint(ctx):
    """Every public option value a caller can set reaches, unvalidated, no overflow / shift /
    subtraction that can trap or wrap: in the loop-free functions reachable from the writer
    constructors and the option structs' methods each arithmetic assert is proven unreachable with
    the public option fields and constructor parameters ranging over their whole type; the
    properties byte handed to the stream fits its u8."""
    F = ctx.facts
    roots = writer_ctor_roots(F)
    if len(roots) < 8:
        return ctx.anchor_missing('writer constructors / option methods (found %d)' % len(roots))
    # constructor call tree only: do not follow the closures handed to thread::spawn (worker run time)
    from rules.concurrency import worker_fns
    workers = {f.path for f, _, _ in worker_fns(F)}
    reach = {}
    stack = list(roots)
    cg = F.callgraph()
    while stack:
        f = stack.pop()
        if f.path in reach or f.path in workers or f.kind == 'closure':
            continue
        reach[f.path] = True
        for _, g in cg[f.path]:
            stack.append(g)
    iv = Intervals(F, scope=set(reach))
    od = OptionDerived(F, iv, reach)
    n = 0
    for p in sorted(reach):
        f = F.by_path[p]
        if f.kind == 'closure' or f.loops():
            continue
        if f.key in OPT_NOT_DECIDED:
            ctx.info('%s:not-decided' % f.key, f.loc(0), OPT_NOT_DECIDED[f.key])
            continue
        prov = Prov(f)
        bad = []
        cnt = {}
        for bi, t in overflow_asserts(f):
            pos = '%d:T' % bi
            ops = [prov.operand(o, 0, pos) for o in t['msg_ops']]
            if t['msg'] in ('DivisionByZero', 'RemainderByZero'):
                ops = [prov.operand(t['cond'], 0, pos)]
            src = None
            for o in ops:
                src = src or od.derived(f, o)
            if not src:
                continue   # run-time state arithmetic: not an option-validation question
            n += 1
            base = '%s:%s' % (f.key, t['msg'])
            cnt[base] = cnt.get(base, 0) + 1
            key = base if cnt[base] == 1 else '%s#%d' % (base, cnt[base])
            ok, detail = check_assert(iv, f, bi, t, prov)
            if ok:
                ctx.ok(key, f.loc(bi), detail + ' (from %s)' % src)
            else:
                bad.append((bi, t['msg'], detail + ' (from %s)' % src))
        if bad and f.key in OPT_EXCEPTIONS:
            okx, why = OPT_EXCEPTIONS[f.key](F, f)
            if okx:
                ctx.exception('%s:option-arith' % f.key, f.loc(bad[0][0]), why)
                bad = []
        if bad:
            ctx.violation('%s:option-arith' % f.key, f.loc(bad[0][0]),
                          'unvalidated option values reach arithmetic that can trap/wrap; %d site(s): %s' % (
                              len(bad), ' | '.join('%s %s' % (f.loc(b), d) for b, m, d in bad))[:900])
        # u8-returning option encoders: the value must fit
        if f.d.get('output') == 'u8' and f.self_adt and last_seg(f.self_adt) in OPTION_ADTS:
            for (bi, si, k, node) in f.whole_defs(0):
                if k == 'assign' and node['rv']['r'] == 'cast':
                    n += 1
                    e = prov.operand(node['rv']['o'], 0, '%d:%d' % (bi, si))
                    r = iv.eval(f, bi, e)
                    key = '%s:fits-u8' % f.key
                    if r.hi <= 255 and r.lo >= 0:
                        ctx.ok(key, f.loc(bi, si), 'value in %r' % r)
                    else:
                        ctx.violation(key, f.loc(bi, si), 'the byte written into the stream header is a truncation of %s with '
                                      'range %r: out-of-range lc/lp/pb are silently encoded as a different (undecodable) '
                                      'properties byte' % (expr_str(e)[:60], r))
    if n == 0:
        ctx.anchor_missing('arithmetic in writer constructors')


def self_field_of_safe(x):
    from lzlint.core import self_field_of
    try:
        return self_field_of(x) is not None
    except Exception:
        return False


def _has_state_leaf(e):
    """True if e mentions a local, parameter or object field outside the argument lists of the
    input-read calls themselves."""
    stack = [e]
    while stack:
        x = stack.pop()
        if not isinstance(x, tuple):
            continue
        if x[0] == 'call' and x[1].split('::')[-1] in INPUT_CALLS:
            continue
        if x[0] in ('local', 'param'):
            return True
        if x[0] == 'field' and self_field_of_safe(x):
            return True
        for y in x[1:]:
            if isinstance(y, tuple):
                stack.append(y)
            elif isinstance(y, list):
                stack.extend(y)
    return False


INPUT_CALLS = ('read_u8', 'read_u16', 'read_u16_be', 'read_u32', 'read_u32_be', 'read_u64', 'from_le_bytes', 'from_be_bytes',
               'parse_multibyte_integer', 'parse_multibyte_integer_from_reader')


def _input_derived(e):
    for x in expr_walk(e):
        if x[0] == 'call' and x[1].split('::')[-1] in INPUT_CALLS:
            return x[1].split('::')[-1]
    return None


@rule('INT-OVF-INPUT', ['C06'], floor=5)
def int_ovf_input(ctx):
    """Arithmetic applied directly to a value just read from the input (read_u8/u16/u32/u64,
    from_*_bytes, multibyte integers) cannot overflow: every overflow assert in a decoder-reachable
    function whose operand derives, within that function, from such a read is proven unreachable by
    the interval analysis (type range of the field, refined by dominating checks)."""
    F = ctx.facts
    roots, _ = decoder_entry_points(F)
    reach = F.reachable_fns(roots)
    iv = Intervals(F, scope=set(reach))
    n = 0
    for p in sorted(reach):
        f = F.by_path[p]
        if f.kind == 'closure':
            continue
        prov = Prov(f)
        bad = []
        for bi, t in overflow_asserts(f):
            pos = '%d:T' % bi
            ops = [prov.operand(o, 0, pos) for o in t['msg_ops']]
            src = None
            for o in ops:
                src = src or _input_derived(o)
            if not src:
                continue
            # exact scope: operands are closed expressions over freshly read input fields and constants only
            # (locals, parameters and struct fields carry run-time state and are out of scope: no widening)
            if any(_has_state_leaf(o) for o in ops):
                continue
            n += 1
            ok, detail = check_assert(iv, f, bi, t, prov)
            key = '%s:%s:on-%s' % (f.key, t['msg'], src)
            if ok:
                ctx.ok(key + ('#%d' % n), f.loc(bi), detail)
            else:
                bad.append((bi, detail, src))
        if bad:
            ctx.violation('%s:input-arith-overflow' % f.key, f.loc(bad[0][0]),
                          'arithmetic on a field read from the input can overflow (panic in debug builds, silent wrap in release); '
                          '%d site(s): %s' % (len(bad), ' | '.join('%s %s' % (f.loc(b), d) for b, d, s in bad))[:700])
    if n == 0:
        ctx.anchor_missing('arithmetic on input-derived values')


# --------------------------------------------------------------------------- OPT-VALIDATE (C19)

# constructor key -> number of option-validation exits confirmed by reading the pinned (repaired) tree
VALIDATION_FLOORS = {
    'XZWriter::new': 2,                    # too many pre-filters / filter property out of range
    'XZWriter::write_block_header': 1,     # filter chain longer than the format allows
    'XZWriter::encode_lzma2_dict_size': 2, # below 4 KiB / above the largest encodable size
    'LZMAWriter::new': 2,                  # preset dictionary with a .lzma header / header without size and end marker
    'LZMA2WriterMT::new': 2,               # chunk size missing / does not fit usize
    'LZIPWriterMT::new': 2,                # member size missing / does not fit usize
    'lzip::encode_dict_size': 1,           # dictionary size outside the encodable range
}


def validation_exits(f):
    """Blocks that build an `Err(error_invalid_input/unsupported/invalid_data(..))` (or map_err to
    one) under a condition: the option-validation exits of a constructor."""
    n = 0
    where = []
    for bi, t, c in f.calls():
        if c.name in ('error_invalid_input', 'error_unsupported', 'error_invalid_data', 'error_out_of_memory'):
            n += 1
            where.append(bi)
    for cl in f.facts.closures_of(f):
        for bi, t, c in cl.calls():
            if c.name in ('error_invalid_input', 'error_unsupported', 'error_invalid_data'):
                n += 1
                where.append(0)
    return n, where


@rule('OPT-VALIDATE', ['C19'], floor=7)
def opt_validate(ctx):
    """The option validation that exists is kept: each writer constructor / header encoder still has
    at least the number of rejecting exits (Err for an unusable option value) confirmed on the pinned
    tree, and LZIPWriter::new still clamps the dictionary size into the format's range."""
    F = ctx.facts
    for key, floor in sorted(VALIDATION_FLOORS.items()):
        f = F.fn(key)
        if f is None:
            ctx.anchor_missing(key)
            continue
        n, where = validation_exits(f)
        k = '%s:validation-exits' % key
        if n >= floor:
            ctx.ok(k, f.loc(where[0] if where else 0), '%d rejecting exit(s) (confirmed floor %d)' % (n, floor))
        else:
            ctx.violation(k, f.loc(0), 'only %d option-validation exit(s) left where %d were confirmed: an unusable option value that '
                          'used to be rejected is now accepted silently' % (n, floor))
    ok, why = _exc_lzip_dict(F, F.fn('lzip::encode_dict_size')) if F.fn('lzip::encode_dict_size') else (False, '')
    if ok:
        ctx.ok('LZIPWriter::new:dict-size-clamped', '-', why[:160])
    else:
        ctx.violation('LZIPWriter::new:dict-size-clamped', '-', 'LZIPWriter::new no longer stores dict_size.clamp(4 KiB, 512 MiB): out-of-range '
                      'dictionary sizes reach the header encoder and the encoder unvalidated')


OPT_ALLOC_LIMIT = 1 << 34   # elements: anything a u32 option can reach (dict_size * small factor); a u64 option cannot stay below


@rule('OPT-ALLOC', ['C19'], floor=6)
def opt_alloc(ctx):
    """No allocation in the writer-constructor call tree is sized by an unclamped 64-bit option (chunk /
    member / block size, worker counts): `Vec::with_capacity(n)` panics with "capacity overflow" for
    n > isize::MAX and aborts the process for sizes beyond memory, so such an option value would be a
    panic instead of an error. Sizes derived from 32-bit options (dictionary size) are bounded by type."""
    from rules.totality import ALLOC_SINKS
    from lzlint.intervals import eval_lifted, INF
    F = ctx.facts
    roots = writer_ctor_roots(F)
    if len(roots) < 8:
        return ctx.anchor_missing('writer constructors / option methods (found %d)' % len(roots))
    from rules.concurrency import worker_fns
    workers = {f.path for f, _, _ in worker_fns(F)}
    reach = {}
    stack = list(roots)
    cg = F.callgraph()
    while stack:
        f = stack.pop()
        if f.path in reach or f.path in workers or f.kind == 'closure':
            continue
        reach[f.path] = True
        for _, g in cg[f.path]:
            stack.append(g)
    iv = Intervals(F, scope=set(reach))
    n = 0
    cnt = {}
    for p in sorted(reach):
        f = F.by_path[p]
        prov = None
        for bi, t, c in f.calls():
            idx = None
            for nm, i in ALLOC_SINKS.items():
                if c.is_(nm):
                    idx = i
            if idx is None or idx >= len(t['args']):
                continue
            prov = prov or Prov(f)
            size = prov.operand(t['args'][idx], 0, '%d:T' % bi)
            # a Layout argument: the byte size is the first argument of Layout::from_size_align
            for x in expr_walk(size):
                if x[0] == 'call' and x[1].endswith('from_size_align') and x[2]:
                    size = x[2][0]
                    break
            base = '%s:%s' % (f.key, c.name)
            cnt[base] = cnt.get(base, 0) + 1
            key = base if cnt[base] == 1 else '%s#%d' % (base, cnt[base])
            n += 1
            r, where = eval_lifted(iv, f, bi, size, OPT_ALLOC_LIMIT)
            if r.hi != INF and r.hi <= OPT_ALLOC_LIMIT:
                ctx.ok(key, f.loc(bi), 'size %s in %r (%s)' % (expr_str(size)[:60], r, where), nontrivial=size[0] != 'const')
            else:
                ctx.violation(key, f.loc(bi), 'allocation of %s elements is sized by an option value without an upper clamp '
                              '(interval %r, context %s): a huge chunk/member/block size panics with "capacity overflow" or '
                              'aborts instead of returning an error' % (expr_str(size)[:70], r, where))
    if n == 0:
        ctx.anchor_missing('allocation sites in the writer constructors')


@rule('POS-WRAP', ['C06', 'C11'], floor=6)
def pos_wrap(ctx):
    """Branch-address conversion works modulo 2^32: in the BCJ/BCJ2 filter code every 32-bit addition or
    subtraction that involves the running stream position (a usize position field cast down to 32 bits, or a
    32-bit position field advanced in place) uses wrapping arithmetic. A checked `+`/`-` there traps as soon
    as the position (start offset from the container header plus bytes processed) reaches 2^31 / 2^32: a tiny
    XZ file with a large BCJ start offset panics the reader."""
    F = ctx.facts
    n = 0
    for f in F.fns:
        if not f.file.startswith('src/filter/') or f.kind == 'closure':
            continue
        prov = None
        sites = []
        examined = 0
        for bi, t in overflow_asserts(f):
            msg = t['msg']
            if not (msg.startswith('Overflow:Add') or msg.startswith('Overflow:Sub')):
                continue
            tys = [(op_place(o) or {}).get('ty') or (o.get('k') or {}).get('ty') for o in t['msg_ops']]
            if not any(ty in ('i32', 'u32') for ty in tys):
                continue
            prov = prov or Prov(f)
            ops = [prov.operand(o, 0, '%d:T' % bi) for o in t['msg_ops']]
            examined += 1
            pos_cast = any(x[0] == 'cast' and x[1] in ('i32', 'u32') and any(
                y[0] == 'field' and self_field_of_safe(y) and f.local_ty(1) and 'usize' in _field_ty(F, f, y) for y in expr_walk(x[2]))
                for o in ops for x in expr_walk(o))
            # a 32-bit position field advanced in place by something that is not derived from the field itself
            selfops = [o for o in ops if o[0] == 'field' and self_field_of_safe(o) and _field_ty(F, f, o) in ('u32', 'i32')]
            others = [o for o in ops if o not in selfops]
            self32 = bool(selfops) and bool(others) and all(o[0] != 'const' for o in others) and \
                not any(x[0] == 'field' and x[2] == selfops[0][2] for o in others for x in expr_walk(o)) and \
                selfops[0][2] in ('ip', 'pos')
            if pos_cast or self32:
                sites.append((bi, msg, ' '.join(expr_str(o)[:30] for o in ops)))
        if not examined and not any(b['term']['k'] == 'call' and (callee_of(b['term']) or {}).get('name', '').startswith('wrapping_') for b in f.blocks):
            continue
        # only functions that deal with the position at all
        prov = prov or Prov(f)
        touches_pos = any(st['k'] == 'assign' and st['lhs']['l'] == 1 and st['lhs']['p'] and
                          any(isinstance(pe, dict) and pe.get('n') in ('pos', 'ip') for pe in st['lhs']['p'])
                          for b in f.blocks if not b['cleanup'] for st in b['stmts'])
        if not touches_pos:
            continue
        n += 1
        key = '%s:position-arithmetic-wraps' % f.key
        if sites:
            ctx.violation(key, f.loc(sites[0][0]), '%d checked 32-bit operation(s) on the stream position (%s): traps once the position reaches '
                          '2^31 (e.g. XZ block header with a BCJ start offset of 0x80000000, or 2 GiB of data)' % (
                              len(sites), '; '.join('%s %s' % (m.split(':')[1], d) for _, m, d in sites[:3])))
        else:
            ctx.ok(key, f.loc(0), 'no checked 32-bit add/sub involves the stream position')
    if n == 0:
        ctx.anchor_missing('filter functions advancing a stream position')


def _field_ty(F, fn, fe):
    """type of the struct field read by a ('field', base, name, owner) expression"""
    owner = fe[3] if len(fe) > 3 else None
    for p, a in F.adts.items():
        if owner and last_seg(p) == owner:
            for v in a['variants'][:1]:
                for fl in v['fields']:
                    if fl['name'] == fe[2]:
                        return fl['ty']
    return ''


# --------------------------------------------------------------------------- COUNTER-WIDTH

@rule('COUNTER-WIDTH', ['C06'], floor=3)
def counter_width(ctx):
    """A counter that a decoder advances once per input byte (or per unit of input) inside a loop that pulls from the
    source is bounded only by the length of the input, which is the caller's, not the format's: it must be 64 bits
    wide (u64 / usize / i64). A 32-bit counter overflows after 2^31 or 2^32 iterations: a panic in builds with overflow
    checks on an input that is merely long (e.g. 2 GiB of legal XZ stream padding). Instances: every
    `x = x + const` (checked add) on a named local in a loop of the reader files whose body calls into the source."""
    from lzlint.core import op_const
    F = ctx.facts
    FILES = ('src/xz/reader.rs', 'src/xz.rs', 'src/lzip.rs', 'src/lzip/reader.rs', 'src/lzip/reader_mt.rs', 'src/lzma2_reader.rs',
             'src/lzma_reader.rs', 'src/lzma2_reader_mt.rs')
    PULL = ('read', 'read_exact', 'read_u8', 'read_byte', 'read_u32', 'read_u64', 'read_up_to', 'read_to_end')
    n = 0
    for f in F.fns:
        if f.file not in FILES or f.kind == 'closure':
            continue
        loops = f.loops()
        if not loops:
            continue
        for h, body in loops.items():
            pulls = [bi for bi, t, c in f.calls() if bi in body and c.name in PULL]
            if not pulls:
                continue
            for b in sorted(body):
                for s in f.blocks[b]['stmts']:
                    if s['k'] != 'assign' or s['rv']['r'] != 'bin' or s['rv']['op'] != 'AddWithOverflow':
                        continue
                    la, cb = op_local(s['rv']['a']), op_const(s['rv']['b'])
                    if la is None or cb is None or not f.locals[la].get('name'):
                        continue
                    # the sum flows back into the same local (x += c)
                    back = any(st['k'] == 'assign' and st['lhs']['l'] == la and not st['lhs']['p'] and st['rv']['r'] == 'use' and
                               (op_place(st['rv']['o']) or {}).get('l') == s['lhs']['l']
                               for b2 in body for st in f.blocks[b2]['stmts'])
                    if not back:
                        continue
                    # bounded by a loop guard against a constant (e.g. `while pos < 6`)? then the width does not matter
                    prov = Prov(f)
                    bounded = False
                    for sb in body:
                        t = f.blocks[sb]['term']
                        if t['k'] != 'switch':
                            continue
                        c = prov.operand(t['discr'], 0, '%d:T' % sb)
                        nc = norm_cmp(c, True) if c[0] in ('bin', 'un') else None
                        if nc and nc[0] in ('Lt', 'Le') and nc[1][0] == 'local' and nc[1][1] == la and nc[2][0] == 'const':
                            bounded = True
                        if nc and nc[0] in ('Lt', 'Le') and nc[2][0] == 'local' and nc[2][1] == la and nc[1][0] == 'const' and \
                                any(w not in body for w in f.succs(sb)):
                            bounded = True   # `if counter >= K { leave }`
                    # a `for _ in a..b` loop with constant bounds runs a fixed number of rounds
                    for cb_, ct, cc in f.calls():
                        if cb_ in body and cc.name == 'next' and ct['args']:
                            it = prov.operand(ct['args'][0], 0, '%d:T' % cb_)
                            for x in expr_walk(it):
                                if x[0] == 'agg' and str(x[1]).endswith('Range::Range') and len(x[2]) == 2 and all(y[0] == 'const' for y in x[2]):
                                    bounded = True
                    n += 1
                    ty = f.locals[la]['ty']
                    key = '%s:counter-%s' % (f.key, f.locals[la]['name'])
                    if bounded:
                        ctx.ok(key, f.loc(b), '`%s`: %s, bounded by a constant loop guard' % (f.locals[la]['name'], ty))
                    elif ty in ('u64', 'usize', 'i64', 'u128'):
                        ctx.ok(key, f.loc(b), '`%s`: %s' % (f.locals[la]['name'], ty))
                    else:
                        ctx.violation(key, f.loc(b), 'the counter `%s` (%s) is advanced in a loop that reads from the source and is bounded only by the '
                                      'length of the input: it overflows after 2^%d rounds (panic with overflow checks)' %
                                      (f.locals[la]['name'], ty, 31 if ty.startswith('i') else 32))
    if not n:
        ctx.anchor_missing('per-input counters in reader loops')
