"""Unit/typestate/ordering rules: BLOCK-TYPESTATE (C02), UNPADDED-ORDER (C03), UNIT-CLAMP, OPT-CLAMP,
EXPECTED-SIZE (C18), MULTISTREAM-GUARD (C12, C16), LIMIT-BEFORE-ALLOC (C17)."""
from collections import deque

from lzlint.framework import rule
from lzlint.core import (Prov, Callee, callee_of, strip_generics, last_seg, expr_walk, expr_str, op_local, op_place,
                         const_val, guards_of, norm_cmp, switch_edges, self_field_of)
from rules.io import slice_base, buf_alias_locals, is_trait_call, WRITE_TRAITS, READ_TRAITS, derives_from_param


def methods_of(F, adt):
    return [f for f in F.fns if f.self_adt and last_seg(f.self_adt) == adt and f.kind != 'closure']


def self_field_stores(fn):
    """Yield (bb, si, field_name, rvalue) for stores `self.<field> = rv` (first-level field)."""
    for bi, b in enumerate(fn.blocks):
        if b['cleanup']:
            continue
        for si, s in enumerate(b['stmts']):
            if s['k'] != 'assign':
                continue
            lhs = s['lhs']
            if lhs['l'] == 1 and len(lhs['p']) == 2 and lhs['p'][0] == '*' and isinstance(lhs['p'][1], dict) and 'f' in lhs['p'][1]:
                yield bi, si, lhs['p'][1]['n'], s['rv']


def mentions_self_field(e, name):
    for x in expr_walk(e):
        if x[0] == 'field' and x[2] == name:
            sf = self_field_of(x)
            if sf is not None:
                return True
    return False


CODEC_CTORS = ('LZMA2Writer::new', 'LZMAWriter::new', 'LZMAWriter::new_no_header', 'LZMAWriter::new_use_header')


def bool_method_summary(F, fn, counter_fields, flag_fields):
    """For a `&self -> bool` helper: True if every non-false value it returns is a comparison that
    proves `counter >= 1` (counter >= NonZero::get / counter > x / counter != 0) or the open flag."""
    if fn.d.get('output') != 'bool':
        return False
    prov = Prov(fn)
    vals = []
    for (bi, si, k, node) in fn.whole_defs(0):
        if k == 'assign':
            vals.append(prov.rvalue(node['rv'], 0))
        else:
            return False
    if not vals:
        return False
    proving = 0
    for v in vals:
        if v[0] == 'const' and v[2] in (0, False):
            continue
        if open_evidence(F, v, True, counter_fields, flag_fields, depth=1):
            proving += 1
        else:
            return False
    return proving > 0


def open_evidence(F, cond, pol, counter_fields, flag_fields, depth=0):
    """Does `cond` evaluated to `pol` prove that a unit is open?"""
    c = cond
    p = pol
    while c[0] == 'un' and c[1] == 'Not':
        c = c[2]
        p = not p
    # open flag read
    if c[0] in ('field', 'deref') and p:
        for fl in flag_fields:
            if mentions_self_field(c, fl):
                return True
    if c[0] == 'bin':
        nc = norm_cmp(c, p)
        if nc:
            op, a, b = nc
            for cf in counter_fields:
                a_is = mentions_self_field(a, cf) and a[0] in ('field', 'deref')
                b_is = mentions_self_field(b, cf) and b[0] in ('field', 'deref')
                if op == 'Le' and b_is:   # x <= counter
                    if (a[0] == 'const' and isinstance(a[2], int) and a[2] >= 1) or \
                            any(y[0] == 'call' and 'NonZero' in y[1] and y[1].endswith('::get') for y in expr_walk(a)):
                        return True
                if op == 'Lt' and b_is:   # x < counter
                    return True
                if op == 'Ne' and ((a_is and b[0] == 'const' and b[2] == 0) or (b_is and a[0] == 'const' and a[2] == 0)):
                    return True
    if c[0] == 'call' and p and depth == 0:
        callee = c[3]
        cd = callee_of(callee)
        if cd and cd.get('local'):
            g = F.by_path.get(cd['path'])
            if g is not None and bool_method_summary(F, g, counter_fields, flag_fields):
                return True
    return False


class OpenAnalysis:
    def __init__(self, F, adt, closer):
        self.F = F
        self.adt = adt
        self.closer = closer
        self.methods = methods_of(F, adt)
        # state the closer resets
        self.flag_fields = []
        self.counter_fields = []
        for bi, si, name, rv in self_field_stores(closer):
            if rv['r'] == 'use':
                v = const_val(rv['o'])
                k = rv['o'].get('k')
                if k is not None and k['ty'] == 'bool' and v in (0, False):
                    self.flag_fields.append(name)
                elif k is not None and k['ty'] in ('u64', 'usize', 'u32') and v == 0:
                    self.counter_fields.append(name)
        self.memo = {}

    def evidence_edges_and_blocks(self, fn):
        """(set of evidence edges (src,dst), set of evidence call blocks)."""
        prov = Prov(fn)
        edges = set()
        blocks = set()
        for s in fn.reachable:
            e = switch_edges(fn, s)
            if e is None or e[0] == e[1]:
                continue
            cond = prov.operand(fn.blocks[s]['term']['discr'])
            if open_evidence(self.F, cond, True, self.counter_fields, self.flag_fields):
                edges.add((s, e[1]))
            if open_evidence(self.F, cond, False, self.counter_fields, self.flag_fields):
                edges.add((s, e[0]))
        for bi, t, c in fn.calls():
            if c.is_(*CODEC_CTORS):
                blocks.add(bi)
                continue
            for g in self.F.resolve_callee(c):
                if g.self_adt == fn.self_adt and g.path != self.closer.path and self.opens(g):
                    blocks.add(bi)
        return edges, blocks

    def unproven_region(self, fn):
        """Blocks reachable from entry without passing open-evidence."""
        edges, blocks = self.evidence_edges_and_blocks(fn)
        seen = set()
        dq = deque([0])
        while dq:
            b = dq.popleft()
            if b in seen:
                continue
            seen.add(b)
            if b in blocks:
                continue  # after a successful opener call the unit is open
            for s in fn.succs(b):
                if (b, s) in edges:
                    continue
                dq.append(s)
        return seen

    def opens(self, fn, depth=0):
        """On every normal return of fn, a unit is open."""
        if fn.path in self.memo:
            return self.memo[fn.path]
        self.memo[fn.path] = False
        if depth > 4:
            return False
        region = self.unproven_region(fn)
        rets = [b for b in region if fn.blocks[b]['term']['k'] == 'return']
        # only Ok returns matter: an Err return aborts the caller through `?`
        bad = False
        for r in rets:
            bad = True
        if bad:
            # tolerate returns that are Err: check each return-reaching path ends with Err aggregate
            bad = self._has_ok_return_in(fn, region)
        self.memo[fn.path] = not bad
        return not bad

    def _has_ok_return_in(self, fn, region):
        """Is there a path inside `region` from entry to return that does not assign Err to _0?"""
        # blocks (in region) that assign an Err/from_residual to _0
        errb = set()
        for b in region:
            for s in fn.blocks[b]['stmts']:
                if s['k'] == 'assign' and s['lhs']['l'] == 0 and not s['lhs']['p'] and s['rv']['r'] == 'agg' and \
                        s['rv'].get('variant_name') == 'Err':
                    errb.add(b)
            t = fn.blocks[b]['term']
            if t['k'] == 'call':
                c = callee_of(t)
                if c and strip_generics(c['path']).endswith('from_residual') and t['dest']['l'] == 0:
                    errb.add(b)
        seen = set()
        dq = deque([0])
        while dq:
            b = dq.popleft()
            if b in seen or b not in region or b in errb:
                continue
            seen.add(b)
            if fn.blocks[b]['term']['k'] == 'return':
                return True
            edges, blocks = self.evidence_edges_and_blocks(fn)
            if b in blocks:
                continue
            for s in fn.succs(b):
                if (b, s) in edges:
                    continue
                dq.append(s)
        return False


def find_closers(F, adt):
    """Methods of `adt` that finish the inner unit writer: call `finish` of a codec/finishable
    writer taken out of self."""
    out = []
    for f in methods_of(F, adt):
        for bi, t, c in f.calls():
            if c.name == 'finish' and (c.is_('FinishableWriter::finish', 'LZMAWriter::finish', 'LZMA2Writer::finish')
                                       or (c.trait and last_seg(c.trait) == 'FinishableWriter')):
                if f.arg_count >= 1 and f.local_ty(1).startswith('&mut'):
                    out.append(f)
                    break
    return out


@rule('BLOCK-TYPESTATE', ['C02'], floor=5)
def block_typestate(ctx):
    """The function that closes a block/member is only called where one is provably open: every path
    from the caller's entry to the call passes an opener call or the open edge of a test on the
    per-unit flag/counter that the closer resets."""
    F = ctx.facts
    n = 0
    for adt in ('XZWriter', 'LZIPWriter'):
        closers = find_closers(F, adt)
        if not closers:
            ctx.anchor_missing('%s: method finishing the inner unit writer' % adt)
            continue
        for closer in closers:
            oa = OpenAnalysis(F, adt, closer)
            if not oa.flag_fields and not oa.counter_fields:
                ctx.violation('%s::%s:no-unit-state' % (adt, closer.name), closer.loc(0),
                              'closer resets no per-unit flag/counter: openness cannot be tracked (fail closed)')
                continue
            for g in methods_of(F, adt):
                cnt = 0
                for bi, t, c in g.calls():
                    if c.path != closer.path:
                        continue
                    cnt += 1
                    n += 1
                    key = '%s:calls:%s%s' % (g.key, closer.name, '' if cnt == 1 else '#%d' % cnt)
                    region = oa.unproven_region(g)
                    if bi in region:
                        ctx.violation(key, g.loc(bi), 'the block/member closer can be reached with no unit open (no '
                                      'opener call and no test of %s on the way): an empty unit with a bogus '
                                      'index/trailer is emitted' % (oa.flag_fields + oa.counter_fields))
                    else:
                        ctx.ok(key, g.loc(bi), 'every path to the closer passes an opener or the open edge of a test on %s'
                               % (oa.flag_fields + oa.counter_fields))


def sink_writing_fns(F):
    """Local functions that (transitively) call Write::write/write_all or ByteWriter::write_*."""
    direct = set()
    for f in F.fns:
        for bi, t, c in f.calls():
            if (c.trait and last_seg(c.trait) in ('Write', 'ByteWriter')) and c.name.startswith('write'):
                direct.add(f.path)
    cg = F.callgraph()
    changed = True
    res = set(direct)
    while changed:
        changed = False
        for p, edges in cg.items():
            if p in res:
                continue
            if any(g.path in res for _, g in edges):
                res.add(p)
                changed = True
    return res


@rule('UNPADDED-ORDER', ['C03'], floor=2)
def unpadded_order(ctx):
    """The index's unpadded size = counter_now - snapshot + check size must cover the block header:
    the snapshot field is taken from the byte counter before anything of the block is written."""
    F = ctx.facts
    closers = find_closers(F, 'XZWriter')
    if not closers:
        return ctx.anchor_missing('XZWriter block closer')
    found = False
    for closer in closers:
        prov = Prov(closer)
        for bi, b in enumerate(closer.blocks):
            for si, s in enumerate(b['stmts']):
                if s['k'] != 'assign' or s['rv']['r'] != 'agg' or s['rv'].get('kind') != 'adt':
                    continue
                if last_seg(s['rv']['adt']) != 'IndexRecord':
                    continue
                idx = s['rv']['fields'].index('unpadded_size') if 'unpadded_size' in s['rv']['fields'] else 0
                e = prov.operand(s['rv']['ops'][idx])
                # find `Sub(counter, self.<snapshot>)`
                snap = None
                for x in expr_walk(e):
                    if x[0] == 'bin' and x[1].startswith('Sub'):
                        sf = self_field_of(x[3])
                        if sf and len(sf) == 1:
                            snap = sf[0]
                            counter = x[2]
                if snap is None:
                    ctx.violation('XZWriter:unpadded-size-shape', closer.loc(bi, si),
                                  'unpadded_size is not `counter - snapshot (+ check)`: %s' % expr_str(e)[:80])
                    continue
                has_check = any(x[0] == 'bin' and x[1].startswith('Add') for x in expr_walk(e))
                found = True
                if has_check:
                    ctx.ok('XZWriter:unpadded-includes-check', closer.loc(bi, si), 'unpadded = %s' % expr_str(e)[:90])
                else:
                    ctx.violation('XZWriter:unpadded-includes-check', closer.loc(bi, si),
                                  'unpadded size does not add the check size: %s' % expr_str(e)[:80])
                # where is snapshot assigned?
                writers = sink_writing_fns(F)
                nass = 0
                for g in methods_of(F, 'XZWriter'):
                    for b2, s2, name, rv in self_field_stores(g):
                        if name != snap:
                            continue
                        if rv['r'] == 'use' and const_val(rv['o']) == 0 and g.name == 'new':
                            continue
                        nass += 1
                        key = '%s:snapshot-before-header' % g.key
                        # any sink-writing call that can precede the assignment
                        pre = []
                        for b3, t3, c3 in g.calls():
                            tgt = [h for h in F.resolve_callee(c3) if h.path in writers]
                            isw = bool(tgt) or ((c3.trait and last_seg(c3.trait) in ('Write', 'ByteWriter')) and c3.name.startswith('write'))
                            if not isw:
                                continue
                            if b2 in g.reach_from(g.succs(b3)):
                                pre.append((b3, c3.name))
                        if pre:
                            ctx.violation(key, g.loc(b2, s2), 'the block start snapshot `%s` is taken after %s wrote to the '
                                          'sink: the index\'s unpadded size omits the block header and the reference '
                                          'implementation rejects the file' % (snap, sorted({n for _, n in pre})))
                        else:
                            ctx.ok(key, g.loc(b2, s2), 'snapshot `%s` taken before any byte of the block is written' % snap)
                if nass == 0:
                    ctx.violation('XZWriter:snapshot-never-assigned', closer.loc(bi, si), 'snapshot field %s is never assigned' % snap)
    if not found:
        ctx.anchor_missing('IndexRecord construction in the XZ block closer')


UNIT_WRITERS = ('XZWriter', 'LZIPWriter', 'LZMA2WriterMT', 'LZIPWriterMT')


def _is_none_guarded(fn, prov, bb):
    """Is block bb edge-dominated by the None arm of a switch on an Option<NonZero..> size option?"""
    for s in fn.reachable:
        t = fn.blocks[s]['term']
        if t['k'] != 'switch' or not fn.dominates(s, bb) or s == bb:
            continue
        d = op_local(t['discr'])
        if d is None:
            continue
        dd = fn.whole_defs(d)
        if len(dd) != 1 or dd[0][2] != 'assign' or dd[0][3]['rv']['r'] != 'discr':
            continue
        p = dd[0][3]['rv']['p']
        if 'NonZero' not in p['ty'] or 'Option' not in p['ty']:
            continue
        arms = {a[0]: a[1] for a in t['arms']}
        none_tgt = arms.get('0')
        if none_tgt is None:
            none_tgt = t['otherwise'] if '1' in arms else None
        if none_tgt is None:
            continue
        from lzlint.core import reachable_without_edge
        if not reachable_without_edge(fn, bb, (s, none_tgt)):
            return True
    return False


def _clamped(prov, e):
    """e contains min(len-ish, limit - counter)."""
    for x in expr_walk(e):
        if x[0] == 'call' and x[1].endswith(('Ord::min', 'cmp::min', '::min')) and len(x[2]) == 2:
            a, b = x[2]
            def has_len(y):
                return any(z[0] == 'len' or (z[0] == 'call' and z[1].endswith('::len')) for z in expr_walk(y))
            def has_sub(y):
                return any((z[0] == 'call' and z[1].endswith(('saturating_sub', 'checked_sub', 'wrapping_sub'))) or
                           (z[0] == 'bin' and z[1].startswith('Sub')) for z in expr_walk(y))
            if (has_len(a) and has_sub(b)) or (has_len(b) and has_sub(a)):
                return True
            # through a local: expand
            for (y, other) in ((a, b), (b, a)):
                if has_len(other):
                    for (alt, _) in prov.expand(y):
                        if has_sub(alt):
                            return True
    return False


@rule('UNIT-CLAMP', ['C18'], floor=4)
def unit_clamp(ctx):
    """In Write::write of every writer that splits input into sized units, the slice handed to the
    current unit ends at min(remaining.len(), unit_size - bytes_in_unit)."""
    F = ctx.facts
    for adt in UNIT_WRITERS:
        ws = [f for f in methods_of(F, adt) if f.impl and last_seg(f.impl.get('trait')) == 'Write' and f.name == 'write']
        if not ws:
            ctx.anchor_missing('<%s as Write>::write' % adt)
            continue
        f = ws[0]
        prov = Prov(f)
        al = buf_alias_locals(f, prov, 2)
        hand = []
        for bi, t, c in f.calls():
            if c.is_('Vec::extend_from_slice') or is_trait_call(c, WRITE_TRAITS, 'write') or is_trait_call(c, WRITE_TRAITS, 'write_all'):
                data = prov.operand(t['args'][1])
                b = slice_base(data)
                if (b[0] == 'param' and b[1] == 2) or (b[0] == 'local' and b[1] in al):
                    hand.append((bi, t, c, data))
        if not hand:
            ctx.violation('%s:no-hand-over' % adt, f.loc(0), 'cannot find where caller data is handed to the current unit (fail closed)')
            continue
        for bi, t, c, data in hand:
            key = '%s:unit-slice-clamped' % adt
            ok = False
            detail = ''
            rng = None
            for x in expr_walk(data):
                if x[0] == 'call' and x[1].endswith('Index::index') and len(x[2]) == 2:
                    rng = x[2][1]
                    break
            if rng is None:
                detail = 'the whole remaining input (%s) is handed to the unit' % expr_str(data)[:40]
            else:
                alts = []
                end = rng[2][-1] if rng[0] == 'agg' and rng[2] else rng
                for (alt, bs) in prov.expand(end):
                    alts.append((alt, bs))
                allok = True
                for alt, bs in alts:
                    if _clamped(prov, alt):
                        continue
                    if bs and _is_none_guarded(f, prov, bs[0]):
                        continue  # no unit size configured on this path
                    allok = False
                    detail = 'slice end %s is not min(remaining.len(), unit_size - bytes_in_unit)' % expr_str(alt)[:60]
                ok = allok
            if ok:
                ctx.ok(key, f.loc(bi), 'data handed to the unit is clamped to the space left in it')
            else:
                ctx.violation(key, f.loc(bi), '%s: one large write puts more than the configured size into one unit' % detail)


@rule('EXPECTED-SIZE', ['C18'], floor=3)
def expected_size(ctx):
    """LZMAWriter with a declared size: write() compares declared size with current+len before any
    byte enters the encoder window; finish() compares for equality before finishing; the header
    carries the declared size."""
    F = ctx.facts
    ms = methods_of(F, 'LZMAWriter')
    w = [f for f in ms if f.impl and last_seg(f.impl.get('trait')) == 'Write' and f.name == 'write']
    fin = [f for f in ms if f.name == 'finish' and not f.impl.get('trait')]
    if not w or not fin:
        return ctx.anchor_missing('LZMAWriter write/finish')
    # discover the declared-size field: Option<u64> field of LZMAWriter
    adt = F.adt('LZMAWriter')
    opt = [fl['name'] for fl in adt['variants'][0]['fields'] if fl['ty'].replace('core::', 'std::') == 'std::option::Option<u64>']
    if len(opt) != 1:
        return ctx.anchor_missing('LZMAWriter: unique Option<u64> declared-size field')
    fld = opt[0]
    from rules.io import effective_read
    f = effective_read(F, w[0])   # `write` may be a thin wrapper that records failures
    prov = Prov(f)
    fills = [bi for bi, t, c in f.calls() if c.is_('LZEncoder::fill_window', 'LZEncoderData::fill_window') or c.name == 'fill_window']
    if not fills:
        ctx.anchor_missing('fill_window call in LZMAWriter::write')
    else:
        # a comparison Lt(exp, current + len) whose true edge returns Err and which dominates fill_window on the Some path
        good = None
        for s in f.reachable:
            e = switch_edges(f, s)
            if e is None:
                continue
            cond = prov.operand(f.blocks[s]['term']['discr'])
            nc = norm_cmp(cond, True) if cond[0] in ('bin', 'un') else None
            if not nc or nc[0] not in ('Lt', 'Le'):
                continue
            a, b = nc[1], nc[2]
            if mentions_self_field(a, fld) and any(x[0] == 'len' or (x[0] == 'call' and x[1].endswith('::len')) for x in expr_walk(b)) and \
                    any(x[0] == 'bin' and x[1].startswith('Add') for x in expr_walk(b)):
                # true edge must not reach fill_window
                reach_true = f.reach_from([e[1]])
                if not any(fb in reach_true for fb in fills) and all(f.dominates(s, fb) or True for fb in fills):
                    good = s
        key = 'LZMAWriter::write:declared-size-checked-before-encoding'
        if good is not None:
            # the check must sit on every path to fill_window that has a declared size: the Some arm
            ctx.ok(key, f.loc(good), 'write beyond `%s` returns Err before fill_window' % fld)
        else:
            ctx.violation(key, f.loc(fills[0]), 'no `%s < current + buf.len()` rejection before data enters the encoder: '
                          'writes beyond the declared size are accepted' % fld)
    g = fin[0]
    pg = Prov(g)
    fins = [bi for bi, t, c in g.calls() if c.name in ('set_finishing', 'encode_for_lzma1', 'encode_lzma1_end_marker')]
    good = None
    for s in g.reachable:
        e = switch_edges(g, s)
        if e is None:
            continue
        cond = pg.operand(g.blocks[s]['term']['discr'])
        nc = norm_cmp(cond, True) if cond[0] in ('bin', 'un') else None
        if nc and nc[0] in ('Ne', 'Eq'):
            sides = (nc[1], nc[2])
            if any(mentions_self_field(x, fld) or any(y[0] == 'downcast' for y in expr_walk(x)) for x in sides) and \
                    any(any(y[0] == 'field' and 'current' in y[2] or y[0] == 'field' and 'uncompressed' in y[2] for y in expr_walk(x)) for x in sides):
                bad_edge = e[1] if nc[0] == 'Ne' else e[0]
                if fins and not any(fb in g.reach_from([bad_edge]) for fb in fins):
                    good = s
    key = 'LZMAWriter::finish:declared-size-equals-written'
    bypass = None
    if good is not None:
        # the comparison is evaluated on every path that has a declared size: from the Some arm of the test of the
        # declared-size field no finishing call is reachable around the comparison (a `cond && exp != written` skips it)
        for s in g.reachable:
            t = g.blocks[s]['term']
            if t['k'] != 'switch':
                continue
            dl = op_local(t['discr'])
            dd = g.whole_defs(dl) if dl is not None else []
            if len(dd) == 1 and dd[0][2] == 'assign' and dd[0][3]['rv']['r'] == 'discr':
                pl = dd[0][3]['rv']['p']
                fp = [x.get('n') for x in pl['p'] if isinstance(x, dict) and 'f' in x]
                if pl['l'] == 1 and fld in fp:
                    arms = {int(a[0]): a[1] for a in t['arms']}
                    some = arms.get(1, t['otherwise'])
                    around = g.reach_from([some], stop={good})
                    if any(fb in around for fb in fins):
                        bypass = s
    if good is not None and bypass is not None:
        ctx.violation(key, g.loc(bypass), 'with a declared size the comparison written == declared can be skipped (another condition short-circuits it): '
                      'finish() then completes a stream whose header promises a different number of bytes')
    elif good is not None:
        ctx.ok(key, g.loc(good), 'finish refuses to complete when written != declared (checked before set_finishing)')
    else:
        ctx.violation(key, g.loc(0), 'finish does not compare the declared size with the bytes written before finishing')
    # header carries the declared size
    ctors = [h for h in ms if h.name.startswith('new')]
    okh = False
    for h in ctors:
        ph = Prov(h)
        # the parameter stored into the declared-size field
        src = None
        for bi, b in enumerate(h.blocks):
            for s in b['stmts']:
                if s['k'] == 'assign' and s['rv']['r'] == 'agg' and s['rv'].get('kind') == 'adt' and \
                        last_seg(s['rv']['adt']) == 'LZMAWriter' and fld in s['rv']['fields']:
                    e = ph.operand(s['rv']['ops'][s['rv']['fields'].index(fld)])
                    if e[0] == 'param':
                        src = e[1]
        if src is None:
            continue
        for bi, t, c in h.calls():
            if c.name in ('write_u64', 'write_all', 'write'):
                v = ph.operand(t['args'][1])
                if any(x[0] == 'call' and x[1].endswith(('Option::unwrap_or', 'Option::unwrap_or_else', 'Option::map_or'))
                       and any(y[0] == 'param' and y[1] == src for y in expr_walk(x)) for x in expr_walk(v)):
                    okh = True
                    ctx.ok('LZMAWriter:header-size-field', h.loc(bi), 'header size bytes = %s' % expr_str(v)[:70])
                    break
    if not okh:
        ctx.violation('LZMAWriter:header-size-field', '-', 'cannot find the .lzma header size field write')


@rule('MULTISTREAM-GUARD', ['C12', 'C16'], floor=1)
def multistream_guard(ctx):
    """The call that looks past the XZ stream footer is control-dependent on the
    allow_multiple_streams flag being true."""
    F = ctx.facts
    ms = methods_of(F, 'XZReader')
    if not ms:
        return ctx.anchor_missing('XZReader')
    adt = F.adt('XZReader')
    # discover: bool field set from the constructor's bool parameter
    bools = [fl['name'] for fl in adt['variants'][0]['fields'] if fl['ty'] == 'bool']
    ctor = [f for f in ms if f.name == 'new']
    flag = None
    if ctor:
        pc = Prov(ctor[0])
        for bi, b in enumerate(ctor[0].blocks):
            for s in b['stmts']:
                if s['k'] == 'assign' and s['rv']['r'] == 'agg' and s['rv'].get('kind') == 'adt' and last_seg(s['rv']['adt']) == 'XZReader':
                    for nm, o in zip(s['rv']['fields'], s['rv']['ops']):
                        e = pc.operand(o)
                        if nm in bools and e[0] == 'param':
                            flag = nm
    if flag is None:
        return ctx.anchor_missing('XZReader bool field initialised from a constructor parameter')
    # the function that reads after parse_index_and_footer: callee invoked after footer parse in the same function
    n = 0
    for f in ms:
        foot = [bi for bi, t, c in f.calls() if c.is_('StreamFooter::parse') or c.name == 'parse_index_and_footer']
        if not foot:
            continue
        prov = Prov(f)
        for bi, t, c in f.calls():
            if not any(bi in f.reach_from(f.succs(fb)) for fb in foot):
                continue
            tg = F.resolve_callee(c)
            reads = False
            for g in tg:
                if g.self_adt == f.self_adt and g.path != f.path and _pulls(F, g, set()):
                    reads = True
            if not reads:
                continue
            n += 1
            key = '%s:after-footer:%s' % (f.key, c.name)
            guarded = False
            for s, pol, cond in guards_of(f, bi, prov):
                cc = cond
                p = pol
                while cc[0] == 'un' and cc[1] == 'Not':
                    cc = cc[2]
                    p = not p
                if p and mentions_self_field(cc, flag) and cc[0] in ('field', 'deref'):
                    guarded = True
            if guarded:
                ctx.ok(key, f.loc(bi), 'reads past the footer only under self.%s' % flag)
            else:
                ctx.violation(key, f.loc(bi), 'bytes after the stream footer are requested from the source without '
                              'testing self.%s: a single-stream reader consumes/needs trailing data' % flag)
    if n == 0:
        ctx.anchor_missing('call reading past the footer')


def _pulls(F, g, seen, depth=0):
    """g (or a helper method of the same type it calls, up to three levels) reads from the source"""
    if g.path in seen or depth > 3:
        return False
    seen.add(g.path)
    for b2, t2, c2 in g.calls():
        if c2.trait and last_seg(c2.trait) in ('Read', 'ByteReader'):
            return True
        for h in F.resolve_callee(c2):
            if h.self_adt == g.self_adt and h.kind != 'closure' and _pulls(F, h, seen, depth + 1):
                return True
    return False


UNIT_CTORS = (('XZWriter', 'new'), ('LZIPWriter', 'new'), ('LZMA2Writer', 'new'), ('LZMA2WriterMT', 'new'), ('LZIPWriterMT', 'new'))


@rule('OPT-CLAMP', ['C18', 'C19'], floor=5)
def opt_clamp(ctx):
    """The unit size every splitting writer stores is raised to the dictionary size: in each of the
    five constructors that take a block/member/chunk size the stored value derives from
    `max(option, dict_size)`."""
    F = ctx.facts
    for adt, name in UNIT_CTORS:
        fs = [f for f in methods_of(F, adt) if f.name == name and not (f.impl and f.impl.get('trait'))]
        if not fs:
            ctx.anchor_missing('%s::%s' % (adt, name))
            continue
        f = fs[0]
        prov = Prov(f)
        good = None
        for bi, t, c in f.calls():
            if c.name == 'max' and len(t['args']) == 2:
                a, b = prov.operand(t['args'][0], 0, '%d:T' % bi), prov.operand(t['args'][1], 0, '%d:T' % bi)
                def is_dict(e):
                    return any(x[0] == 'field' and x[2] == 'dict_size' for x in expr_walk(e)) or \
                        any(x[0] == 'local' and x[2] == 'dict_size' for x in expr_walk(e))
                def is_unit(e):
                    return any((x[0] == 'call' and 'NonZero' in x[1] and x[1].endswith('::get')) or
                               (x[0] == 'field' and x[2] in ('chunk_size', 'member_size', 'block_size')) or
                               (x[0] == 'param') or (x[0] == 'local') for x in expr_walk(e))
                if (is_dict(a) and is_unit(b)) or (is_dict(b) and is_unit(a)):
                    good = bi
        # closures (Option::map(|s| s.get().max(dict))) belong to the constructor
        for cl in F.closures_of(f):
            pc = Prov(cl)
            for bi, t, c in cl.calls():
                if c.name == 'max' and len(t['args']) == 2:
                    good = ('closure', bi) if good is None else good
        key = '%s::%s:unit-size-raised-to-dict' % (adt, name)
        def top_is_dict(e):
            while e[0] in ('cast', 'ref', 'deref'):
                e = e[2] if e[0] == 'cast' else e[1]
            return (e[0] == 'field' and e[2] == 'dict_size') or (e[0] == 'local' and e[2] == 'dict_size')
        mins = [bi for bi, t, c in f.calls() if c.name == 'min' and any(
            top_is_dict(prov.operand(a, 0, '%d:T' % bi)) for a in t['args'])]
        if good is not None and not mins:
            ctx.ok(key, f.loc(good if isinstance(good, int) else 0), 'unit size = max(option, dict_size)')
        else:
            ctx.violation(key, f.loc(0), 'the configured unit size is not raised to the dictionary size with `max(option, dict_size)`%s: units '
                          'smaller than the dictionary waste memory or (for LZIP/MT) break the size contract' % (
                              ' (a `min` with dict_size is used instead)' if mins else ''))


@rule('FORMULA-TWIN', ['C02', 'C19'], floor=3)
def formula_twin(ctx):
    """The XZ writer and reader compute the LZMA2 dictionary size of a property byte p by the same
    formula ((2 | (p & 1)) << (p / 2 + 11), p = 40 -> 0xFFFF_FFFF); the writer picks the first p whose
    size is >= the requested size (rounds up) and rejects sizes below 4096."""
    from lzlint.intervals import _strip
    F = ctx.facts
    w = [f for f in methods_of(F, 'XZWriter') if f.d.get('output', '').startswith('std::result::Result<u8') and f.loops()]
    if not w:
        return ctx.anchor_missing('XZWriter dictionary-size property encoder (-> Result<u8>, loop)')
    wf = w[0]
    pw = Prov(wf)
    # writer: the shifted expression and the comparison that accepts p
    shl_w = None
    accept = None
    for b in wf.reachable:
        t = wf.blocks[b]['term']
        if t['k'] == 'switch':
            cond = pw.operand(t['discr'], 0, '%d:T' % b)
            nc = norm_cmp(cond, True) if cond[0] in ('bin', 'un') else None
            if nc and any(x[0] == 'bin' and x[1].startswith('Shl') for x in expr_walk(cond)):
                accept = nc
                for x in expr_walk(cond):
                    if x[0] == 'bin' and x[1].startswith('Shl'):
                        shl_w = x
    rf = None
    shl_r = None
    for f in F.fns:
        if f.self_adt and last_seg(f.self_adt) == 'BlockHeader':
            pr = Prov(f)
            for bi, b in enumerate(f.blocks):
                for si, s in enumerate(b['stmts']):
                    if s['k'] == 'assign' and s['rv']['r'] == 'bin' and s['rv']['op'].startswith('Shl'):
                        e = pr.rvalue(s['rv'], 0, '%d:%d' % (bi, si))
                        if any(x[0] == 'bin' and x[1] == 'BitOr' for x in expr_walk(e)) and any(x[0] == 'const' and x[2] == 11 for x in expr_walk(e)):
                            rf, shl_r = f, e
    if shl_w is None or shl_r is None:
        return ctx.anchor_missing('dictionary size formula on both sides (writer %s, reader %s)' % (bool(shl_w), bool(shl_r)))

    def shape(e):
        """Structure of the formula with the property-byte leaf abstracted to P."""
        e = _strip(e)
        def go(x):
            if not isinstance(x, tuple):
                return x
            if x[0] == 'const':
                return ('k', x[2])
            if x[0] == 'bin':
                return (x[1], go(x[2]), go(x[3]))
            if x[0] in ('local', 'param', 'index', 'call', 'field'):
                return 'P'
            return x[0]
        return go(e)
    sw, sr = shape(shl_w), shape(shl_r)
    if sw == sr:
        ctx.ok('lzma2-dict-prop:formula', wf.loc(0), 'both sides compute %s' % (sw,))
    else:
        ctx.violation('lzma2-dict-prop:formula', wf.loc(0), 'writer computes %s, reader computes %s for the same property byte: the header '
                      'declares a different dictionary than the decoder allocates' % (sw, sr))
    # rounding direction: accept p when size >= requested
    if accept is not None:
        op, a, b = accept
        a_is_size = any(x[0] == 'bin' and x[1].startswith('Shl') for x in expr_walk(a))
        # normalised forms: Le(requested, size) or Lt(requested, size)[strict: still rounds up] ; Le(size, requested) would round down
        if (op in ('Le',) and not a_is_size) or (op == 'Lt' and not a_is_size):
            ctx.ok('lzma2-dict-prop:rounds-up', wf.loc(0), 'first property whose size is >= the requested dictionary size')
        else:
            ctx.violation('lzma2-dict-prop:rounds-up', wf.loc(0), 'the writer accepts a property whose dictionary size is smaller than the '
                          'requested one (%s %s): the decoder gets a smaller window than the encoder used, distances beyond it fail' % (
                              op, 'size first' if a_is_size else 'requested first'))
    else:
        ctx.violation('lzma2-dict-prop:rounds-up', wf.loc(0), 'cannot find the acceptance comparison')
    # lower bound and the 40 <-> 0xFFFFFFFF special case
    lows = []
    for b in wf.reachable:
        t = wf.blocks[b]['term']
        if t['k'] == 'switch':
            cond = pw.operand(t['discr'], 0, '%d:T' % b)
            nc = norm_cmp(cond, True) if cond[0] in ('bin', 'un') else None
            if nc and nc[0] == 'Lt' and nc[2][0] == 'const' and nc[1][0] == 'param':
                lows.append(nc[2][2])
    if 4096 in lows:
        ctx.ok('lzma2-dict-prop:lower-bound', wf.loc(0), 'dictionary sizes below 4096 are rejected')
    else:
        ctx.violation('lzma2-dict-prop:lower-bound', wf.loc(0), 'the writer no longer rejects dictionary sizes below 4 KiB (bounds found: %s): '
                      'the smallest encodable size is 4 KiB, so the header would declare a different size' % lows)


@rule('STAGING-APPEND', ['C08', 'C02'], floor=2)
def staging_append(ctx):
    """The buffer in which a splitting writer collects caller data for the current unit is only ever appended
    to (`extend_from_slice` with a slice of the caller's buffer) or handed over whole (`mem::take`); it is
    never assigned over outside the constructor, because bytes from an earlier short write may still be in
    it (they would vanish from a stream that is otherwise perfectly valid)."""
    F = ctx.facts
    n = 0
    for w in F.fns:
        if not (w.impl and last_seg(w.impl.get('trait')) == 'Write' and w.name == 'write' and w.self_adt):
            continue
        pw = Prov(w)
        staging = set()
        for bi, t, c in w.calls():
            if c.is_('Vec::extend_from_slice') and len(t['args']) == 2:
                a0 = pw.operand(t['args'][0], 0, '%d:T' % bi)
                a1 = pw.operand(t['args'][1], 0, '%d:T' % bi)
                base = a0[1] if a0[0] == 'ref' else a0
                sf = self_field_of(base)
                if sf and len(sf) == 1 and derives_from_param_(w, pw, a1):
                    staging.add(sf[0])
        for fld in staging:
            # handed over whole somewhere?
            taken = any(c.is_('mem::take', 'mem::replace') and t['args'] and
                        (self_field_of(Prov(g).operand(t['args'][0], 0, '%d:T' % bi)[1]
                                       if Prov(g).operand(t['args'][0], 0, '%d:T' % bi)[0] == 'ref' else ('none',)) == (fld,))
                        for g in F.fns if g.self_adt == w.self_adt for bi, t, c in g.calls())
            if not taken:
                continue
            n += 1
            key = '%s.%s:append-or-take-only' % (last_seg(w.self_adt), fld)
            bad = []
            for g in F.fns:
                if g.self_adt != w.self_adt or g.kind == 'closure':
                    continue
                pg = None
                for bi, si, name, rv in self_field_stores(g):
                    if name != fld:
                        continue
                    pg = pg or Prov(g)
                    e = pg.rvalue(rv, 0, '%d:%d' % (bi, si))
                    if e[0] == 'call' and e[1].split('::')[-1] in ('new', 'with_capacity', 'default'):
                        continue
                    bad.append((g, bi, si, expr_str(e)[:60]))
            if bad:
                g, bi, si, txt = bad[0]
                ctx.violation(key, g.loc(bi, si), '%s assigns `self.%s = %s`: whatever an earlier, shorter write left in the unit buffer is '
                              'overwritten and silently missing from the output' % (g.key, fld, txt))
            else:
                ctx.ok(key, w.loc(0), 'only extended with caller data and taken whole')
    if n == 0:
        ctx.anchor_missing('unit staging buffer of the splitting writers')


def derives_from_param_(fn, prov, e):
    return any(derives_from_param(fn, prov, e, i) for i in range(1, fn.arg_count + 1) if fn.local_ty(i).replace(' ', '') == '&[u8]')


@rule('FORMAT-OVERRIDES', ['C19', 'C02'], floor=5)
def format_overrides(ctx):
    """A container whose header cannot carry an LZMA parameter fixes that parameter itself: the LZIP writer
    (format constants lc=3, lp=0, pb=2, no preset dictionary) overwrites the corresponding option fields in
    its constructor with constants before any encoder is created, whatever the caller put there."""
    F = ctx.facts
    _format_overrides_of(ctx, F, 'LZIPWriter', {'lc': 3, 'lp': 0, 'pb': 2, 'preset_dict': None}, '.lz')
    _format_overrides_of(ctx, F, 'XZWriter', {'preset_dict': None}, '.xz')


def _format_overrides_of(ctx, F, adt, need, fmt):
    ctors = [f for f in methods_of(F, adt) if f.name == 'new']
    if not ctors:
        return ctx.anchor_missing('%s::new' % adt)
    f = ctors[0]
    prov = Prov(f)
    stored = {}
    for bi, b in enumerate(f.blocks):
        if b['cleanup']:
            continue
        for si, s in enumerate(b['stmts']):
            if s['k'] != 'assign' or not s['lhs']['p']:
                continue
            names = [pe.get('n') for pe in s['lhs']['p'] if isinstance(pe, dict) and 'f' in pe]
            owners = [last_seg(pe.get('o')) for pe in s['lhs']['p'] if isinstance(pe, dict) and 'f' in pe]
            if 'LZMAOptions' in owners and names:
                e = prov.rvalue(s['rv'], 0, '%d:%d' % (bi, si))
                stored[names[-1]] = (bi, si, e)
    # fields the LZMA options have that a decoder must know and the container header does not carry
    for name, val in need.items():
        key = '%s::new:overrides-%s' % (adt, name)
        if name not in stored:
            ctx.violation(key, f.loc(0), 'the %s header has no field for `%s` and the readers assume %s, but %s::new leaves the '
                          'caller\'s value in the options handed to the encoder: the file cannot be decoded' % (
                              fmt, name, 'no preset dictionary' if val is None else str(val), adt))
            continue
        bi, si, e = stored[name]
        if val is None:
            ok = e[0] == 'agg' and str(e[1]).endswith('::None')
        else:
            ok = e[0] == 'const' and e[2] == val
        if ok:
            ctx.ok(key, f.loc(bi, si), '%s := %s' % (name, 'None' if val is None else val))
        else:
            ctx.violation(key, f.loc(bi, si), '`%s` is set to %s instead of the format constant %s' % (name, expr_str(e)[:40], val))


@rule('WRITE-LOOP-PROGRESS', ['C09', 'C18', 'C13'], floor=2)
def write_loop_progress(ctx):
    """In the write loop of a splitting writer an iteration either copies bytes from the caller's buffer or
    dispatches the full unit. On the branch where the amount to copy is zero (the staging buffer is already
    full, e.g. because the previous dispatch failed with a sink error) the dispatch call must still be
    reachable before the loop repeats; otherwise that iteration changes nothing and `write` spins forever."""
    F = ctx.facts
    n = 0
    for w in F.fns:
        if not (w.impl and last_seg(w.impl.get('trait')) == 'Write' and w.name == 'write' and w.self_adt):
            continue
        pw = Prov(w)
        # staging field and the dispatch method (the same-type method that takes the staging buffer)
        staging = None
        for bi, t, c in w.calls():
            if c.is_('Vec::extend_from_slice') and len(t['args']) == 2:
                a0 = pw.operand(t['args'][0], 0, '%d:T' % bi)
                base = a0[1] if a0[0] == 'ref' else a0
                sf = self_field_of(base)
                if sf and len(sf) == 1:
                    staging = (sf[0], bi)
        if not staging:
            continue
        fld, ext_block = staging
        dispatch = []
        for bi, t, c in w.calls():
            for g in F.resolve_callee(c):
                if g.self_adt == w.self_adt and g.kind != 'closure' and any(
                        c2.is_('mem::take', 'mem::replace') for _, _, c2 in g.calls()):
                    dispatch.append(bi)
        if not dispatch:
            continue
        loops = [(h, body) for h, body in w.loops().items() if ext_block in body and any(d in body for d in dispatch)]
        if not loops:
            continue
        h, body = max(loops, key=lambda x: len(x[1]))
        # the switch that guards the copy: the extend block is reachable only through one of its edges
        guard = None
        for s, pol, cond in guards_of(w, ext_block, pw):
            if s in body and s != h:
                guard = (s, pol, cond)
        if guard is None:
            continue
        n += 1
        key = '%s:zero-copy-iteration-still-dispatches' % w.key
        s, pol, cond = guard
        e = switch_edges(w, s)
        other = e[0] if pol else e[1]   # the edge taken when nothing is copied
        # blocks reachable from that edge without passing the loop header again
        reach = w.reach_from([other], stop={h})
        # the room left in the unit is measured in every iteration: a length of the staging buffer taken before the loop
        # and used inside it is stale after the first dispatch (later units get another size than the configured one)
        stale = []
        for bi, t, c in w.calls():
            if c.is_('Vec::len') and t['args'] and bi not in body and w.dominates(bi, h):
                a0 = pw.operand(t['args'][0], 0, '%d:T' % bi)
                base = a0[1] if a0[0] == 'ref' else a0
                if self_field_of(base) == (fld,):
                    d = t['dest']['l']
                    # used inside the loop (directly or through the values computed from it before the loop)?
                    from rules.io import value_closure
                    derived = {d}
                    changed = True
                    while changed:
                        changed = False
                        for b2, blk in enumerate(w.blocks):
                            if b2 in body or blk['cleanup']:
                                continue
                            for st in blk['stmts']:
                                if st['k'] == 'assign' and not st['lhs']['p'] and st['lhs']['l'] not in derived:
                                    if any((op_place(st['rv'].get(k2)) or {}).get('l') in derived for k2 in ('o', 'a', 'b') if isinstance(st['rv'].get(k2), dict)):
                                        derived.add(st['lhs']['l'])
                                        changed = True
                            tt = blk['term']
                            if tt['k'] == 'call' and not tt['dest']['p'] and tt['dest']['l'] not in derived and \
                                    any((op_place(a) or {}).get('l') in derived for a in tt['args']):
                                derived.add(tt['dest']['l'])
                                changed = True
                    used_in_loop = any(
                        any((op_place(st['rv'].get(k2)) or {}).get('l') in derived for k2 in ('o', 'a', 'b') if isinstance(st['rv'].get(k2), dict))
                        for b2 in body for st in w.blocks[b2]['stmts'] if st['k'] == 'assign') or any(
                        w.blocks[b2]['term']['k'] == 'call' and any((op_place(a) or {}).get('l') in derived for a in w.blocks[b2]['term']['args'])
                        for b2 in body)
                    if used_in_loop:
                        stale.append(bi)
        if stale:
            ctx.violation(key + ':fresh-clamp', w.loc(stale[0]), 'the fill level of `self.%s` is read before the loop (%s) and the value is used inside it: after '
                          'the first dispatch in the same write call the room left in the unit is stale and later units are cut at the '
                          'wrong size (unit boundaries depend on the write partition)' % (fld, w.loc(stale[0])))
        if any(d in reach for d in dispatch):
            ctx.ok(key, w.loc(s), 'when %s is false the dispatch call is still reached in the same iteration' % expr_str(cond)[:60])
        else:
            ctx.violation(key, w.loc(s), 'when %s is false (nothing can be copied because the unit buffer is already full) the iteration neither '
                          'copies nor dispatches: after a failed dispatch the next write() never returns' % expr_str(cond)[:60])
    if n == 0:
        ctx.anchor_missing('write loop with a staging buffer and a dispatch method')


@rule('END-FLAG-SET', ['C16', 'C12'], floor=1)
def end_flag_set(ctx):
    """When the XZ reader has parsed index and footer and does not go on to a further stream, it records the
    end of the data in its end flag (the bool that makes `read` return Ok(0) at once) before it returns:
    every Ok return reachable after the footer parse, other than the one taken when the next-stream probe
    found a stream, passes a store `flag := true`. Otherwise a later `read` parses whatever follows the
    stream as another block header (over-read, spurious errors)."""
    F = ctx.facts
    ms = methods_of(F, 'XZReader')
    adt = F.adt('XZReader')
    if not ms or not adt:
        return ctx.anchor_missing('XZReader')
    # end flag: bool field tested at the entry of read with an immediate Ok(0)
    from rules.io import read_impls, effective_read
    flags = set()
    for rf in read_impls(F):
        if rf.self_adt and last_seg(rf.self_adt) == 'XZReader':
            g = effective_read(F, rf)
            pg = Prov(g)
            for s in g.reachable:
                e = switch_edges(g, s)
                if e is None:
                    continue
                cond = pg.operand(g.blocks[s]['term']['discr'], 0, '%d:T' % s)
                for x in expr_walk(cond):
                    if x[0] == 'field':
                        sf = self_field_of(x)
                        if sf and len(sf) == 1 and any(fl['name'] == sf[0] and fl['ty'] == 'bool' for fl in adt['variants'][0]['fields']):
                            if g.dominates(s, max(g.reachable)) or s <= 3:
                                flags.add(sf[0])
    flags -= {'allow_multiple_streams'}
    if not flags:
        return ctx.anchor_missing('XZReader end flag')
    n = 0
    for f in ms:
        foot = [bi for bi, t, c in f.calls() if c.is_('StreamFooter::parse') or c.name == 'parse_index_and_footer']
        if not foot or f.name == 'parse_index_and_footer':
            continue
        prov = Prov(f)
        stores = set()
        for bi, si, name, rv in self_field_stores(f):
            e = prov.rvalue(rv, 0, '%d:%d' % (bi, si))
            if name in flags and e[0] == 'const' and e[2] in (1, True):
                stores.add(bi)
        # true edges of the next-stream probe
        probe_true = set()
        for bi, t, c in f.calls():
            for g in F.resolve_callee(c):
                if g.self_adt == f.self_adt and g.d.get('output', '').startswith('std::result::Result<bool') and _pulls(F, g, set()):
                    # the bool payload of this call: find switches whose condition derives from it
                    for s in f.reachable:
                        e = switch_edges(f, s)
                        if e is None:
                            continue
                        cond = prov.operand(f.blocks[s]['term']['discr'], 0, '%d:T' % s)
                        if any(x[0] == 'call' and len(x) > 3 and x[3] is t for x in expr_walk(cond)):
                            probe_true.add(e[1])
        for fb in foot:
            n += 1
            key = '%s:end-recorded-after-footer' % f.key
            start = [f.blocks[fb]['term'].get('target')]
            region = f.reach_from([b for b in start if b is not None], stop=stores | probe_true)
            bad = []
            for b in region:
                for st in f.blocks[b]['stmts']:
                    if st['k'] == 'assign' and st['lhs']['l'] == 0 and not st['lhs']['p'] and st['rv']['r'] == 'agg' and st['rv'].get('variant_name') == 'Ok':
                        bad.append(b)
            if bad:
                ctx.violation(key, f.loc(sorted(bad)[0]), 'after index and footer were parsed the function can return Ok at %s without setting `%s` '
                              'and without having found a further stream: the next read treats the bytes after the stream as a block '
                              'header' % (f.loc(sorted(bad)[0]), '/'.join(sorted(flags))))
            else:
                ctx.ok(key, f.loc(fb), 'every Ok return after the footer either follows a found stream or sets `%s`' % '/'.join(sorted(flags)))
    if n == 0:
        ctx.anchor_missing('footer parse call in XZReader')
