"""LZMA2 chunk protocol: CTRL-SETS (C01, C08), CHUNK-FLAGS (C01), INIT-AGREE (C19), LZMA2-LIMITS (C03)."""
from collections import Counter

from lzlint.framework import rule
from lzlint.core import (Prov, Callee, callee_of, strip_generics, last_seg, expr_walk, expr_str, op_local, op_place,
                         const_val, guards_of, norm_cmp, switch_edges, self_field_of, reachable_without_edge)
from lzlint.byteeval import ByteEval, fold, Unknown
from rules.units import methods_of, self_field_stores, mentions_self_field
from rules.io import static_slice_len

CMP = ('Eq', 'Ne', 'Lt', 'Le', 'Gt', 'Ge')


def discover_subject(fn, prov):
    """The scalar expression most often compared with constants in fn's switch conditions."""
    cnt = Counter()
    exprs = {}
    for b in fn.reachable:
        t = fn.blocks[b]['term']
        if t['k'] != 'switch':
            continue
        cond = prov.operand(t['discr'])
        for x in expr_walk(cond):
            if x[0] == 'bin' and x[1] in CMP:
                for a, c in ((x[2], x[3]), (x[3], x[2])):
                    if c[0] == 'const' and a[0] != 'const' and isinstance(c[2], int):
                        cnt[expr_str(a)] += 1
                        exprs[expr_str(a)] = a
        # direct switch on the value (match control { .. })
        if t.get('discr_ty') == 'u8':
            cnt[expr_str(cond)] += len(t['arms'])
            exprs[expr_str(cond)] = cond
    if not cnt:
        return None
    k, n = cnt.most_common(1)[0]
    return exprs[k] if n >= 3 else None


def ok_err_of_path(fn, path):
    """'Ok' / 'Err' / None: the last assignment to the return place along a path."""
    res = None
    for b in path:
        for s in fn.blocks[b]['stmts']:
            if s['k'] == 'assign' and s['lhs']['l'] == 0 and not s['lhs']['p'] and s['rv']['r'] == 'agg':
                res = s['rv'].get('variant_name')
        t = fn.blocks[b]['term']
        if t['k'] == 'call' and t['dest']['l'] == 0 and not t['dest']['p']:
            c = callee_of(t)
            if c and strip_generics(c['path']).endswith('from_residual'):
                res = 'Err'
    return res


READ_SIZES = {'read_u8': 1, 'read_u16': 2, 'read_u16_be': 2, 'read_u32': 4, 'read_u32_be': 4, 'read_u64': 8,
              'try_read_u8': 1}


def header_bytes_on_path(F, fn, prov, be, v, path, depth=0):
    """Sum of fixed-size reads along a path (payload reads of data-dependent length excluded).
    Returns int or None if a read of unknown size that is not a payload read occurs."""
    total = 0
    pset = set(path)
    for b in path:
        t = fn.blocks[b]['term']
        if t['k'] != 'call':
            continue
        c = callee_of(t)
        if not c:
            continue
        cal = Callee(c)
        if cal.name in READ_SIZES and cal.trait and last_seg(cal.trait) in ('ByteReader', 'RangeReader'):
            total += READ_SIZES[cal.name]
        elif cal.name == 'read_exact' and cal.trait and last_seg(cal.trait) == 'Read':
            n = static_slice_len(fn, t['args'][1])
            if n is not None:
                total += n
                continue
            dst = prov.operand(t['args'][1])
            got = None
            for x in expr_walk(dst):
                if x[0] == 'call' and x[1].endswith(('IndexMut::index_mut', 'Index::index')):
                    rng = x[2][1]
                    if rng[0] == 'agg' and rng[1].startswith('adt:RangeTo'):
                        end = rng[2][0]
                        # evaluate `end` on this path: a multi-def local whose def on the path is a constant
                        if end[0] == 'local':
                            for (db, de) in prov.def_exprs(end[1]):
                                if db in pset and de[0] == 'const':
                                    got = de[2]
                        elif end[0] == 'const':
                            got = end[2]
                    elif rng[0] == 'agg' and rng[1].startswith('adt:RangeFrom'):
                        got = 0  # payload read (open-ended tail of the work buffer)
            if got is None:
                return None
            total += got
        elif c.get('local') and depth < 2:
            g = F.by_path.get(c['path'])
            if g is not None and g.self_adt == fn.self_adt and any(
                    Callee(callee_of(tt)).name in READ_SIZES for _, tt, _ in [(x, y, z) for x, y, z in g.calls()]
                    if callee_of(tt)):
                # fixed header reads of a local helper (all its Ok paths must agree)
                pg = Prov(g)
                beg = ByteEval(g, ('const', 'u8', 0), pg)
                sizes = set()
                for p2 in beg.paths(0, start=0):
                    if ok_err_of_path(g, p2) == 'Err':
                        continue
                    sizes.add(header_bytes_on_path(F, g, pg, beg, 0, p2, depth + 1))
                if len(sizes) == 1 and None not in sizes:
                    total += sizes.pop()
                else:
                    return None
    return total


def classify(F, fn, prov, be, reset_pred=None, cut_info=None):
    """Per control value: dict(ok, hdr set, reset, cut, end)."""
    out = {}
    for v in range(256):
        reach = be.reachable(v)
        paths = be.paths(v)
        okp = [p for p in paths if ok_err_of_path(fn, p) != 'Err']
        hdr = set()
        for p in okp:
            hdr.add(header_bytes_on_path(F, fn, prov, be, v, p))
        d = {'ok': bool(okp), 'hdr': hdr}
        if reset_pred:
            d['reset'] = any(reset_pred(b) for b in reach)
        if cut_info:
            pushb, dispb = cut_info
            cut = False
            for p in okp:
                seq = list(p)
                di = [i for i, b in enumerate(seq) if b in dispb]
                pi = [i for i, b in enumerate(seq) if b in pushb]
                if di and pi and min(di) < max(pi):
                    cut = True
            d['cut'] = cut
            d['end'] = bool(okp) and not any(b in pushb for p in okp for b in p)
        out[v] = d
    return out


def _ranges(vals):
    vals = sorted(vals)
    out = []
    for v in vals:
        if out and v == out[-1][1] + 1:
            out[-1][1] = v
        else:
            out.append([v, v])
    return ','.join('0x%02X' % a if a == b else '0x%02X-0x%02X' % (a, b) for a, b in out)


def st_reader_info(F):
    ms = methods_of(F, 'LZMA2Reader')
    cands = [f for f in ms if any(c.is_('LZDecoder::reset') for _, _, c in f.calls())]
    cands = [f for f in cands if discover_subject(f, Prov(f)) is not None]
    if len(cands) != 1:
        return None
    f = cands[0]
    prov = Prov(f)
    subj = discover_subject(f, prov)
    be = ByteEval(f, subj, prov)
    resetb = {b for b, t, c in f.calls() if c.is_('LZDecoder::reset')}
    cl = classify(F, f, prov, be, reset_pred=lambda b: b in resetb)
    # END for the ST reader: Ok path with zero further header bytes and no payload call
    payload = {b for b, t, c in f.calls() if c.name in ('prepare',)}
    for v, d in cl.items():
        d['end'] = d['ok'] and d['hdr'] == {0} and not any(b in payload for b in be.reachable(v)) and not d.get('reset')
    return f, subj, cl


def mt_reader_info(F):
    ms = methods_of(F, 'LZMA2ReaderMT')
    cands = []
    for f in ms:
        prov = Prov(f)
        if discover_subject(f, prov) is not None:
            cands.append(f)
    if len(cands) != 1:
        return None
    f = cands[0]
    prov = Prov(f)
    subj = discover_subject(f, prov)
    be = ByteEval(f, subj, prov)
    pushb = set()
    dispb = set()
    for b, t, c in f.calls():
        if c.is_('Vec::push') and len(t['args']) > 1 and expr_str(prov.operand(t['args'][1])) == expr_str(subj):
            pushb.add(b)
        for g in F.resolve_callee(c):
            if g.self_adt == f.self_adt and any(c2.is_('WorkStealingQueue::push') for _, _, c2 in g.calls()):
                dispb.add(b)
    if not pushb or not dispb:
        return None
    cl = classify(F, f, prov, be, cut_info=(pushb, dispb))
    return f, subj, cl


def writer_control_constants(F):
    """[(fn, bb, const, guard-info)] for every constant the LZMA2 writer can put into the first
    header byte, plus the discovered dict-reset flag."""
    ms = methods_of(F, 'LZMA2Writer')
    out = []
    for f in ms:
        prov = Prov(f)
        # stores to <array local>[0] of a [u8; N] header that is later written
        for bi, b in enumerate(f.blocks):
            if b['cleanup']:
                continue
            for si, s in enumerate(b['stmts']):
                if s['k'] != 'assign':
                    continue
                lp = s['lhs']['p']
                if not (len(lp) == 1 and isinstance(lp[0], dict) and ('ci' in lp[0] or 'i' in lp[0])):
                    continue
                if not f.local_ty(s['lhs']['l']).startswith('[u8;'):
                    continue
                idx = lp[0].get('ci')
                if idx is None:
                    ie = prov.local(lp[0]['i'])
                    idx = ie[2] if ie[0] == 'const' else None
                if idx != 0:
                    continue
                val = prov.rvalue(s['rv'], 0)
                consts = []
                for (alt, bs) in prov.expand(val):
                    a = alt
                    while a[0] == 'cast':
                        a = a[2]
                    if a[0] == 'const':
                        consts.append((a[2], bs[0] if bs else bi))
                    else:
                        # control = base | extra : expand the locals inside
                        for y in expr_walk(a):
                            if y[0] == 'local':
                                for (db, de) in prov.def_exprs(y[1]):
                                    try:
                                        consts.append((fold(de, {}), db))
                                    except Unknown:
                                        pass
                for c, db in consts:
                    out.append((f, db, c))
    return out


@rule('CTRL-SETS', ['C01', 'C08'], floor=5)
def ctrl_sets(ctx):
    """The single-threaded LZMA2 reader, the MT reader's work-unit cutter and the writer agree on the
    control byte: the MT cutter cuts exactly before the values for which the ST reader resets the
    dictionary; both readers agree on end/invalid/uncompressed/LZMA classes and header lengths; the
    writer emits non-reset constants only when no dictionary reset is pending."""
    F = ctx.facts
    st = st_reader_info(F)
    if st is None:
        return ctx.anchor_missing('LZMA2Reader chunk-header decoder (method calling LZDecoder::reset and comparing a byte)')
    fs, subj_s, cs = st
    RESET_ST = {v for v, d in cs.items() if d.get('reset')}
    INVALID_ST = {v for v, d in cs.items() if not d['ok']}
    END_ST = {v for v, d in cs.items() if d.get('end')}
    ctx.ok('ST:classes', fs.loc(0), 'subject %s; RESET=%s END=%s INVALID=%s' % (
        expr_str(subj_s)[:40], _ranges(RESET_ST), _ranges(END_ST), _ranges(INVALID_ST)))
    if not RESET_ST or not END_ST or not INVALID_ST:
        ctx.violation('ST:degenerate-classes', fs.loc(0), 'value-set evaluation of the ST chunk-header decoder is '
                      'degenerate (fail closed): RESET=%s END=%s INVALID=%s' % (_ranges(RESET_ST), _ranges(END_ST), _ranges(INVALID_ST)))
    mt = mt_reader_info(F)
    if mt is None:
        ctx.anchor_missing('LZMA2ReaderMT work-unit cutter')
    else:
        fm, subj_m, cm = mt
        CUT_MT = {v for v, d in cm.items() if d.get('cut')}
        INVALID_MT = {v for v, d in cm.items() if not d['ok']}
        END_MT = {v for v, d in cm.items() if d.get('end')}
        key = 'MT:cut==ST:reset'
        if CUT_MT == RESET_ST:
            ctx.ok(key, fm.loc(0), 'CUT_MT = RESET_ST = %s' % _ranges(CUT_MT))
        else:
            ctx.violation(key, fm.loc(0), 'the MT reader cuts work units before control bytes %s but the ST reader resets '
                          'the dictionary for %s: units cut at a non-reset chunk decode against a missing dictionary / '
                          'reset chunks inside a unit are fine but cuts are missed (symmetric difference %s)' % (
                              _ranges(CUT_MT), _ranges(RESET_ST), _ranges(CUT_MT ^ RESET_ST)))
        key = 'MT:invalid==ST:invalid'
        if INVALID_MT == INVALID_ST:
            ctx.ok(key, fm.loc(0), 'both readers reject %s' % _ranges(INVALID_MT))
        else:
            ctx.violation(key, fm.loc(0), 'readers disagree on invalid control bytes: MT %s vs ST %s' % (_ranges(INVALID_MT), _ranges(INVALID_ST)))
        key = 'MT:end==ST:end'
        if END_MT == END_ST:
            ctx.ok(key, fm.loc(0), 'both readers end the stream on %s' % _ranges(END_MT))
        else:
            ctx.violation(key, fm.loc(0), 'readers disagree on the end marker: MT %s vs ST %s' % (_ranges(END_MT), _ranges(END_ST)))
        bad = []
        for v in range(256):
            if v in INVALID_ST or v in INVALID_MT or v in END_ST:
                continue
            if cs[v]['hdr'] != cm[v]['hdr'] or None in cs[v]['hdr']:
                bad.append(v)
        key = 'MT:header-len==ST:header-len'
        if not bad:
            by = {}
            for v in range(256):
                if v not in INVALID_ST and v not in END_ST:
                    by.setdefault(tuple(sorted(cs[v]['hdr'])), []).append(v)
            ctx.ok(key, fm.loc(0), 'header bytes after the control byte agree for all valid values: %s' % '; '.join(
                '%s -> %s' % (_ranges(vs), list(h)) for h, vs in sorted(by.items(), key=str)))
        else:
            v = bad[0]
            ctx.violation(key, fm.loc(0), 'chunk header length differs for control %s: ST reads %s, MT copies %s bytes: '
                          'work units are mis-framed' % (_ranges(bad), sorted(cs[v]['hdr'], key=str), sorted(cm[v]['hdr'], key=str)))


def chunk_flags_unused(ctx):
    """write_lzma and write_uncompressed are two emitters of one protocol: every reset-request flag
    that influences a control byte is (re)assigned by both emitters on every emitting path."""
    F = ctx.facts
    ms = methods_of(F, 'LZMA2Writer')
    adt = F.adt('LZMA2Writer')
    if not ms or adt is None:
        return ctx.anchor_missing('LZMA2Writer')
    bools = [fl['name'] for fl in adt['variants'][0]['fields'] if fl['ty'] == 'bool']
    wc = writer_control_constants(F)
    emitters = sorted({f.path for f, _, c in wc if c != 0 or True})
    emitters = [F.by_path[p] for p in emitters]
    emitters = [f for f in emitters if any(is_wall(c) for _, _, c in f.calls())]
    if len(emitters) < 2:
        return ctx.anchor_missing('two chunk emitters in LZMA2Writer')
    # flags read in a switch condition of any emitter
    flags = set()
    for f in emitters:
        prov = Prov(f)
        for b in f.reachable:
            t = f.blocks[b]['term']
            if t['k'] == 'switch':
                cond = prov.operand(t['discr'])
                for x in expr_walk(cond):
                    if x[0] == 'field' and x[2] in bools and self_field_of(x):
                        flags.add(x[2])
    EXC = {
        # (emitter role, flag) -> reason. Role = 'uncompressed' for the emitter whose constants are < 0x80.
        ('uncompressed', 'props_needed'): 'an uncompressed chunk carries no properties; the next LZMA chunk must still send them',
    }
    for f in emitters:
        consts = {c for g, _, c in wc if g.path == f.path}
        role = 'uncompressed' if consts and max(consts) < 0x80 else 'lzma'
        walls = [b for b, t, c in f.calls() if is_wall(c)]
        for fl in sorted(flags):
            key = '%s:assigns:%s' % (f.name, fl)
            asg = {b for b, si, name, rv in self_field_stores(f) if name == fl}
            # every path from a header write to an Ok return passes an assignment of the flag
            errb = {b for b in f.reachable if f.blocks[b]['term']['k'] == 'call' and
                    (callee_of(f.blocks[b]['term']) or {}).get('path', '').endswith('from_residual')}
            region = f.reach_from([s for w in walls for s in f.succs(w)], stop=asg | errb)
            leaks = [b for b in region if f.blocks[b]['term']['k'] == 'return']
            if asg and not leaks:
                ctx.ok(key, f.loc(sorted(asg)[0]), 'flag reassigned after the chunk is written on every success path')
            elif (role, fl) in EXC:
                ctx.exception(key, f.loc(walls[0]), EXC[(role, fl)])
            else:
                ctx.violation(key, f.loc(walls[0]), 'emitter `%s` writes a chunk but leaves reset flag `%s` untouched while its '
                              'sibling emitter consumes it: the next chunk repeats (or omits) a reset the stream already '
                              'performed, so encoder and decoder dictionaries diverge' % (f.name, fl))


def is_wall(c):
    return c.name == 'write_all' and c.trait and last_seg(c.trait) == 'Write'


@rule('FLAG-MODEL', ['C01', 'C03'], floor=5)
def flag_model(ctx):
    """Finite model of the LZMA2 writer's reset protocol, extracted from the code. State = the
    writer's bool flags + one ghost bit ("the encoder's probability model was reset since the last
    chunk that told the decoder to reset its state"). Starting from the constructor's flag values
    and closing under the chunk-level operations (in any order), in every reachable state:
      * an emitted control byte is in the reader's dictionary-RESET set iff the dict-reset flag is set;
      * an LZMA chunk is emitted without a state reset only if the encoder model was not reset;
      * no control byte outside the classes the reader accepts."""
    from lzlint.byteeval import StateEval
    import itertools
    F = ctx.facts
    st = st_reader_info(F)
    if st is None:
        return ctx.anchor_missing('LZMA2Reader chunk-header decoder')
    fr, subj, cs = st
    RESET_ST = {v for v, d in cs.items() if d.get('reset')}
    INVALID_ST = {v for v, d in cs.items() if not d['ok']}
    # values for which the reader resets / rebuilds its probability model
    ser = StateEval(fr)
    skey = expr_str(subj)
    model_blocks = set()
    for b, t, c in fr.calls():
        if c.is_('LZMADecoder::reset'):
            model_blocks.add(b)
        for g in F.resolve_callee(c):
            if g.self_adt == fr.self_adt and any(c2.is_('LZMADecoder::new') for _, _, c2 in g.calls()):
                model_blocks.add(b)
    SRESET_ST = set()
    for v in range(0x80, 0x100):
        for path, env in ser.run({skey: v}):
            if ok_err_of_path(fr, path) != 'Err' and any(b in model_blocks for b in path):
                SRESET_ST.add(v)
    ms = methods_of(F, 'LZMA2Writer')
    adt = F.adt('LZMA2Writer')
    if not ms or adt is None:
        return ctx.anchor_missing('LZMA2Writer')
    flags = [fl['name'] for fl in adt['variants'][0]['fields'] if fl['ty'] == 'bool']
    wc = writer_control_constants(F)
    if not wc:
        return ctx.anchor_missing('LZMA2Writer control-byte constants')
    emit_blocks = {}
    for f, db, c in wc:
        emit_blocks.setdefault(f.path, {})[db] = c
    dflag = None
    for f, db, c in wc:
        if c in RESET_ST and c < 0x80:
            prov = Prov(f)
            for s_, pol, cond in guards_of(f, db, prov):
                sf = self_field_of(cond) if cond[0] in ('field', 'deref') else None
                if sf and len(sf) == 1 and pol:
                    dflag = sf[0]
    if dflag is None:
        return ctx.violation('writer:no-dict-reset-flag', '-', 'cannot identify the dictionary-reset flag (fail closed)')
    movers = {f.path: f for f in ms if f.arg_count >= 1 and f.local_ty(1).startswith('&mut') and
              any(name in flags for _, _, name, _ in self_field_stores(f))}
    # chunk-level operations: movers or direct callers of movers that are not themselves called by such a function
    cand = {}
    for f in ms:
        if f.path in movers or any(g.path in movers for _, _, c in f.calls() for g in F.resolve_callee(c)):
            if f.arg_count >= 1 and f.local_ty(1).startswith('&mut'):
                cand[f.path] = f
    inherent = {p: f for p, f in cand.items() if not (f.impl and f.impl.get('trait'))}
    ops = []
    for p, f in inherent.items():
        callers = [o for q, o in inherent.items() if q != p and any(g.path == p for _, _, c in o.calls() for g in F.resolve_callee(c))]
        # an emitter that is only reached through a sequencing function (which may reset the encoder first) is not an
        # operation of its own: it is evaluated as part of its caller
        if p in movers and any(o.path not in movers for o in callers):
            continue
        ops.append(f)
    init = set()
    for f in ms:
        prov = Prov(f)
        for bi, b in enumerate(f.blocks):
            for s_ in b['stmts']:
                if s_['k'] == 'assign' and s_['rv']['r'] == 'agg' and s_['rv'].get('kind') == 'adt' and last_seg(s_['rv']['adt']) == 'LZMA2Writer':
                    vals = {}
                    for nm, o in zip(s_['rv']['fields'], s_['rv']['ops']):
                        if nm not in flags:
                            continue
                        e = prov.operand(o)
                        opts = set()
                        for (alt, _) in prov.expand(e):
                            if alt[0] == 'const':
                                opts.add(int(bool(alt[2])))
                            else:
                                opts |= {0, 1}
                        vals[nm] = opts
                    for combo in itertools.product(*[sorted(vals.get(nm, {0, 1})) for nm in flags]):
                        init.add(tuple(combo) + (1,))     # ghost: a new encoder model
    if not init:
        return ctx.anchor_missing('LZMA2Writer constructor aggregate')
    sn = 'self'
    keys = ['%s.%s' % (sn, nm) for nm in flags] + ['ghost.R']

    def env_of(state):
        return dict(zip(keys, state))
    evals = {}
    bad = {}
    stats = {'em': 0, 'tr': 0}

    def eval_fn(f, env, depth=0):
        """All final envs of f started in env (flags + ghost)."""
        se = evals.setdefault(f.path, StateEval(f))
        eb = emit_blocks.get(f.path, {})

        def on_block(b, env):
            if b in eb:
                c = eb[b]
                stats['em'] += 1
                span = {c | x for x in range(0x20)} if c >= 0x80 else {c}
                d = env.get('%s.%s' % (sn, dflag))
                g = env.get('ghost.R')
                k = None
                if span & INVALID_ST:
                    k = ('invalid', f.name, c)
                elif d == 1 and not span <= RESET_ST:
                    k = ('missing-reset', f.name, c)
                elif d == 0 and span & RESET_ST:
                    k = ('spurious-reset', f.name, c)
                elif c >= 0x80 and g == 1 and not span <= SRESET_ST:
                    k = ('missing-state-reset', f.name, c)
                if k and k not in bad:
                    bad[k] = (f, b, {kk: vv for kk, vv in env.items() if isinstance(kk, str)})
                if c >= 0x80 and span <= SRESET_ST:
                    env = dict(env)
                    env['ghost.R'] = 0
                    return env
            return None

        def on_call(b, t, env):
            c = callee_of(t)
            if not c:
                return [env]
            cal = Callee(c)
            if cal.is_('LZMAEncoder::reset', 'LZMAEncoder::new'):
                e2 = dict(env)
                e2['ghost.R'] = 1
                return [e2]
            outs = []
            for g in F.resolve_callee(cal):
                if g.path in cand and g.path != f.path and depth < 3:
                    for e3 in eval_fn(g, env, depth + 1):
                        outs.append(e3)
            return outs or [env]
        res = []
        for path, env2 in se.explore(env, on_call=on_call, on_block=on_block):
            if ok_err_of_path(f, path) == 'Err':
                continue
            stats['tr'] += 1
            res.append(env2)
        return res
    seen = set(init)
    work = list(init)
    while work:
        st_ = work.pop()
        for f in ops:
            for env2 in eval_fn(f, env_of(st_)):
                nxt = tuple(env2.get(k) for k in keys)
                opts = [[0, 1] if v is None else [v] for v in nxt]
                for n2 in itertools.product(*opts):
                    if n2 not in seen:
                        seen.add(n2)
                        work.append(n2)
    for (kind, fname, c), (f, b, cur) in sorted(bad.items(), key=str):
        key = 'LZMA2Writer:%s:%s:0x%02X' % (fname, kind, c)
        fl = ', '.join('%s=%s' % (k.split('.')[-1], v) for k, v in sorted(cur.items()))
        if kind == 'spurious-reset':
            ctx.violation(key, f.loc(b), 'in reachable state {%s} `%s` emits control 0x%02X which makes the decoder reset its dictionary '
                          'although `%s` is clear: the encoder keeps matching against history the decoder dropped (undecodable '
                          'stream)' % (fl, fname, c, dflag))
        elif kind == 'missing-reset':
            ctx.violation(key, f.loc(b), 'in reachable state {%s} `%s` emits control 0x%02X without the dictionary reset that `%s` '
                          'requests' % (fl, fname, c, dflag))
        elif kind == 'missing-state-reset':
            ctx.violation(key, f.loc(b), 'in reachable state {%s} `%s` emits LZMA control 0x%02X (no state reset) although the encoder\'s '
                          'probability model was reset since the last chunk that reset the decoder\'s: encoder and decoder models '
                          'diverge (undecodable stream)' % (fl, fname, c))
        else:
            ctx.violation(key, f.loc(b), 'writer can emit control 0x%02X which the reader rejects' % c)
    badstates = set()
    for stt in sorted(seen):
        ctx.ok('state:' + ''.join(str(x) for x in stt), '-', 'reachable state {%s, model_reset=%d}' % (
            ', '.join('%s=%d' % (n, v) for n, v in zip(flags, stt)), stt[-1]))
    ctx.note('FLAG-MODEL: flags %s + ghost, ops %s, %d initial, %d reachable states, %d path transitions, %d emissions checked; '
             'reader RESET=%s STATE-RESET=%s' % (flags, [f.name for f in ops], len(init), len(seen), stats['tr'], stats['em'],
                                                 _ranges(RESET_ST), _ranges(SRESET_ST)))
    if stats['em'] == 0:
        ctx.violation('LZMA2Writer:no-emission', '-', 'model explored no control-byte emission (fail closed)')


@rule('READER-STATE', ['C06', 'C01', 'C04'], floor=2)
def reader_state(ctx):
    """LZMA2 reader protocol state: while a dictionary reset is pending every chunk that does not
    reset the dictionary is an error, and while properties are pending every LZMA chunk without new
    properties is an error (all paths through the chunk-header decoder, for every control value,
    with the pending flag set, end in Err). Otherwise the decoder runs without a dictionary/model
    (garbage, or an endless read loop)."""
    from lzlint.byteeval import StateEval
    F = ctx.facts
    st = st_reader_info(F)
    if st is None:
        return ctx.anchor_missing('LZMA2Reader chunk-header decoder')
    f, subj, cs = st
    prov = Prov(f)
    skey = expr_str(subj)
    adt = F.adt('LZMA2Reader')
    bools = [fl['name'] for fl in adt['variants'][0]['fields'] if fl['ty'] == 'bool']
    # flags read in conditions
    flags = set()
    for b in f.reachable:
        t = f.blocks[b]['term']
        if t['k'] == 'switch':
            cond = prov.operand(t['discr'], 0, '%d:T' % b)
            for x in expr_walk(cond):
                if x[0] == 'field' and x[2] in bools and self_field_of(x):
                    flags.add(x[2])
    se = StateEval(f, prov)
    RESET = {v for v, d in cs.items() if d.get('reset')}
    VALID = {v for v, d in cs.items() if d['ok']}
    END = {v for v, d in cs.items() if d.get('end')}
    # per value: which flags can be cleared on an Ok path, does an Ok path construct a new model / prepare the range decoder
    clear = {fl: set() for fl in flags}
    props = set()
    lzma = set()
    ctor_blocks = set()
    prep_blocks = {b for b, t, c in f.calls() if c.name == 'prepare'}
    for b, t, c in f.calls():
        for g in F.resolve_callee(c):
            if g.self_adt == f.self_adt and any(c2.is_('LZMADecoder::new') for _, _, c2 in g.calls()):
                ctor_blocks.add(b)
        if c.is_('LZMADecoder::new'):
            ctor_blocks.add(b)
    for v in sorted(VALID):
        for path, env in se.run({skey: v}):
            if ok_err_of_path(f, path) == 'Err':
                continue
            for fl in flags:
                if env.get('self.%s' % fl) == 0:
                    clear[fl].add(v)
            if any(b in ctor_blocks for b in path):
                props.add(v)
            if any(b in prep_blocks for b in path):
                lzma.add(v)
    roles = {}
    for fl in flags:
        if clear[fl] == RESET and RESET:
            roles['dict'] = fl
        elif clear[fl] == props and props:
            roles['props'] = fl
    if 'dict' not in roles or 'props' not in roles:
        ctx.violation('LZMA2Reader:pending-flags', f.loc(0), 'cannot identify the pending-dictionary-reset / pending-properties flags '
                      'by the control values that clear them (flags %s, clear sets %s; RESET=%s PROPS=%s): the reader no longer '
                      'tracks these protocol states (fail closed)' % (sorted(flags), {k: _ranges(v) for k, v in clear.items()},
                                                                    _ranges(RESET), _ranges(props)))
        return
    for role, must_err in (('dict', VALID - RESET - END), ('props', lzma - props)):
        fl = roles[role]
        bad = []
        for v in sorted(must_err):
            for path, env in se.run({skey: v, 'self.%s' % fl: 1}):
                if ok_err_of_path(f, path) != 'Err':
                    bad.append(v)
                    break
        key = 'LZMA2Reader:%s-pending-enforced' % role
        if bad:
            ctx.violation(key, f.loc(0), 'with `%s` set the chunk-header decoder accepts control byte(s) %s that do not satisfy it: '
                          'the chunk is decoded without the %s the stream promised (wrong output, or an endless read loop when no '
                          'model exists)' % (fl, _ranges(bad), 'dictionary reset' if role == 'dict' else 'properties / probability model'))
        else:
            ctx.ok(key, f.loc(0), 'with `%s` set every control byte in %s ends in Err on all paths' % (fl, _ranges(must_err)))


# --------------------------------------------------------------------------- WINDOW-ALIGN

def _low_zero_bits(F, fn, e, depth=0):
    """Number of low bits of e that are provably zero (0 = nothing known)."""
    if depth > 8:
        return 0
    k = e[0]
    if k == 'const':
        v = e[2]
        if isinstance(v, int) and not isinstance(v, bool):
            if v == 0:
                return 64
            n = 0
            while v % 2 == 0:
                v //= 2
                n += 1
            return n
        return 0
    if k in ('cast',):
        return _low_zero_bits(F, fn, e[2], depth + 1)
    if k in ('trybranch', 'downcast'):
        return _low_zero_bits(F, fn, e[1], depth + 1)
    if k == 'field' and e[2] == '0' and e[1][0] in ('bin', 'downcast'):
        return _low_zero_bits(F, fn, e[1], depth + 1)
    if k == 'un' and e[1] == 'Not':
        # !c for a constant c with low one bits
        c = e[2]
        if c[0] == 'const' and isinstance(c[2], int):
            v, n = c[2], 0
            while v % 2 == 1:
                v //= 2
                n += 1
            return n
        return 0
    if k == 'bin':
        op = e[1].replace('WithOverflow', '')
        a = _low_zero_bits(F, fn, e[2], depth + 1)
        b = _low_zero_bits(F, fn, e[3], depth + 1)
        if op == 'BitAnd':
            return max(a, b)
        if op in ('Add', 'Sub', 'BitOr', 'BitXor'):
            return min(a, b)
        if op == 'Mul':
            return a + b
        if op == 'Shl' and e[3][0] == 'const' and isinstance(e[3][2], int):
            return a + e[3][2]
        return 0
    if k == 'call':
        ln = e[1].split('::')[-1]
        if ln in ('unwrap', 'expect', 'from', 'into', 'try_from', 'try_into', 'max', 'min') and e[2]:
            return min(_low_zero_bits(F, fn, a, depth + 1) for a in (e[2] if ln in ('max', 'min') else e[2][:1]))
        node = e[3] if len(e) > 3 else None
        c = callee_of(node) if node else None
        if c and c.get('local'):
            g = F.by_path.get(c['path'])
            if g is not None:
                pg = Prov(g)
                vals = []
                for bi, x in pg.def_exprs(0):
                    if x[0] == 'agg' and str(x[1]).startswith('adt:'):
                        if str(x[1]).endswith(('::Err', '::None')) or not x[2]:
                            continue
                        x = x[2][0]
                    if x[0] == 'call' and x[1].endswith('from_residual'):
                        continue
                    vals.append(_low_zero_bits(F, g, x, depth + 1))
                return min(vals) if vals else 0
        return 0
    return 0


def _lower_bound(F, fn, e, depth=0):
    """A sound lower bound of an unsigned expression (0 when nothing is known)."""
    if depth > 8:
        return 0
    k = e[0]
    if k == 'const':
        return e[2] if isinstance(e[2], int) and not isinstance(e[2], bool) and e[2] >= 0 else 0
    if k == 'cast':
        return _lower_bound(F, fn, e[2], depth + 1)
    if k in ('trybranch', 'downcast'):
        return _lower_bound(F, fn, e[1], depth + 1)
    if k == 'field' and e[2] == '0' and e[1][0] in ('bin', 'downcast'):
        return _lower_bound(F, fn, e[1], depth + 1)
    if k == 'bin':
        op = e[1].replace('WithOverflow', '')
        if op == 'Add':
            return _lower_bound(F, fn, e[2], depth + 1) + _lower_bound(F, fn, e[3], depth + 1)
        if op == 'BitAnd':
            # (y + m) & !m rounds y up to a multiple of m + 1: at least y
            for a, b in ((e[2], e[3]), (e[3], e[2])):
                m = None
                if b[0] == 'un' and b[1] == 'Not' and b[2][0] == 'const' and isinstance(b[2][2], int):
                    m = b[2][2]
                elif b[0] == 'const' and isinstance(b[2], int):
                    inv = (~b[2]) & 0xFFFFFFFFFFFFFFFF
                    low = inv & 0xFFFF
                    if low and (low & (low + 1)) == 0 and (b[2] & low) == 0:
                        m = low
                x = a
                while x[0] == 'cast' or (x[0] == 'field' and x[2] == '0' and x[1][0] == 'bin'):
                    x = x[2] if x[0] == 'cast' else x[1]
                if m is not None and x[0] == 'bin' and x[1].startswith('Add'):
                    for y, c in ((x[2], x[3]), (x[3], x[2])):
                        if c[0] == 'const' and c[2] == m:
                            return _lower_bound(F, fn, y, depth + 1)
            return 0
        return 0
    if k == 'call':
        ln = e[1].split('::')[-1]
        if ln == 'max' and len(e[2]) == 2:
            return max(_lower_bound(F, fn, a, depth + 1) for a in e[2])
        if ln in ('unwrap', 'expect', 'from', 'into', 'try_from', 'try_into') and e[2]:
            return _lower_bound(F, fn, e[2][0], depth + 1)
        node = e[3] if len(e) > 3 else None
        c = callee_of(node) if node else None
        if c and c.get('local'):
            g = F.by_path.get(c['path'])
            if g is not None:
                pg = Prov(g)
                vals = []
                for bi, x in pg.def_exprs(0):
                    if x[0] == 'agg' and str(x[1]).startswith('adt:'):
                        if str(x[1]).endswith(('::Err', '::None')) or not x[2]:
                            continue
                        x = x[2][0]
                    if x[0] == 'call' and x[1].endswith('from_residual'):
                        continue
                    vals.append(_lower_bound(F, g, x, depth + 1))
                return min(vals) if vals else 0
    return 0


@rule('WINDOW-ALIGN', ['C03', 'C01', 'C06'], floor=4)
def window_align(ctx):
    """The decoder takes its position bits (pos_state, literal position) from the position inside the cyclic
    window, so the window length must be a multiple of 2^4 (pb, lp <= 4): otherwise the bits go out of phase
    with the encoder (and with liblzma, which rounds its window the same way) once the window wraps. Every
    call that sizes the decoder window passes a value whose low four bits are provably zero."""
    F = ctx.facts
    # the window type: its position accessor is masked with `pos_mask`
    wins = set()
    for f in F.fns:
        if f.kind == 'closure':
            continue
        prov = None
        for bi, b in enumerate(f.blocks):
            if b['cleanup']:
                continue
            for si, s in enumerate(b['stmts']):
                if s['k'] == 'assign' and s['rv']['r'] == 'bin' and s['rv']['op'] == 'BitAnd':
                    prov = prov or Prov(f)
                    e = prov.rvalue(s['rv'], 0, '%d:%d' % (bi, si))
                    if any(x[0] == 'field' and x[2] == 'pos_mask' for x in expr_walk(e)):
                        for x in expr_walk(e):
                            if x[0] == 'call' and len(x) > 3 and x[3]:
                                c = callee_of(x[3])
                                g = F.by_path.get(c['path']) if c and c.get('local') else None
                                if g is not None and g.self_adt and 'Decoder' in g.self_adt:
                                    wins.add(g.self_adt)
    if len(wins) != 1:
        return ctx.anchor_missing('decoder window type whose position is masked with pos_mask (found %s)' % sorted(wins))
    W = list(wins)[0]
    ctors = [g for g in F.fns if g.self_adt == W and g.kind != 'closure' and
             not (g.arg_count >= 1 and g.locals[1].get('name') == 'self') and
             any(c.is_('vec::from_elem', 'Vec::with_capacity') for _, _, c in g.calls())]
    if len(ctors) != 1:
        return ctx.anchor_missing('allocating constructor of %s' % W)
    ctor = ctors[0]
    # which parameter sizes the buffer
    pc = Prov(ctor)
    size_param = None
    for bi, t, c in ctor.calls():
        if c.is_('vec::from_elem') and len(t['args']) > 1:
            e = pc.operand(t['args'][1], 0, '%d:T' % bi)
            ps = [x[1] for x in expr_walk(e) if x[0] == 'param']
            if ps:
                size_param = ps[0]
    if size_param is None:
        return ctx.anchor_missing('buffer size parameter of %s' % ctor.key)
    n = 0
    for f in F.fns:
        if f.kind == 'closure':
            continue
        prov = None
        for bi, t, c in f.calls():
            if ctor not in F.resolve_callee(c) or len(t['args']) < size_param:
                continue
            prov = prov or Prov(f)
            e = prov.operand(t['args'][size_param - 1], 0, '%d:T' % bi)
            n += 1
            z = _low_zero_bits(F, f, e)
            key = '%s:window-multiple-of-16' % f.key
            # the window is never empty: the decoder's reset writes buf[len - 1]
            lo = _lower_bound(F, f, e)
            key2 = '%s:window-not-empty' % f.key
            if lo >= 1:
                ctx.ok(key2, f.loc(bi), 'window size is at least %d' % lo)
            else:
                ctx.violation(key2, f.loc(bi), 'the decoder window can be sized 0 (%s has no positive lower bound): the window reset writes '
                              'buf[len - 1] and panics for a caller-supplied dictionary size of 0' % expr_str(e)[:60])
            if z >= 4:
                ctx.ok(key, f.loc(bi), 'window size %s has %d low zero bits' % (expr_str(e)[:70], min(z, 64)))
            else:
                ctx.violation(key, f.loc(bi), 'the decoder window is sized with %s, which is not provably a multiple of 16: the '
                              'position bits the decoder derives from the window position go out of phase once the window wraps '
                              '(streams from liblzma with such dictionary sizes are rejected or decoded wrongly)' % expr_str(e)[:90])
    if n == 0:
        ctx.anchor_missing('call sites of %s' % ctor.key)


@rule('WINDOW-PRESET', ['C01'], floor=1)
def window_preset(ctx):
    """A decoder constructor that takes a preset dictionary may size its window from something other than the
    dictionary size (the declared uncompressed size, "to save memory") only when no preset dictionary is
    in play: the encoder copies matches out of the whole preset dictionary, so a window cut to the payload
    size loses the bytes those matches refer to ("dist overflow" on a valid stream)."""
    from lzlint.core import control_conditions
    F = ctx.facts
    n = 0
    for f in F.fns:
        if f.kind == 'closure':
            continue
        preset_params = [i for i in range(1, f.arg_count + 1) if 'Option<&[u8]>' in f.local_ty(i).replace('std::option::', '')]
        if not preset_params:
            continue
        prov = None
        for bi, t, c in f.calls():
            gs = F.resolve_callee(c)
            if not gs or not any(g.self_adt and 'Decoder' in g.self_adt and any(cc.is_('vec::from_elem') for _, _, cc in g.calls()) for g in gs):
                continue
            prov = prov or Prov(f)
            args = [prov.operand(a, 0, '%d:T' % bi) for a in t['args']]
            if not any(x[0] == 'param' and x[1] in preset_params for a in args for x in expr_walk(a)):
                continue
            pp = [x[1] for a in args for x in expr_walk(a) if x[0] == 'param' and x[1] in preset_params][0]
            # the size argument: the other one
            size = [a for a in args if not any(x[0] == 'param' and x[1] == pp for x in expr_walk(a))]
            if not size:
                continue
            n += 1
            key = '%s:window-keeps-preset' % f.key
            locs = {x[1] for x in expr_walk(size[0]) if x[0] == 'local'}
            bad = None
            base_params = None
            for l in sorted(locs):
                for (b2, s2, k, node) in sorted(f.whole_defs(l), key=lambda d: (d[0], d[1] if d[1] is not None else 1 << 30)):
                    if k == 'assign':
                        e = prov.rvalue(node['rv'], 0, '%d:%d' % (b2, s2))
                    else:
                        continue
                    ps = {x[1] for x in expr_walk(e) if x[0] == 'param'}
                    # look through one level of locals holding call results
                    for x in expr_walk(e):
                        if x[0] == 'local':
                            for (_, ex) in prov.def_exprs(x[1]):
                                ps |= {y[1] for y in expr_walk(ex) if y[0] == 'param'}
                    if not ps:
                        continue
                    if base_params is None:
                        base_params = ps
                        continue
                    if ps - base_params:
                        conds = [cx for _, cx in control_conditions(f, b2, prov)] + [cx for _, _, cx in guards_of(f, b2, prov)]
                        if not any(any(y[0] == 'param' and y[1] == pp for y in expr_walk(cx)) for cx in conds):
                            bad = (b2, s2, ps - base_params)
            if bad:
                ctx.violation(key, f.loc(bad[0], bad[1]), 'the window size is re-derived from parameter(s) %s without testing the preset dictionary '
                              'parameter `%s`: with a preset dictionary and a small declared size the window no longer holds the bytes the '
                              'stream\'s matches refer to' % (', '.join(f.local_name(i) for i in sorted(bad[2])), f.local_name(pp)))
            else:
                ctx.ok(key, f.loc(bi), 'window size derives from the dictionary size only, or is shrunk only under a test of `%s`' % f.local_name(pp))
    if n == 0:
        ctx.anchor_missing('decoder constructors taking a preset dictionary')


@rule('PRESET-TWIN', ['C19', 'C01'], floor=1)
def preset_twin(ctx):
    """Writer and reader agree on when a preset dictionary counts: the LZMA2 reader waives the initial
    dictionary reset only for a non-empty preset dictionary, so the writer may clear its "dictionary reset
    needed" flag only under a non-emptiness test of the preset dictionary as well (an empty Some(..) would
    otherwise produce a first chunk without reset that no reader accepts)."""
    from lzlint.core import control_conditions
    F = ctx.facts

    def mentions_nonempty(f, conds, depth=0):
        for cx in conds:
            txt = expr_str(cx)
            if 'is_empty' in txt or 'len(' in txt:
                return True
            # Option::filter / is_some_and / map with a closure: look into the closure body
            for x in expr_walk(cx):
                if x[0] == 'agg' and str(x[1]).startswith('closure'):
                    pass
            for x in expr_walk(cx):
                if x[0] == 'call' and x[1].split('::')[-1] in ('filter', 'is_some_and', 'map', 'map_or', 'is_none_or'):
                    for cl in F.closures_of(f):
                        if any(c.name in ('is_empty', 'len') for _, _, c in cl.calls()):
                            return True
        return False
    n = 0
    # reader side (anchor): a non-emptiness test of the preset parameter exists in LZMA2Reader::new
    rd = [f for f in F.fns if f.self_adt and last_seg(f.self_adt) == 'LZMA2Reader' and f.name == 'new']
    reader_tests = False
    for f in rd:
        if any(c.name in ('is_empty', 'len') for cl in F.closures_of(f) for _, _, c in cl.calls()) or \
                any(c.name in ('is_empty',) for _, _, c in f.calls()):
            reader_tests = True
    if not reader_tests:
        return ctx.anchor_missing('non-emptiness test of the preset dictionary in LZMA2Reader::new')
    for f in F.fns:
        if not (f.self_adt and last_seg(f.self_adt) == 'LZMA2Writer' and f.kind != 'closure'):
            continue
        prov = Prov(f)
        for bi, b in enumerate(f.blocks):
            if b['cleanup']:
                continue
            for si, st in enumerate(b['stmts']):
                if st['k'] != 'assign' or st['lhs']['p']:
                    continue
                nm = f.locals[st['lhs']['l']].get('name') or ''
                if 'dict_reset' not in nm:
                    continue
                v = prov.rvalue(st['rv'], 0, '%d:%d' % (bi, si))
                if not (v[0] == 'const' and v[2] in (0, False)):
                    continue
                n += 1
                key = '%s:reset-waived-only-for-nonempty-preset' % f.key
                conds = [cx for _, cx in control_conditions(f, bi, prov)] + [cx for _, _, cx in guards_of(f, bi, prov)]
                # switches on enum discriminants (if let Some(..)) that decide whether the store runs
                for sb in f.reachable:
                    tt = f.blocks[sb]['term']
                    if tt['k'] == 'switch' and sb != bi and f.dominates(sb, bi):
                        succs = f.succs(sb)
                        if any(bi not in f.reach_from([x], stop={sb}) for x in succs):
                            conds.append(prov.operand(tt['discr'], 0, '%d:T' % sb))
                if mentions_nonempty(f, conds):
                    ctx.ok(key, f.loc(bi, si), 'the flag is cleared under a non-emptiness test of the preset dictionary')
                else:
                    ctx.violation(key, f.loc(bi, si), 'the writer clears `%s` for any Some(preset dictionary), the reader waives the reset only for a '
                                  'non-empty one: with an empty preset dictionary the first chunk has no dictionary reset and the stream is '
                                  'rejected (LZMA2:0)' % nm)
    if n == 0:
        ctx.anchor_missing('store clearing the dictionary-reset flag in LZMA2Writer')


# --------------------------------------------------------------------------- SIZE-FIELD-TWIN (C01, C03, C08)

def _header_stores(f, prov):
    """[(block, const index, stripped value expr)] for stores into a local [u8; N] with a constant index."""
    from lzlint.intervals import _strip
    out = []
    for bi, b in enumerate(f.blocks):
        if b['cleanup']:
            continue
        for si, s in enumerate(b['stmts']):
            if s['k'] != 'assign':
                continue
            lp = s['lhs']['p']
            if not (len(lp) == 1 and isinstance(lp[0], dict) and ('ci' in lp[0] or 'i' in lp[0])):
                continue
            if not f.local_ty(s['lhs']['l']).startswith('[u8;'):
                continue
            idx = lp[0].get('ci')
            if idx is None:
                ie = prov.local(lp[0]['i'])
                idx = ie[2] if ie[0] == 'const' else None
            if idx is None:
                continue
            out.append((bi, s['lhs']['l'], idx, _strip(prov.rvalue(s['rv'], 0, '%d:%d' % (bi, si)))))
    return out


def _minus_one_shift(e):
    """(X, shift) when e is `(X - 1) >> shift` or `X - 1` (shift 0); None otherwise."""
    sh = 0
    if e[0] == 'bin' and e[1] == 'Shr' and e[3][0] == 'const' and isinstance(e[3][2], int):
        sh = e[3][2]
        e = e[2]
    if e[0] == 'bin' and e[1] == 'Sub' and e[3][0] == 'const' and e[3][2] == 1:
        return e[2], sh
    return None


def _writer_layout(f, prov):
    """Per header emitter: ({X-key: {index: shift}}, {X-key: shift OR-ed into byte 0}, other stores, problems)."""
    fields = {}
    high = {}
    other = []
    problems = []
    for bi, arr, idx, e in _header_stores(f, prov):
        if idx == 0:
            # control byte: expand multi-definition locals, look for an OR-ed `(X - 1) >> s`
            seen = set()
            todo = [e]
            while todo:
                x = todo.pop()
                if id(x) in seen:
                    continue
                seen.add(id(x))
                for y in expr_walk(x):
                    if y[0] == 'local':
                        for (db, de) in prov.def_exprs(y[1]):
                            from lzlint.intervals import _strip
                            todo.append(_strip(de))
                    if y[0] == 'bin' and y[1] == 'BitOr':
                        for side in (y[2], y[3]):
                            ms = _minus_one_shift(side)
                            if ms:
                                high[expr_str(ms[0])] = (ms[1], bi)
            continue
        ms = _minus_one_shift(e)
        if ms is None:
            if e[0] == 'const':
                continue
            other.append((bi, idx, e))
            continue
        fields.setdefault(expr_str(ms[0]), {})[idx] = (ms[1], bi)
    return fields, high, other, problems


@rule('SIZE-FIELD-TWIN', ['C01', 'C03', 'C08'], floor=7)
def size_field_twin(ctx):
    """The LZMA2 chunk header stores every size as `size - 1`, big-endian, the uncompressed size of an LZMA
    chunk with five more bits in the control byte. Three sites have to agree on that layout: the writer's two
    header emitters, the single-threaded reader's header decoder and the multi-threaded reader's work-unit
    cutter (which only needs the payload length, but takes it from fixed header offsets). The layout is read off
    the writer (which header index gets `(X - 1) >> 8k`), nothing is frozen: (W) every variable header byte is a
    byte of `X - 1`, the bytes of one X are consecutive and end with shift 0, and only the first field of an
    emitter may spill into the control byte, with shift 16; (R) the reader adds 1 to every 16-bit size it reads,
    combines the first one of an LZMA chunk with `(control & 0x1F) << 16`, and hands the second one to the range
    decoder; (M) the cutter takes the payload length of an LZMA chunk from the header offsets at which the writer
    put the *compressed* size (the field without control bits), of an uncompressed chunk from the whole 2-byte
    field, and adds 1 to both."""
    from lzlint.intervals import _strip
    F = ctx.facts
    emitters = []
    for f in methods_of(F, 'LZMA2Writer'):
        prov = Prov(f)
        st = _header_stores(f, prov)
        if not any(idx == 0 for _, _, idx, _ in st):
            continue
        emitters.append((f, prov) + _writer_layout(f, prov))
    if len(emitters) < 2:
        return ctx.anchor_missing('LZMA2Writer chunk-header emitters (methods storing into a [u8; N] header, index 0 included)')
    lzma_layout = None      # (uncompressed index, compressed index) from the emitter with control bits
    plain_layout = None     # index of the only field of the other emitter
    for f, prov, fields, high, other, problems in emitters:
        for xk, d in sorted(fields.items()):
            key = '%s:%s:big-endian-minus-one' % (f.key, xk[:40])
            idxs = sorted(d)
            shifts = [d[i][0] for i in idxs]
            contiguous = idxs == list(range(idxs[0], idxs[0] + len(idxs)))
            want = [8 * (len(idxs) - 1 - j) for j in range(len(idxs))]
            if contiguous and shifts == want and len(idxs) == 2:
                ctx.ok(key, f.loc(d[idxs[0]][1]), 'header[%d..=%d] = bytes of (%s - 1), most significant first' % (idxs[0], idxs[-1], xk[:60]))
            else:
                ctx.violation(key, f.loc(d[idxs[0]][1]), 'the bytes of (%s - 1) are stored at header indices %s with shifts %s; a 16-bit '
                              'big-endian field needs two consecutive bytes with shifts [8, 0] (the reader reads it with read_u16_be)' % (
                                  xk[:60], idxs, shifts))
        for bi, idx, e in other:
            if e[0] == 'call' and last_seg(e[1]) == 'get_props':
                continue
            ctx.violation('%s:header[%d]:not-a-size-byte' % (f.key, idx), f.loc(bi), 'header byte %d is %s: neither a constant, a byte of '
                          '`size - 1`, nor the properties byte' % (idx, expr_str(e)[:80]))
        if high:
            for xk, (sh, bi) in high.items():
                key = '%s:%s:high-bits-in-control' % (f.key, xk[:40])
                d = fields.get(xk)
                if sh == 16 and d and min(d) == 1:
                    ctx.ok(key, f.loc(bi), 'control |= (%s - 1) >> 16; its low 16 bits follow the control byte' % xk[:60])
                    rest = [min(dd) for k2, dd in fields.items() if k2 != xk]
                    if len(rest) == 1:
                        lzma_layout = (1, rest[0], f)
                else:
                    ctx.violation(key, f.loc(bi), 'control byte takes (%s - 1) >> %d, but the 16 bits stored in the header are at %s: '
                                  'the reader rebuilds the size as ((control & 0x1F) << 16) + the u16 right after the control byte + 1' % (
                                      xk[:60], sh, sorted(d) if d else 'no index'))
        elif len(fields) == 1:
            plain_layout = (min(list(fields.values())[0]), f)
    if lzma_layout is None or plain_layout is None:
        return ctx.violation('writer-layout', '-', 'cannot read the chunk header layout off the writer (need one emitter with a size spilling '
                             'into the control byte plus a second size, and one emitter with a single size) - fail closed')
    u_idx, c_idx, fw = lzma_layout
    ctx.ok('writer-layout', fw.loc(0), 'LZMA chunk: uncompressed-1 at header[%d..], compressed-1 at header[%d..]; uncompressed chunk: size-1 at '
           'header[%d..]' % (u_idx, c_idx, plain_layout[0]), nontrivial=False)
    # (R) single-threaded reader
    st = st_reader_info(F)
    if st is None:
        ctx.anchor_missing('LZMA2Reader chunk-header decoder')
    else:
        fr = st[0]
        prov = Prov(fr)
        reads = [(bi, t) for bi, t, c in fr.calls() if c.name == 'read_u16_be']
        # every u16 read is used as `+ 1`
        plus1 = {}
        for bi, b in enumerate(fr.blocks):
            for si, s in enumerate(b['stmts']):
                if s['k'] == 'assign' and s['rv']['r'] == 'bin' and s['rv']['op'].startswith('Add'):
                    e = _strip(prov.rvalue(s['rv'], 0, '%d:%d' % (bi, si)))
                    if e[0] == 'bin' and e[1] == 'Add' and e[3][0] == 'const' and e[3][2] == 1 and e[2][0] == 'call' and last_seg(e[2][1]) == 'read_u16_be':
                        plus1[bi] = e
        key = '%s:every-size-plus-one' % fr.key
        # a read at block rb is matched by the first `+ 1` block reachable from it
        unmatched = []
        for rb, t in reads:
            tgt = t.get('target')
            seen, todo, hit = set(), [tgt], False
            while todo and not hit:
                b = todo.pop()
                if b in seen or b is None:
                    continue
                seen.add(b)
                if b in plus1:
                    hit = True
                    break
                if any(b == r for r, _ in reads):
                    continue
                todo.extend(fr.succs(b) if hasattr(fr, 'succs') else [])
            if not hit:
                unmatched.append(rb)
        if reads and not unmatched and len(plus1) >= len(reads):
            ctx.ok(key, fr.loc(reads[0][0]), '%d read_u16_be, each used as value + 1' % len(reads))
        else:
            ctx.violation(key, fr.loc((unmatched or [0])[0]), 'a 16-bit chunk size is not incremented by one after reading (the writer stores size - 1): '
                          '%d read(s), %d `+ 1`' % (len(reads), len(plus1)))
        # the first u16 on the LZMA path is combined with (control & 0x1F) << 16; the one handed to prepare is another read
        combo = None
        for bi, b in enumerate(fr.blocks):
            for si, s in enumerate(b['stmts']):
                if s['k'] == 'assign' and s['rv']['r'] == 'bin' and s['rv']['op'] == 'Shl':
                    e = _strip(prov.rvalue(s['rv'], 0, '%d:%d' % (bi, si)))
                    if e[3][0] == 'const' and e[2][0] == 'bin' and e[2][1] == 'BitAnd' and e[2][3][0] == 'const':
                        combo = (bi, e[2][3][2], e[3][2])
        key = '%s:control-bits' % fr.key
        if combo and combo[1] == 0x1F and combo[2] == 16:
            ctx.ok(key, fr.loc(combo[0]), 'uncompressed size takes (control & 0x1F) << 16')
        else:
            ctx.violation(key, fr.loc(combo[0] if combo else 0), 'the reader does not rebuild bits 16..20 of the uncompressed size as '
                          '(control & 0x1F) << 16 (found %s); the writer puts (size - 1) >> 16 there' % (combo[1:] if combo else None,))
        prep = [(bi, t) for bi, t, c in fr.calls() if c.name == 'prepare']
        key = '%s:compressed-is-second-field' % fr.key
        if combo and prep and len(reads) >= 2:
            order = sorted(rb for rb, _ in reads)
            # which read block feeds `prepare`: the `+ 1` block that dominates prepare and is not the one feeding the store next to the Shl
            pe = _strip(prov.operand(prep[0][1]['args'][2], 0, '%d:T' % prep[0][0]))
            feeds = pe[0] == 'bin' and pe[1] == 'Add' and pe[2][0] == 'call' and last_seg(pe[2][1]) == 'read_u16_be'
            # position tag of the read inside the expression is lost after _strip; use dominance: the read closest before prepare
            doms = [rb for rb in order if fr.dominates(rb, prep[0][0])] if hasattr(fr, 'dominates') else order
            second = len(doms) >= 2
            if feeds and second and (c_idx > u_idx):
                ctx.ok(key, fr.loc(prep[0][0]), 'the range decoder is prepared with the second 16-bit field + 1 (writer: header[%d..])' % c_idx)
            else:
                ctx.violation(key, fr.loc(prep[0][0]), 'the compressed size handed to the range decoder is not the second 16-bit header field + 1 '
                              '(writer puts compressed-1 at header[%d..], after uncompressed-1 at header[%d..])' % (c_idx, u_idx))
        else:
            ctx.violation(key, fr.loc(0), 'cannot locate the range decoder preparation / the two size reads (fail closed)')
    # (M) MT cutter
    mt = mt_reader_info(F)
    if mt is None:
        ctx.anchor_missing('LZMA2ReaderMT work-unit cutter')
        return
    fm = mt[0]
    prov = Prov(fm)
    got = []
    for bi, t, c in fm.calls():
        if c.name == 'from_be_bytes':
            a = _strip(prov.operand(t['args'][0], 0, '%d:T' % bi))
            if a[0] == 'agg' and len(a[2]) == 2 and all(x[0] == 'index' and x[2][0] == 'const' for x in a[2]):
                got.append((bi, 'idx', [x[2][2] for x in a[2]], expr_str(a[2][0][1])))
            else:
                got.append((bi, 'whole', None, expr_str(a)))
    # each is used as + 1
    adds = 0
    for bi, b in enumerate(fm.blocks):
        for si, s in enumerate(b['stmts']):
            if s['k'] == 'assign' and s['rv']['r'] == 'bin' and s['rv']['op'].startswith('Add'):
                e = _strip(prov.rvalue(s['rv'], 0, '%d:%d' % (bi, si)))
                if e[0] == 'bin' and e[1] == 'Add' and e[3][0] == 'const' and e[3][2] == 1 and e[2][0] == 'call' and last_seg(e[2][1]) == 'from_be_bytes':
                    adds += 1
    key = '%s:payload-length-plus-one' % fm.key
    if got and adds == len(got):
        ctx.ok(key, fm.loc(got[0][0]), '%d size field(s), each used as value + 1' % len(got))
    else:
        ctx.violation(key, fm.loc(got[0][0] if got else 0), 'the cutter does not add one to a chunk size it takes from the header '
                      '(%d size fields, %d `+ 1`): units are cut one byte short' % (len(got), adds))
    key = '%s:compressed-size-offset' % fm.key
    idxd = [g for g in got if g[1] == 'idx']
    whole = [g for g in got if g[1] == 'whole']
    # the cutter reads the control byte separately, so header index k of the writer is offset k - 1 of its buffer
    want = [c_idx - 1, c_idx]
    if len(idxd) == 1 and idxd[0][2] == want:
        ctx.ok(key, fm.loc(idxd[0][0]), 'payload length of an LZMA chunk = bytes %s after the control byte = writer header[%d..=%d] (compressed - 1)' % (
            want, c_idx, c_idx + 1))
    else:
        ctx.violation(key, fm.loc(idxd[0][0] if idxd else 0), 'the cutter takes the payload length of an LZMA chunk from offsets %s after the control '
                      'byte; the writer stores compressed - 1 at header[%d..=%d], i.e. offsets %s' % (
                          [g[2] for g in idxd], c_idx, c_idx + 1, want))
    key = '%s:uncompressed-chunk-size-field' % fm.key
    if len(whole) == 1 and plain_layout[0] == 1:
        ctx.ok(key, fm.loc(whole[0][0]), 'payload length of an uncompressed chunk = the whole 2-byte field after the control byte')
    else:
        ctx.violation(key, fm.loc(whole[0][0] if whole else 0), 'cannot match the uncompressed chunk size field of the cutter with the writer '
                      '(writer: header[%d..]; cutter whole-array fields: %d)' % (plain_layout[0], len(whole)))


# --------------------------------------------------------------------------- EMIT-LOOP-FLAGS (C01) - round 12

@rule('EMIT-LOOP-FLAGS', ['C01', 'C03'], floor=1)
def emit_loop_flags(ctx):
    """A chunk emitter that writes several chunk headers in a loop (data that is stored uncompressed is cut into pieces of
    at most 64 KiB) chooses each header's control byte from the writer's pending-reset flags. A flag that is read inside
    the loop to choose a header has to be cleared inside the loop as well: the request it stands for is served by the
    FIRST header. Cleared only behind the loop, every further piece repeats the dictionary reset (control 0x01), the
    reader drops the window between two pieces of one chunk, and a later match into the first piece fails. FLAG-MODEL
    treats an emitter call as one step and cannot see this."""
    from lzlint.core import field_path, op_const
    F = ctx.facts
    n = 0
    for f in methods_of(F, 'LZMA2Writer'):
        loops = f.loops()
        if not loops:
            continue
        prov = Prov(f)
        for h, body in loops.items():
            if not any(c.name == 'write_all' for bi, t, c in f.calls() if bi in body):
                continue
            read = {}
            for sb in body:
                t = f.blocks[sb]['term']
                if t['k'] != 'switch' or switch_edges(f, sb) is None:
                    continue
                cond = prov.operand(t['discr'], 0, '%d:T' % sb)
                while cond[0] == 'un' and cond[1] == 'Not':
                    cond = cond[2]
                sf = self_field_of(cond)
                if cond[0] != 'bin' and sf and len(sf) == 1:
                    read[sf[0]] = sb
            for fld, sb in sorted(read.items()):
                n += 1
                key = '%s:%s:cleared-in-the-loop-that-reads-it' % (f.key, fld)
                cleared = False
                for bi in body:
                    for s in f.blocks[bi]['stmts']:
                        if s['k'] == 'assign' and s['lhs']['l'] == 1 and tuple(field_path(s['lhs']) or ()) == (fld,) and s['rv']['r'] == 'use':
                            k = op_const(s['rv']['o'])
                            if k is not None and k.get('v') in (0, False):
                                cleared = True
                if cleared:
                    ctx.ok(key, f.loc(sb), 'the flag chooses a header inside the loop and is cleared inside it')
                else:
                    ctx.violation(key, f.loc(sb), '`%s` chooses the control byte of every header this loop writes but is not cleared inside the loop: '
                                  'the second piece of a chunk that is stored in several pieces repeats the reset the first one already made' % fld)
    if n == 0:
        ctx.anchor_missing('LZMA2Writer emitter that writes headers in a loop and reads a flag there')
