"""ESTIMATE-TWIN (C17): the memory estimator of a type and the allocations of its constructor are compared as
linear forms. Both formulas are in the source; nothing is executed and no solver is used: the forms are
normalised (sum of coefficient * atom) and compared coefficient by coefficient."""
import re
from fractions import Fraction

from lzlint.core import *
from lzlint.framework import rule
from rules.totality import ALLOC_SINKS
from rules.arith import estimator_roots

PRIM = {'u8': 1, 'i8': 1, 'bool': 1, 'u16': 2, 'i16': 2, 'u32': 4, 'i32': 4, 'f32': 4, 'char': 4, 'u64': 8, 'i64': 8,
        'usize': 8, 'isize': 8, 'f64': 8}
CONST_TOLERANCE = 4096     # bytes: integer division in the KiB formulas loses < 1 KiB per term
SMALL = 64 * 1024          # constant-only allocations below this are left to the estimators' fixed slack


def sizeof(F, ty):
    ty = ty.strip()
    if ty in PRIM:
        return PRIM[ty]
    m = re.match(r'^\[(.*); (\d+)\]$', ty)
    if m:
        s = sizeof(F, m.group(1))
        return s * int(m.group(2)) if s is not None else None
    if ty.startswith('&') or ty.startswith('*') or ty.startswith('std::boxed::Box<'):
        return 8
    if re.match(r'^(std|alloc)::vec::Vec<', ty):
        return 24
    base = ty.split('<')[0]
    for p, a in F.adts.items():
        if p == base or p.endswith('::' + base) or base.endswith('::' + p):
            return a.get('size')
    return None


def vec_elem(ty):
    m = re.match(r'^(?:std|alloc)::vec::Vec<(.*)>$', ty.strip())
    if not m:
        return None
    inner = m.group(1)
    # drop a trailing allocator parameter
    depth = 0
    for i, ch in enumerate(inner):
        if ch in '<[(':
            depth += 1
        elif ch in '>])':
            depth -= 1
        elif ch == ',' and depth == 0:
            return inner[:i]
    return inner


# ---- linear forms: dict atom -> Fraction; atom None = constant term

def freeze(l):
    return tuple(sorted(((k, v) for k, v in l.items() if v != 0), key=repr))


def ladd(a, b, s=1):
    out = dict(a)
    for k, v in b.items():
        out[k] = out.get(k, 0) + s * v
    return {k: v for k, v in out.items() if v != 0}


def lscale(a, c):
    return {k: v * c for k, v in a.items() if v * c != 0}


def lconst(a):
    """constant value if the form has no atoms"""
    if all(k is None for k in a):
        return a.get(None, Fraction(0))
    return None


def atom_str(k):
    if k is None:
        return '1'
    if k[0] == 'p':
        return k[1]
    if k[0] == 'pow2':
        return '2^(%s)' % lin_str(dict(k[1]))
    if k[0] == 'call':
        return '%s(%s)' % (k[1], ', '.join(lin_str(dict(a)) if a is not None else '?' for a in k[2]))
    return str(k[1])


def _lin_le(l1, l2):
    """l1 <= l2 for all parameter values, for the two shapes that occur: l1 = min(X, c) with l2 = X, or l2 = max(X, c) with l1 = X
    (X a linear form, c a constant)."""
    d1, d2 = dict(l1), dict(l2)
    if d1 == d2:
        return True
    def single_call(d, names):
        ks = [k for k in d if k is not None]
        if len(ks) == 1 and d.get(None, 0) == 0 and d[ks[0]] == 1 and ks[0][0] == 'call' and ks[0][1].split('::')[-1] in names:
            return ks[0]
        return None
    c1 = single_call(d1, ('min',))
    if c1 is not None and any(a is not None and dict(a) == d2 for a in c1[2]):
        return True
    c2 = single_call(d2, ('max',))
    if c2 is not None and any(a is not None and dict(a) == d1 for a in c2[2]):
        return True
    return False


def atom_le(k1, k2):
    """Atom k1 never exceeds atom k2."""
    if k1 is None or k2 is None:
        return False
    if k1[0] == 'pow2' and k2[0] == 'pow2':
        return _lin_le(k1[1], k2[1])
    return False


def atom_params(k):
    if k is None:
        return set()
    if k[0] == 'p':
        return {k[1]}
    if k[0] == 'pow2':
        return set().union(*[atom_params(a) for a, _ in k[1]]) if k[1] else set()
    if k[0] == 'call':
        out = set()
        for a in k[2]:
            if a is not None:
                for a2, _ in a:
                    out |= atom_params(a2)
        return out
    return set()


def lin_str(l):
    if not l:
        return '0'
    parts = []
    for k, v in sorted(l.items(), key=lambda kv: repr(kv[0])):
        c = ('%d' % v) if v.denominator == 1 else ('%d/%d' % (v.numerator, v.denominator))
        parts.append(c if k is None else ('%s' % atom_str(k) if v == 1 else '%s*%s' % (c, atom_str(k))))
    return ' + '.join(parts)


class Lin:
    """Expression -> linear form. `alts` collects alternatives of multi-definition locals."""

    def __init__(self, F, fn, upper):
        self.F = F
        self.fn = fn
        self.prov = Prov(fn)
        self.upper = upper   # True: over-approximate roundings (allocation side); False: under-approximate (estimate side)

    def _accumulator(self, l, depth):
        base = None
        arms = []
        for bi, de in self.prov.def_exprs(l):
            d = de
            while d[0] == 'cast' or (d[0] == 'field' and d[2] == '0' and d[1][0] == 'bin'):
                d = d[2] if d[0] == 'cast' else d[1]
            if d[0] == 'bin' and d[1].startswith('Add') and d[2][0] == 'local' and d[2][1] == l:
                x = self.of(d[3], depth + 1)
                if x is None:
                    return None
                arms.append(x)
            elif not any(y[0] == 'local' and y[1] == l for y in expr_walk(d)):
                if base is not None:
                    return None
                base = self.of(d, depth + 1)
                if base is None:
                    return None
            else:
                return None
        if base is None:
            return None
        out = dict(base)
        if arms:
            keys = set().union(*[set(a) for a in arms])
            for k in keys:
                v = min(a.get(k, Fraction(0)) for a in arms)
                if v != 0:
                    out[k] = out.get(k, Fraction(0)) + v
        return out

    def of(self, e, depth=0):
        if depth > 30:
            return None
        k = e[0]
        if k == 'const':
            v = e[2]
            if isinstance(v, bool):
                v = int(v)
            return {None: Fraction(v)} if isinstance(v, int) and v != 0 else ({} if v == 0 else None)
        if k == 'cast' or k == 'trybranch':
            return self.of(e[2] if k == 'cast' else e[1], depth + 1)
        if k in ('ref', 'deref'):
            sf = self_field_of(e)
            if sf and len(sf) == 1:
                return {('p', sf[0]): Fraction(1)}
            return self.of(e[1], depth + 1)
        if k == 'downcast':
            return self.of(e[1], depth + 1)
        if k == 'field':
            if e[2] == '0' and e[1][0] in ('bin', 'downcast'):
                return self.of(e[1], depth + 1)
            sf = self_field_of(e)
            if sf:
                return {('p', sf[-1]): Fraction(1)}
            return {('opq', expr_str(e)[:80]): Fraction(1)}
        if k == 'param':
            return {('p', e[2]): Fraction(1)}
        if k == 'local':
            if not self.upper:
                # estimate side: an accumulator `let mut m = c; match .. { m += x, .. }`: constant start plus, per atom, the
                # smallest contribution over the alternative additions (a sound lower bound of the estimate)
                acc = self._accumulator(e[1], depth)
                if acc is not None:
                    return acc
                return None
            # a multi-definition local: opaque on the allocation side
            return {('opq', 'local ' + str(e[2])): Fraction(1)}
        if k == 'bin':
            op = e[1].replace('WithOverflow', '').replace('Unchecked', '')
            a, b = self.of(e[2], depth + 1), self.of(e[3], depth + 1)
            if a is None or b is None:
                return None
            ca, cb = lconst(a), lconst(b)
            if op == 'Add':
                return ladd(a, b)
            if op == 'Sub':
                return ladd(a, b, -1)
            if op == 'Mul':
                if ca is not None:
                    return lscale(b, ca)
                if cb is not None:
                    return lscale(a, cb)
            if op == 'Div' and cb not in (None, 0):
                if ca is not None:
                    return {None: Fraction(int(ca) // int(cb))} if int(ca) // int(cb) else {}
                return lscale(a, 1 / cb)
            if op == 'Shl':
                if cb is not None:
                    return lscale(a, Fraction(2) ** int(cb))
                return lscale({('pow2', freeze(b)): Fraction(1)}, ca) if ca is not None else None
            if op == 'Shr' and cb is not None:
                return lscale(a, Fraction(1, 2 ** int(cb)))
            return {('opq', expr_str(e)[:80]): Fraction(1)}
        if k == 'call':
            name = e[1]
            ln = name.split('::')[-1]
            args = e[2]
            if ln in ('size_of', 'align_of') and len(e) > 3 and e[3]:
                c = callee_of(e[3])
                sz = sizeof(self.F, (c or {}).get('args', ['?'])[0])
                return {None: Fraction(sz)} if sz else None
            if ln in ('unwrap', 'expect', 'unwrap_or_default', 'from', 'into', 'try_from', 'try_into', 'get', 'clone') and args:
                return self.of(args[0], depth + 1)
            if ln == 'div_ceil' and len(args) == 2:
                a, b = self.of(args[0], depth + 1), self.of(args[1], depth + 1)
                cb = lconst(b) if b is not None else None
                if a is not None and cb:
                    r = lscale(a, 1 / cb)
                    return ladd(r, {None: Fraction(1)}) if self.upper else r
                return None
            fa = []
            for a in args:
                la = self.of(a, depth + 1)
                fa.append(freeze(la) if la is not None else None)
            short = '::'.join(name.split('::')[-2:])
            return {('call', short, tuple(fa)): Fraction(1)}
        return None


def _acc_helper():
    pass


def substitute(l, mapping):
    """Replace ('p', name) atoms (also inside call/pow2 atoms) by the forms in mapping (name -> form)."""
    out = {}
    for k, v in l.items():
        if k is None:
            out = ladd(out, {None: v})
        elif k[0] == 'p':
            out = ladd(out, lscale(mapping[k[1]], v)) if k[1] in mapping and mapping[k[1]] is not None else ladd(out, {k: v})
        elif k[0] == 'pow2':
            out = ladd(out, {('pow2', freeze(substitute(dict(k[1]), mapping))): v})
        elif k[0] == 'call':
            out = ladd(out, {('call', k[1], tuple(freeze(substitute(dict(a), mapping)) if a is not None else None for a in k[2])): v})
        else:
            out = ladd(out, {k: v})
    return out


class Allocs:
    """Allocation form (bytes) of a function: its own allocation sites plus those of the local callees that are
    not constructors of separately estimated types (those become ('sub', type) atoms)."""

    def __init__(self, F, estimated):
        self.F = F
        self.estimated = estimated   # adt path -> estimator Fn
        self.memo = {}
        self.notes = []

    def ctor_of_estimated(self, g):
        return g.self_adt in self.estimated and not (g.arg_count >= 1 and g.locals[1].get('name') == 'self') and \
            g.d.get('output', '').replace('Self', g.self_adt or '') .startswith(g.self_adt or '#')

    def form(self, f, depth=0, stack=()):
        if f.path in self.memo:
            return self.memo[f.path]
        if depth > 6 or f.path in stack:
            return {}
        lin = Lin(self.F, f, True)
        prov = lin.prov
        total = {}
        for bi, t, c in f.calls():
            idx = None
            for nm, i in ALLOC_SINKS.items():
                if c.is_(nm):
                    idx = i
            if idx is not None and idx < len(t['args']):
                size = prov.operand(t['args'][idx], 0, '%d:T' % bi)
                esz = 1
                if c.is_('alloc::alloc', 'alloc::alloc_zeroed'):
                    for x in expr_walk(size):
                        if x[0] == 'call' and x[1].endswith('from_size_align') and x[2]:
                            size = x[2][0]
                            break
                else:
                    ety = vec_elem(t['dest']['ty']) or (vec_elem(self.F and f.local_ty(op_local(t['args'][0]) or 0).lstrip('&mut ').strip()) if t['args'] else None)
                    esz = sizeof(self.F, ety) if ety else None
                l = lin.of(size)
                if l is None or esz is None:
                    self.notes.append('%s: allocation %s of %s not expressible as a linear form' % (f.loc(bi), expr_str(size)[:60], t['dest']['ty']))
                    continue
                total = ladd(total, lscale(l, Fraction(esz)))
                continue
            if c.trait and not c.resolved:
                continue
            for g in self.F.resolve_callee(c):
                if g.kind == 'closure' or g.path == f.path:
                    continue
                if self.ctor_of_estimated(g) and g.self_adt != f.self_adt:
                    total = ladd(total, {('sub', g.self_adt): Fraction(1)})
                    continue
                gf = self.form(g, depth + 1, stack + (f.path,))
                if not gf:
                    continue
                mapping = {}
                for i in range(1, g.arg_count + 1):
                    nm = g.locals[i].get('name')
                    if nm and i - 1 < len(t['args']):
                        mapping[nm] = lin.of(prov.operand(t['args'][i - 1], 0, '%d:T' % bi))
                total = ladd(total, substitute(gf, mapping))
        self.memo[f.path] = total
        return total


# (constructor key, atom text) -> reason. One symbol, one reason.
EXCEPTIONS = {
    ('LZMAEncoder::new', 'LZMAEncoder::get_dist_slot(dict_size + -1)'): 'distance-slot price rows: at most 64 u32 entries per row (get_dist_slot <= 63), 1 KiB in total, inside the fixed 80 KiB',
    ('LZMAEncoder::new', 'Ord::max(nice_len + -1, 16)'): 'length price tables: at most 272 entries (nice_len <= 273), about 2 KiB per length encoder, inside the fixed 80 KiB',
    ('LZMAEncoder::new', '2^(pb)'): 'length coder tables: 56 bytes per position state, pb <= 4 gives 896 bytes, inside the fixed 80 KiB',
    ('LZEncoder::new', 'nice_len'): 'Matches::new(nice_len - 1): two 4-byte tables of at most 272 entries (nice_len <= 273 is the '
                                    'format maximum), about 2 KiB, inside the fixed 80 KiB slack of LZMAEncoder::get_mem_usage',
}


@rule('ESTIMATE-TWIN', ['C17'], floor=11, thorough_configs=('nostd',))
def estimate_twin(ctx):
    """For every type that has a memory estimator in the public estimators' call tree, the bytes its
    constructor allocates (sum over allocation sites, inlined through helper constructors, element size from
    the layout) are dominated term by term by the estimator's own formula (KiB * 1024): same coefficient or
    larger on every size parameter, constant part not smaller, and every separately estimated sub-object the
    constructor builds has its estimator called."""
    F = ctx.facts
    roots = estimator_roots(F)
    if not roots:
        return ctx.anchor_missing('public memory estimators')
    R = F.reachable_fns(roots)
    cg = F.callgraph()
    # estimators that are associated functions of a (non-option) type
    est_of = {}
    rootset = {r.path for r in roots}
    for p in sorted(R):
        f = F.by_path[p]
        if f.kind == 'closure' or not f.self_adt or 'u32' not in f.d.get('output', ''):
            continue
        if f.arg_count >= 1 and f.locals[1].get('name') == 'self':
            continue
        # the type's estimator is the one other types (or the public roots) call; helpers such as a table-size
        # function are only called from their own type
        ext = f.path in rootset or any(g.path == f.path and F.by_path[q].self_adt != f.self_adt
                                       for q in R for _, g in cg.get(q, []))
        if ext:
            est_of[f.self_adt] = f
    pairs = []
    for adt, e in est_of.items():
        ctors = [g for g in F.fns if g.self_adt == adt and g.kind != 'closure' and g is not e and
                 not (g.arg_count >= 1 and g.locals[1].get('name') == 'self') and
                 any(s['k'] == 'assign' and s['rv']['r'] == 'agg' and s['rv'].get('adt') == adt
                     for b in g.blocks if not b['cleanup'] for s in b['stmts'])]
        for g in ctors:
            pairs.append((e, g))
    # free-function estimators pair with the allocating constructor of the public reader type in the same file
    for p in R:
        e = F.by_path[p]
        if e.kind != 'fn' or e.self_adt or not e.d.get('pub') or 'memory_usage' not in (e.name or ''):
            continue
        for g in F.fns:
            if g.file == e.file and g.self_adt and g.kind != 'closure' and F.adts.get(g.self_adt, {}).get('pub') and \
                    not (g.arg_count >= 1 and g.locals[1].get('name') == 'self') and \
                    any(s['k'] == 'assign' and s['rv']['r'] == 'agg' and s['rv'].get('adt') == g.self_adt
                        for b in g.blocks if not b['cleanup'] for s in b['stmts']):
                pairs.append((e, g))
    if not pairs:
        return ctx.anchor_missing('estimator / constructor pairs')
    al = Allocs(F, est_of)
    n = 0
    for e, g in sorted(pairs, key=lambda x: (x[0].key, x[1].key)):
        key = '%s~%s' % (e.key, g.key)
        A = al.form(g)
        if not A:
            continue
        # estimator form: every Ok/plain return expression
        le = Lin(F, e, False)
        forms = []
        for bi, x in le.prov.def_exprs(0):
            if x[0] == 'agg' and str(x[1]).startswith('adt:'):
                if str(x[1]).endswith(('::Err', '::None')) or not x[2]:
                    continue
                x = x[2][0]
            if x[0] == 'call' and x[1].endswith('from_residual'):
                continue
            l = le.of(x)
            forms.append((bi, x, l))
        if not forms or any(l is None for _, _, l in forms):
            ctx.info(key + ':not-decided', e.loc(0), 'estimator formula not expressible as one linear form (%s)' % (
                '; '.join(expr_str(x)[:60] for _, x, l in forms if l is None) or 'no return expression'))
            continue
        if all(len(l) == 1 and list(l)[0] is not None and list(l)[0][0] == 'call' and
               any(h.path in R and h is not e for (_, t, c) in e.calls() for h in F.resolve_callee(c)) for _, _, l in forms):
            ctx.info(key + ':delegates', e.loc(0), 'estimator only forwards to %s (checked there)' % atom_str(list(forms[0][2])[0]))
            continue
        n += 1
        for bi, x, E in forms:
            Eb = lscale(E, Fraction(1024))
            # sub-estimators reached through the estimator's call atoms
            reach_est = set()
            for (_, t, c) in e.calls():
                for h in F.resolve_callee(c):
                    if h.path in R:
                        reach_est |= set(F.reachable_fns([h]))
            problems = []
            weak = []
            undecided = []
            for k, v in sorted(A.items(), key=lambda kv: repr(kv[0])):
                if k is None:
                    continue
                if k[0] == 'sub':
                    se = est_of.get(k[1])
                    if se is None or se.path not in reach_est:
                        problems.append('the constructor builds a %s but %s does not call its estimator' % (last_seg(k[1]), e.key))
                    continue
                have = Eb.get(k, Fraction(0))
                if have < v and k[0] == 'call' and any(a is None or 'local ' in repr(a) for a in k[2]):
                    # the argument is a multi-definition local of the constructor: compare by callee only
                    alt = [v2 for k2, v2 in Eb.items() if k2 is not None and k2[0] == 'call' and k2[1] == k[1]]
                    if alt:
                        have = max(alt)
                        weak.append(atom_str(k))
                if have < v and have == 0:
                    # the estimate has no identical atom; if it has a different atom over the same parameter(s) the two
                    # are syntactically incomparable (e.g. a rounded size vs the raw size): not decided, not an alarm
                    ps = atom_params(k)
                    # ordered atoms: 2^(min(x, c)) <= 2^(x) <= 2^(max(x, c))
                    below = [k2 for k2 in Eb if k2 is not None and k2 != k and atom_le(k2, k)]
                    above = [k2 for k2 in Eb if k2 is not None and k2 != k and atom_le(k, k2)]
                    if any(Eb[k2] >= v for k2 in above):
                        continue
                    if below and not above:
                        k2 = below[0]
                        problems.append('%s bytes per unit of `%s` are allocated, the estimate counts %s per unit of `%s`, which is never larger and is '
                                        'smaller as soon as the clamp applies' % (lin_str({None: v}), atom_str(k), lin_str({None: Eb[k2]}), atom_str(k2)))
                        continue
                    if ps and any(k2 is not None and k2 != k and (atom_params(k2) & ps) for k2 in Eb):
                        undecided.append('%s vs %s' % (atom_str(k), ', '.join(atom_str(k2) for k2 in Eb if k2 is not None and atom_params(k2) & ps)))
                        continue
                if have < v:
                    txt = atom_str(k)
                    if (g.key, txt) in EXCEPTIONS:
                        ctx.exception('%s:%s' % (key, txt), g.loc(0), EXCEPTIONS[(g.key, txt)])
                        continue
                    problems.append('%s bytes per unit of `%s` are allocated but the estimate counts %s' % (
                        lin_str({None: v}), txt, lin_str({None: have})))
            ca, ce = A.get(None, Fraction(0)), Eb.get(None, Fraction(0))
            if ca > SMALL and ce + CONST_TOLERANCE < ca:
                problems.append('constant part: %d bytes allocated, %d bytes estimated' % (ca, ce))
            if undecided and not problems:
                ctx.info(key + ':incomparable', e.loc(bi), 'not decided (different expressions over the same parameter): ' + '; '.join(undecided))
            if problems:
                ctx.violation(key, e.loc(bi), 'estimate %s KiB vs allocations %s bytes in %s: %s' % (
                    lin_str(E), lin_str(A), g.key, '; '.join(problems)))
            else:
                ctx.ok(key, e.loc(bi), 'estimate*1024 = %s  >=  allocations = %s%s' % (lin_str(Eb)[:120], lin_str(A)[:120],
                       ('  [compared by callee only, argument is a reassigned local: %s]' % ', '.join(weak)) if weak else ''))
    for s in al.notes[:10]:
        ctx.note(s)
    if n == 0:
        ctx.anchor_missing('decidable estimator / constructor pairs')



@rule('EST-SELECTOR', ['C17'], floor=7)
def est_selector(ctx):
    """The memory estimators follow the same selectors as the constructors: wherever a function in the
    estimators' call tree passes a match-finder or mode selector (an enum of the option struct) on to another
    estimator, it passes the value it was given, not a constant - a constant makes the estimate independent
    of the option while the constructor still honours it."""
    F = ctx.facts
    roots = estimator_roots(F)
    if not roots:
        return ctx.anchor_missing('public memory estimators')
    R = F.reachable_fns(roots)
    n = 0
    for p in sorted(R):
        f = F.by_path[p]
        if f.kind == 'closure':
            continue
        prov = None
        for bi, t, c in f.calls():
            gs = [g for g in F.resolve_callee(c) if g.path in R]
            if not gs:
                continue
            g = gs[0]
            for ai, a in enumerate(t['args']):
                if ai + 1 > g.arg_count:
                    continue
                ty = g.local_ty(ai + 1)
                if last_seg(ty) not in ('MFType', 'EncodeMode'):
                    continue
                prov = prov or Prov(f)
                e = prov.operand(a, 0, '%d:T' % bi)
                n += 1
                key = '%s->%s:%s' % (f.key, g.key, last_seg(ty))
                if e[0] in ('param', 'field', 'deref') or any(x[0] in ('param', 'field') for x in expr_walk(e)):
                    ctx.ok(key, f.loc(bi), 'selector passed through (%s)' % expr_str(e)[:40])
                else:
                    ctx.violation(key, f.loc(bi), 'the estimator %s calls %s with the constant selector %s instead of the caller\'s option: the estimate no longer '
                                  'follows the option although the constructor does' % (f.key, g.key, expr_str(e)[:40]))
    if n == 0:
        ctx.anchor_missing('selector arguments in the estimator tree')


@rule('SINGLE-ENCODER', ['C17'], floor=1)
def single_encoder(ctx):
    """The estimators count one encoder per writer. A writer method that replaces its encoder therefore must
    not hold two at once: in a `&mut self` method, a call to the constructor of a separately estimated type
    (an allocating encoder) whose result is stored into a field that still holds the previous encoder doubles
    the peak (new one built first, old one dropped by the assignment)."""
    F = ctx.facts
    roots = estimator_roots(F)
    R = F.reachable_fns(roots)
    est_types = {F.by_path[p].self_adt for p in R if F.by_path[p].self_adt and not (
        F.by_path[p].arg_count >= 1 and F.by_path[p].locals[1].get('name') == 'self')}
    # the big ones: types whose constructor (transitively) allocates a dictionary-sized buffer
    n = 0
    for f in F.fns:
        if f.kind == 'closure' or not f.self_adt or not (f.arg_count >= 1 and f.local_ty(1).startswith('&mut')):
            continue
        if 'Writer' not in last_seg(f.self_adt):
            continue
        prov = None
        for bi, t, c in f.calls():
            gs = [g for g in F.resolve_callee(c) if g.self_adt in est_types and last_seg(g.self_adt) == 'LZMAEncoder' and
                  not (g.arg_count >= 1 and g.locals[1].get('name') == 'self') and g.name == 'new']
            if not gs:
                continue
            n += 1
            key = '%s:replaces-encoder-in-place' % f.key
            # is the old encoder released before this call? (Option::take / mem::replace / mem::take on the field, dominating the call)
            released = False
            prov = prov or Prov(f)
            for b2, t2, c2 in f.calls():
                if c2.is_('Option::take', 'mem::replace', 'mem::take', 'mem::drop') and f.dominates(b2, bi):
                    released = True
            if released:
                ctx.ok(key, f.loc(bi), 'the previous encoder is released before the new one is built')
            else:
                ctx.violation(key, f.loc(bi), 'a second encoder is built while `self` still owns the first (the old one is only dropped by the assignment): '
                              'the peak is about twice what the estimator returns at every independent chunk start')
    if n == 0:
        ctx.info('no-in-place-replacement', '-', 'no writer method rebuilds its encoder')


@rule('SINGLE-DECODER', ['C17'], floor=1)
def single_decoder(ctx):
    """Decoder-side twin of SINGLE-ENCODER. `lzma2_get_memory_usage` counts one LZMA decoder (probability tables; 24 KiB of
    literal coders for lc + lp = 4). A reader method that rebuilds its decoder for new properties and stores it into a
    field of `self` must have released the previous one first: on the way to the constructor call a `Drop` of that field
    (what `self.f = None`, `take()` or `mem::replace` compile to) dominates the call. Otherwise both are alive until the
    assignment drops the old one and the peak exceeds the estimate by one decoder (measured: 8 187 bytes for every
    dictionary size, findings/C17-lzma2-props-two-decoders.rs; repaired in 6dae350)."""
    from lzlint.core import field_path
    F = ctx.facts
    n = 0
    for f in F.fns:
        if f.kind == 'closure' or not f.self_adt or 'Reader' not in last_seg(f.self_adt):
            continue
        if not (f.arg_count >= 1 and f.local_ty(1).startswith('&mut')):
            continue
        for bi, t, c in f.calls():
            if not (c.name == 'new' and any(g.self_adt and last_seg(g.self_adt) == 'LZMADecoder' for g in F.resolve_callee(c))):
                continue
            # the field the result ends up in: first store of a self field reachable from the call's target
            tgt = t.get('target')
            region = f.reach_from([tgt]) | {tgt} if tgt is not None else set()
            flds = set()
            for b in region:
                for s in f.blocks[b]['stmts']:
                    if s['k'] == 'assign' and s['lhs']['l'] == 1 and s['lhs']['p']:
                        fp = field_path(s['lhs'])
                        if fp and len(fp) == 1 and 'LZMADecoder' in str(s['lhs'].get('ty', '')):
                            flds.add(fp[0])
            if not flds:
                continue
            n += 1
            key = '%s:old-decoder-released-first' % f.key
            fld = sorted(flds)[0]
            released = False
            for b2, blk in enumerate(f.blocks):
                t2 = blk['term']
                if blk['cleanup'] or b2 == bi:
                    continue
                if t2['k'] == 'drop' and tuple(field_path(t2.get('place') or t2.get('p') or {}) or ()) == (fld,) and f.dominates(b2, bi):
                    released = True
                if t2['k'] == 'call':
                    c2 = Callee(callee_of(t2)) if callee_of(t2) else None
                    if c2 and c2.is_('Option::take', 'mem::replace', 'mem::take') and f.dominates(b2, bi):
                        released = True
            if released:
                ctx.ok(key, f.loc(bi), 'self.%s is dropped before the new decoder is built' % fld)
            else:
                ctx.violation(key, f.loc(bi), 'a new LZMADecoder is built while self.%s still holds the previous one (dropped only by the assignment): '
                              'peak = estimate + one decoder at every properties reset' % fld)
    if n == 0:
        ctx.anchor_missing('a reader method that builds an LZMADecoder into a field of self')


@rule('EST-ARG-TWIN', ['C17'], floor=2)
def est_arg_twin(ctx):
    """ESTIMATE-TWIN compares, per type, what the constructor allocates with what the estimator promises - as functions
    of the type's OWN parameters. Between types the figures are only comparable if constructor and estimator hand the
    same thing down: where `T::new` builds a `U` with `U::new(a..)` and T's estimator calls U's estimator with `(b..)`,
    the arguments for equally named parameters of the two U functions are the same expression of equally named
    parameters of the two T functions. `HC4::new` sizing its hash tables from `dict_size + 1` while
    `HC4::get_mem_usage` asks for `Hash234::get_mem_usage(dict_size)` doubles the 4-byte hash table for every
    power-of-two dictionary, and both per-type comparisons still hold."""
    from lzlint.intervals import _strip
    F = ctx.facts

    def params(f):
        return [d['name'] for d in (f.d.get('debug') or []) if not d['place']['p'] and 1 <= d['place']['l'] <= f.arg_count]

    def estimators(adt):
        return [f for f in F.fns if f.self_adt == adt and f.kind != 'closure' and 'mem' in f.name and 'u32' in str(f.d.get('output'))
                and not (f.arg_count >= 1 and f.locals[1].get('name') == 'self')]

    def ctors(adt):
        return [f for f in F.fns if f.self_adt == adt and f.kind != 'closure' and f.name == 'new']

    n = 0
    for adt in sorted({f.self_adt for f in F.fns if f.self_adt}):
        es, cs = estimators(adt), ctors(adt)
        if not es or not cs:
            continue
        for e in es:
            for c in cs:
                pe, pc = Prov(e), Prov(c)
                # sub-objects: calls of U::new in the constructor / of U's estimator in the estimator
                subs_c = {}
                for bi, t, cal in c.calls():
                    for g in F.resolve_callee(cal):
                        if g.self_adt and g.self_adt != adt and g.name == 'new' and estimators(g.self_adt):
                            subs_c[g.self_adt] = (bi, t, g)
                subs_e = {}
                for bi, t, cal in e.calls():
                    for g in F.resolve_callee(cal):
                        if g.self_adt and g.self_adt != adt and g in estimators(g.self_adt):
                            subs_e[g.self_adt] = (bi, t, g)
                for U in sorted(set(subs_c) & set(subs_e)):
                    bc, tc, gc = subs_c[U]
                    be, te, ge = subs_e[U]
                    pnc, pne = params(gc), params(ge)
                    for name in [x for x in pnc if x in pne]:
                        ac = _strip(pc.operand(tc['args'][pnc.index(name)], 0, '%d:T' % bc))
                        ae = _strip(pe.operand(te['args'][pne.index(name)], 0, '%d:T' % be))
                        n += 1
                        key = '%s~%s:%s:%s' % (c.key, e.key, last_seg(U), name)
                        if expr_str(ac) == expr_str(ae):
                            ctx.ok(key, c.loc(bc), 'both hand `%s` down as %s' % (expr_str(ac)[:50], name))
                        else:
                            ctx.violation(key, c.loc(bc), 'the constructor builds its %s with %s = %s, the estimator asks %s for %s = %s: the estimate is '
                                          'for a different object than the one that is allocated' % (
                                              last_seg(U), name, expr_str(ac)[:60], ge.key, name, expr_str(ae)[:60]))
    if n == 0:
        ctx.anchor_missing('constructor/estimator pairs that build a separately estimated sub-object')
