"""C13 / C08: DET-EFFECT, FRESH-CODEC, SEQ-ORDER, SCHED-FLOW, MT-TERMINATOR."""
from lzlint.framework import rule
from lzlint.core import (Prov, Callee, callee_of, strip_generics, last_seg, expr_walk, expr_str, op_local, op_place,
                         const_val, guards_of, norm_cmp, switch_edges, self_field_of, reachable_without_edge,
                         control_conditions)
from rules.concurrency import worker_fns, coordinator_fns, mt_types, fn_tag
from rules.units import methods_of, self_field_stores, mentions_self_field

NONDET = ('RandomState', 'collections::HashMap', 'collections::HashSet', 'hash_map::', 'hash_set::',
          'time::Instant', 'time::SystemTime', 'thread::current', 'available_parallelism', 'std::env::',
          'process::id', 'rand::', 'getrandom', 'thread::ThreadId', 'fmt::Pointer', 'ptr::addr', 'addr_of',
          'thread_rng', 'DefaultHasher', 'hash::BuildHasher')
UNINIT = ('alloc::alloc::alloc', 'alloc::realloc', 'Vec::set_len', 'MaybeUninit::assume_init', 'MaybeUninit::uninit',
          'mem::uninitialized', 'Box::new_uninit', 'Vec::spare_capacity_mut', 'MaybeUninit::assume_init_ref',
          'MaybeUninit::assume_init_mut', 'mem::zeroed')
WRITER_TYPES = ('LZMAWriter', 'LZMA2Writer', 'XZWriter', 'LZIPWriter', 'LZMA2WriterMT', 'LZIPWriterMT', 'BCJWriter',
                'DeltaWriter')
FEATURE_DETECT = ('__is_feature_detected', 'is_x86_feature_detected', 'is_aarch64_feature_detected', 'cpuid')


def encoder_entry_points(F):
    roots = []
    present = set()
    for f in F.fns:
        adt = last_seg(f.self_adt) if f.self_adt else None
        if adt in WRITER_TYPES and f.kind != 'closure':
            present.add(adt)
            if f.d.get('pub') or (f.impl and f.impl.get('trait')):
                roots.append(f)
    for f, bi, t in worker_fns(F):
        if any(c.is_('LZMA2Writer::new', 'LZIPWriter::new') for _, _, c in f.calls()):
            roots.append(f)
    return roots, present


@rule('DET-EFFECT', ['C13'], floor={'def': 3, 'std-noopt': 2, 'nostd-opt': 2}, thorough_configs=('std-noopt', 'nostd-opt'))
def det_effect(ctx):
    """Nothing reachable from the writers (constructors, write/flush/finish, writer workers) calls a
    nondeterminism source (random hashing, clocks, thread ids, env, pointer-to-integer) or reads
    uninitialised memory; CPU-feature dispatch is allowed only in LZEncoder::normalize."""
    F = ctx.facts
    roots, present = encoder_entry_points(F)
    if not roots:
        if ctx.config.startswith('nostd'):
            return
        return ctx.anchor_missing('writer types')
    reach = F.reachable_fns(roots)
    bad = 0
    nfd = 0
    for p in reach:
        f = F.by_path[p]
        for bi, t, c in f.calls():
            n = c.npath
            if any(x in n for x in NONDET):
                bad += 1
                ctx.violation('%s:nondet:%s' % (f.key, last_seg(n)), f.loc(bi),
                              'writer-reachable code calls nondeterminism source %s: output can differ between runs' % n)
            if any(n.endswith(x) or n == x for x in UNINIT):
                if n.endswith('alloc::alloc::alloc') and n.endswith('alloc_zeroed'):
                    continue
                bad += 1
                ctx.violation('%s:uninit:%s' % (f.key, last_seg(n)), f.loc(bi),
                              'writer-reachable code obtains uninitialised/stale memory via %s: encoder decisions can '
                              'depend on garbage' % n)
            if any(x in n for x in FEATURE_DETECT):
                nfd += 1
                if f.self_adt and last_seg(f.self_adt) == 'LZEncoder' and f.name == 'normalize':
                    ctx.exception('%s:cpu-dispatch' % f.key, f.loc(bi),
                                  'CPU-feature dispatch between normalisation kernels; their agreement is decided by '
                                  'NORM-NONNEG (C14)')
                else:
                    bad += 1
                    ctx.violation('%s:cpu-dispatch:%s' % (f.key, last_seg(n)), f.loc(bi),
                                  'machine-dependent dispatch outside LZEncoder::normalize')
        for bi, b in enumerate(f.blocks):
            if b['cleanup']:
                continue
            for si, s in enumerate(b['stmts']):
                if s['k'] == 'assign' and s['rv']['r'] == 'cast' and 'PointerExposeProvenance' in s['rv']['kind']:
                    bad += 1
                    ctx.violation('%s:ptr-to-int' % f.key, f.loc(bi, si), 'pointer cast to integer in writer-reachable code')
    # zero-initialised tables: every raw allocation of a type that hands out slices is alloc_zeroed
    nalloc = 0
    for f in F.fns:
        for bi, t, c in f.calls():
            if c.npath.endswith(('alloc::alloc_zeroed', 'alloc::alloc')) and c.d.get('unsafe'):
                nalloc += 1
                key = '%s:raw-alloc' % f.key
                if c.npath.endswith('alloc_zeroed'):
                    ctx.ok(key, f.loc(bi), 'match-finder table memory is allocated zeroed')
                else:
                    ctx.violation(key, f.loc(bi), 'raw allocation without zeroing: hash/chain tables start with garbage')
    ctx.ok('encoder-reachable-effects', '-', '%d functions reachable from %d writer entry points (%s): %d nondeterministic/'
           'uninitialised effects, %d cpu-dispatch sites, %d raw allocations' % (len(reach), len(roots), ','.join(sorted(present)),
                                                                               bad, nfd, nalloc))


CODECS = ('LZMA2Writer::new', 'LZIPWriter::new', 'LZMA2Reader::new', 'LZIPReader::new')


@rule('FRESH-CODEC', ['C08', 'C13'], floor=4)
def fresh_codec(ctx):
    """Each worker builds a fresh codec per work unit: the codec constructor is called inside the
    steal loop, after the steal, and is not reused across units."""
    F = ctx.facts
    ws = worker_fns(F)
    if not ws:
        return ctx.anchor_missing('worker functions')
    for f, bi, t in ws:
        key = '%s:codec-per-unit' % fn_tag(f)
        ctors = [(b, c) for b, tt, c in f.calls() if c.is_(*CODECS)]
        if not ctors:
            ctx.violation(key, f.loc(bi), 'worker constructs no codec (fail closed)')
            continue
        loops = [(h, body) for h, body in f.loops().items() if bi in body]
        if not loops:
            ctx.violation(key, f.loc(bi), 'steal() is not in a loop')
            continue
        h, body = min(loops, key=lambda x: len(x[1]))
        bad = [b for b, c in ctors if b not in body or not f.dominates(bi, b)]
        if bad:
            ctx.violation(key, f.loc(bad[0]), 'codec constructed outside the steal loop / before the steal: encoder or '
                          'decoder state leaks from one unit into the next (output depends on which worker got which unit)')
        else:
            ctx.ok(key, f.loc(ctors[0][0]), '%s constructed after steal() inside the loop (per unit)' % ctors[0][1].npath)


def _recv_sites(f):
    return [(bi, t, c) for bi, t, c in f.calls() if c.is_('Receiver::recv', 'Receiver::try_recv', 'Receiver::recv_timeout')]


@rule('SEQ-ORDER', ['C08', 'C13'], floor=16)
def seq_order(ctx):
    """Ordered reassembly: a received (seq, data) is handed out only on the true edge of
    `seq == self.next_to_return`, otherwise inserted into the reorder map under seq; map results are
    removed with key next_to_return; every hand-out is paired with exactly one `+= 1`; dispatch
    pushes (self.next_to_dispatch, unit) and increments once."""
    F = ctx.facts
    cs = coordinator_fns(F)
    if not cs:
        return ctx.anchor_missing('coordinator functions')
    for f, recvs in cs:
        prov = Prov(f)
        # the counter: field compared with seq
        counter = None
        # map.remove(&self.counter)
        rem = [(bi, t, c) for bi, t, c in f.calls() if c.is_('BTreeMap::remove', 'HashMap::remove')]
        ins = [(bi, t, c) for bi, t, c in f.calls() if c.is_('BTreeMap::insert', 'HashMap::insert')]
        for bi, t, c in rem:
            k = prov.operand(t['args'][1])
            sf = self_field_of(k)
            key = '%s:map-remove-key' % f.key
            if sf and len(sf) == 1:
                counter = sf[0]
                ctx.ok(key, f.loc(bi), 'reorder map consulted with key self.%s' % counter)
            else:
                ctx.violation(key, f.loc(bi), 'reorder map removed with key %s, not the next-sequence counter' % expr_str(k)[:50])
        if counter is None:
            ctx.violation('%s:no-counter' % f.key, f.loc(0), 'cannot identify the next-sequence counter (fail closed)')
            continue
        # increments of the counter
        incs = []
        for bi, si, name, rv in self_field_stores(f):
            if name == counter:
                incs.append(bi)
        # every Ok(Some(x)) return: x from a recv tuple -> guarded by seq == counter ; or from map.remove
        nret = 0
        for bi, b in enumerate(f.blocks):
            if b['cleanup']:
                continue
            for si, s in enumerate(b['stmts']):
                if s['k'] != 'assign' or s['rv']['r'] != 'agg' or s['rv'].get('variant_name') != 'Some':
                    continue
                if s['rv'].get('kind') != 'adt' or last_seg(s['rv']['adt']) != 'Option':
                    continue
                val = prov.operand(s['rv']['ops'][0])
                from_recv = [x for x in expr_walk(val) if x[0] == 'call' and x[1].endswith(('Receiver::recv', 'Receiver::try_recv', 'map_err'))]
                from_local = val[0] == 'local' or any(x[0] == 'local' for x in expr_walk(val))
                from_map = [x for x in expr_walk(val) if x[0] == 'call' and x[1].endswith('::remove')]
                if not (from_recv or from_map or from_local):
                    continue
                # only data hand-outs: type Vec<u8>
                opl = op_place(s['rv']['ops'][0])
                if opl is None or 'Vec<u8>' not in opl['ty']:
                    continue
                nret += 1
                key = '%s:handout#%d' % (f.key, nret)
                # exactly one increment edge-dominates... : an inc block dominates this block and lies after the decision
                inc_dom = [i for i in incs if f.dominates(i, bi)]
                if from_map:
                    if inc_dom:
                        ctx.ok(key, f.loc(bi, si), 'map hit: counter incremented once before hand-out')
                    else:
                        ctx.violation(key, f.loc(bi, si), 'result from the reorder map handed out without advancing self.%s' % counter)
                    continue
                # recv path: need guard Eq(seq, counter) true
                guarded = False
                for sblk, pol, cond in guards_of(f, bi, prov):
                    nc = norm_cmp(cond, pol) if cond[0] in ('bin', 'un') else None
                    if nc and nc[0] == 'Eq':
                        sides = (nc[1], nc[2])
                        if any(mentions_self_field(x, counter) for x in sides):
                            guarded = True
                if guarded and inc_dom:
                    ctx.ok(key, f.loc(bi, si), 'received result handed out only when seq == self.%s, counter advanced once' % counter)
                elif not guarded:
                    ctx.violation(key, f.loc(bi, si), 'a received result is handed out without `seq == self.%s`: results are '
                                  'returned in arrival order (schedule dependent)' % counter)
                else:
                    ctx.violation(key, f.loc(bi, si), 'hand-out without advancing self.%s' % counter)
        # inserts: key must be the received seq and be on the != edge
        for n_i, (bi, t, c) in enumerate(ins, 1):
            key = '%s:map-insert#%d' % (f.key, n_i)
            guarded = False
            for sblk, pol, cond in guards_of(f, bi, prov):
                nc = norm_cmp(cond, pol) if cond[0] in ('bin', 'un') else None
                if nc and nc[0] == 'Ne' and any(mentions_self_field(x, counter) for x in (nc[1], nc[2])):
                    guarded = True
            if guarded:
                ctx.ok(key, f.loc(bi), 'out-of-order result stored under its own seq on the `seq != self.%s` edge' % counter)
            else:
                ctx.violation(key, f.loc(bi), 'reorder-map insert is not on the `seq != self.%s` edge' % counter)
        if nret == 0:
            ctx.violation('%s:no-handout' % f.key, f.loc(0), 'no data hand-out found (fail closed)')
    # dispatch side
    nd = 0
    for f in F.fns:
        pushes = [(bi, t, c) for bi, t, c in f.calls() if c.is_('WorkStealingQueue::push')]
        if not pushes or (f.self_adt and last_seg(f.self_adt) in ('WorkStealingQueue',)):
            continue
        prov = Prov(f)
        for bi, t, c in pushes:
            nd += 1
            key = '%s:dispatch-seq' % f.key
            item = prov.operand(t['args'][1])
            dfield = None
            if item[0] == 'agg' and item[2]:
                sf = self_field_of(item[2][0])
                if sf and len(sf) == 1:
                    dfield = sf[0]
            if dfield is None:
                ctx.violation(key, f.loc(bi), 'pushed work item does not carry a self.<sequence> field first: %s' % expr_str(item)[:60])
                continue
            incs = [b2 for b2, si, name, rv in self_field_stores(f) if name == dfield]
            # one increment on every path from the successful push to return
            rets = f.return_blocks()
            after = [i for i in incs if i in f.reach_from(f.succs(bi))]
            # paths from push to return avoiding incs
            avoid = f.reach_from(f.succs(bi), stop=set(incs))
            # Ok-returns reachable without increment (error returns are fine)
            bad = False
            for r in rets:
                if r in avoid:
                    # is there an Err assignment on all such paths? approximate: path must pass a block assigning Err to _0
                    errb = {b for b in avoid for s in f.blocks[b]['stmts'] if s['k'] == 'assign' and s['lhs']['l'] == 0 and s['rv']['r'] == 'agg' and s['rv'].get('variant_name') == 'Err'}
                    errb |= {b for b in avoid if f.blocks[b]['term']['k'] == 'call' and (callee_of(f.blocks[b]['term']) or {}).get('path', '').endswith('from_residual')}
                    avoid2 = f.reach_from(f.succs(bi), stop=set(incs) | errb)
                    if r in avoid2:
                        bad = True
            if len(after) >= 1 and not bad:
                ctx.ok(key, f.loc(bi), 'push carries self.%s; incremented once after the push on every success path' % dfield)
            else:
                ctx.violation(key, f.loc(bi), 'sequence counter self.%s is not advanced after a successful push: two units '
                              'share a sequence number' % dfield)
    if nd == 0:
        ctx.anchor_missing('WorkStealingQueue::push dispatch site')


SCHED_SOURCES = ('WorkStealingQueue::len', 'WorkStealingQueue::is_empty', 'Atomic::load', 'AtomicU32::load',
                 'available_parallelism', 'thread::current')


@rule('SCHED-FLOW', ['C13'], floor=2)
def sched_flow(ctx):
    """Work-unit contents and cut points of the MT writers do not depend (by data flow) on
    scheduling-dependent values: queue length, active-worker count, number of spawned workers,
    arrival order."""
    F = ctx.facts
    n = 0
    for adt in ('LZMA2WriterMT', 'LZIPWriterMT'):
        ws = [f for f in methods_of(F, adt) if f.impl and last_seg(f.impl.get('trait')) == 'Write' and f.name == 'write']
        if not ws:
            ctx.anchor_missing('<%s as Write>::write' % adt)
            continue
        f = ws[0]
        prov = Prov(f)
        # sinks: condition of the branch guarding the dispatch call; the slice bounds handed to the unit
        disp = [(bi, t, c) for bi, t, c in f.calls() if any(g.self_adt == f.self_adt and
                any(c2.is_('WorkStealingQueue::push') for _, _, c2 in g.calls()) for g in F.resolve_callee(c))]
        ext = [(bi, t, c) for bi, t, c in f.calls() if c.is_('Vec::extend_from_slice')]
        exprs = []
        for bi, t, c in disp:
            for s, cond in control_conditions(f, bi, prov):
                exprs.append(('cut-condition', s, cond))
        for bi, t, c in ext:
            exprs.append(('unit-bytes', bi, prov.operand(t['args'][1])))
        if not disp or not ext:
            ctx.violation('%s:no-cut-site' % adt, f.loc(0), 'cannot find the unit cut / fill sites (fail closed)')
            continue
        # scheduling-dependent state of this type: the hand-out counter (key of the reorder map), the map itself,
        # worker bookkeeping
        sched_fields = {'worker_handles', 'active_workers'}
        for g in methods_of(F, adt):
            pg = None
            for b2, t2, c2 in g.calls():
                if c2.is_('BTreeMap::remove', 'BTreeMap::insert', 'HashMap::remove', 'HashMap::insert') and t2['args']:
                    pg = pg or Prov(g)
                    m0 = pg.operand(t2['args'][0], 0, '%d:T' % b2)
                    sf = self_field_of(m0)
                    if sf:
                        sched_fields.add(sf[0])
                    if c2.name == 'remove' and len(t2['args']) > 1:
                        sf2 = self_field_of(pg.operand(t2['args'][1], 0, '%d:T' % b2))
                        if sf2:
                            sched_fields.add(sf2[0])
        for kind, b, e in exprs:
            n += 1
            tainted = None
            seen_locals = set()
            seen_fns = set()
            work = [(f, prov, e)]
            while work:
                cf, cprov, x = work.pop()
                for y in expr_walk(x):
                    if y[0] == 'call' and any(y[1].endswith(sx) for sx in SCHED_SOURCES):
                        tainted = y[1]
                    if y[0] == 'field' and y[2] in sched_fields and self_field_of(y):
                        tainted = 'self.' + y[2]
                    if y[0] == 'local' and (cf.path, y[1]) not in seen_locals:
                        seen_locals.add((cf.path, y[1]))
                        for _, de in cprov.def_exprs(y[1]):
                            work.append((cf, cprov, de))
                    if y[0] == 'call' and len(y) > 3 and y[3] is not None:
                        cd = callee_of(y[3])
                        if cd and cd.get('local'):
                            h = F.by_path.get(cd['path'])
                            if h is not None and h.self_adt == f.self_adt and h.d.get('output') in ('bool', 'usize', 'u64', 'u32') and \
                                    h.path not in seen_fns and not any(c3.is_('WorkStealingQueue::push') for _, _, c3 in h.calls()):
                                # a helper predicate of the same type: look at what it returns
                                seen_fns.add(h.path)
                                ph = Prov(h)
                                for (bi2, si2, k2, node2) in h.whole_defs(0):
                                    if k2 == 'assign':
                                        work.append((h, ph, ph.rvalue(node2['rv'], 0, '%d:%d' % (bi2, si2))))
                                for sb2 in h.reachable:
                                    tt2 = h.blocks[sb2]['term']
                                    if tt2['k'] == 'switch':
                                        work.append((h, ph, ph.operand(tt2['discr'], 0, '%d:T' % sb2)))
            key = '%s:%s@%s' % (adt, kind, 'bb')
            key = '%s:%s#%d' % (adt, kind, n)
            if tainted:
                ctx.violation('%s:%s:depends-on:%s' % (adt, kind, last_seg(tainted)), f.loc(b),
                              '%s depends on the scheduling-dependent value %s: unit boundaries/contents vary with the '
                              'schedule, output is no longer a function of input and options' % (kind, tainted))
            else:
                ctx.ok(key, f.loc(b), '%s derives only from input lengths and configured sizes: %s' % (kind, expr_str(e)[:70]))


@rule('MT-TERMINATOR', ['C08'], floor=2)
def mt_terminator(ctx):
    """LZMA2WriterMT::finish writes the 0x00 end marker only after the drain loop returned None, on
    every success path exactly once; worker options drop the preset dictionary."""
    F = ctx.facts
    ms = methods_of(F, 'LZMA2WriterMT')
    fin = [f for f in ms if f.name == 'finish']
    if not fin:
        return ctx.anchor_missing('LZMA2WriterMT::finish')
    f = fin[0]
    prov = Prov(f)
    marks = [(bi, t) for bi, t, c in f.calls() if c.name == 'write_u8' and const_val(t['args'][1]) == 0]
    drains = [bi for bi, t, c in f.calls() if any(g.name.startswith('get_next') for g in F.resolve_callee(c))]
    if not marks:
        ctx.violation('LZMA2WriterMT::finish:no-end-marker', f.loc(0), 'finish does not write the 0x00 end marker')
    for i, (bi, t) in enumerate(marks, 1):
        key = 'LZMA2WriterMT::finish:end-marker#%d' % i
        # either dominated by a drain call, or on the "nothing dispatched" edge (next_sequence_to_dispatch == 0)
        dom = [d for d in drains if f.dominates(d, bi)]
        empty_edge = False
        for s, pol, cond in guards_of(f, bi, prov):
            nc = norm_cmp(cond, pol) if cond[0] in ('bin', 'un') else None
            if nc and nc[0] == 'Eq' and any(x[0] == 'const' and x[2] == 0 for x in (nc[1], nc[2])) and \
                    any(self_field_of(x) for x in (nc[1], nc[2]) if x[0] in ('field', 'deref')):
                empty_edge = True
        later_drain = [d for d in drains if d in f.reach_from(f.succs(bi))]
        if (dom or empty_edge) and not later_drain:
            ctx.ok(key, f.loc(bi), 'end marker after the drain loop (%s), nothing is written after it' % ('dominated by drain' if dom else 'no unit was dispatched'))
        else:
            ctx.violation(key, f.loc(bi), 'end marker can be written before all units were drained')
    # every success return passes exactly one marker: marker blocks are mutually exclusive and one dominates each Ok return
    # preset dict dropped in worker options
    sp = [g for g in ms if any(c.is_('thread::spawn') for _, _, c in g.calls())]
    for g in sp:
        okp = False
        # locals captured by the worker closure: the clearing store must be into the value that moves into the thread
        captured = set()
        for b in g.blocks:
            for s in b['stmts']:
                if s['k'] == 'assign' and s['rv']['r'] == 'agg' and s['rv'].get('kind') == 'closure':
                    captured |= {op_local(o) for o in s['rv']['ops'] if op_local(o) is not None}
        elsewhere = None
        for bi, b in enumerate(g.blocks):
            for si, s in enumerate(b['stmts']):
                if s['k'] == 'assign' and s['lhs']['p'] and isinstance(s['lhs']['p'][-1], dict) and s['lhs']['p'][-1].get('n') == 'preset_dict':
                    val = Prov(g).rvalue(s['rv'], 0)
                    if val[0] == 'agg' and str(val[1]).endswith('::None'):
                        if s['lhs']['l'] in captured:
                            okp = True
                            ctx.ok('%s:worker-options-no-preset-dict' % g.key, g.loc(bi, si), 'preset_dict = None is stored into the options value the worker closure captures')
                        else:
                            elsewhere = (bi, si)
        if not okp and elsewhere:
            ctx.violation('%s:worker-options-no-preset-dict' % g.key, g.loc(*elsewhere), 'preset_dict is cleared, but not in the options value that moves into the '
                          'worker thread: a worker spawned from a clone taken earlier keeps the preset dictionary, what a unit is encoded against '
                          'depends on the worker that takes it (and those units do not decode)')
        elif not okp:
            ctx.violation('%s:worker-options-no-preset-dict' % g.key, g.loc(0), 'worker options keep the preset dictionary: every '
                          'unit but the first would be encoded against a dictionary the decoder does not have at that point')


@rule('WORKER-DRAIN', ['C04', 'C08'], floor=2)
def worker_drain(ctx):
    """Reader workers drain the unit's decoder itself to end of stream: the trailer / end-of-chunk
    verification of LZIPReader / LZMA2Reader only runs on the read that returns 0, so the decoder must
    be read with read_to_end (or a loop to Ok(0)) directly, never through Take/limit adaptors."""
    F = ctx.facts
    n = 0
    for f, bi, t in worker_fns(F):
        ctors = [(b, c) for b, tt, c in f.calls() if c.is_('LZMA2Reader::new', 'LZIPReader::new')]
        if not ctors:
            continue
        n += 1
        key = '%s:decoder-drained-to-eof' % fn_tag(f)
        drains = [(b, c) for b, tt, c in f.calls() if c.name in ('read_to_end', 'read_exact', 'read', 'read_to_string') and c.trait and last_seg(c.trait) == 'Read']
        adaptors = [(b, c) for b, tt, c in f.calls() if c.is_('Read::take', 'Read::chain', 'Read::bytes', 'io::copy') or 'Take' in (c.self_ty or '')]
        good = [d for d in drains if d[1].name == 'read_to_end' and any(x in (d[1].self_ty or '') for x in ('LZMA2Reader', 'LZIPReader'))
                and 'Take' not in (d[1].self_ty or '')]
        if good and not adaptors:
            ctx.ok(key, f.loc(good[0][0]), 'read_to_end directly on %s' % good[0][1].self_ty[:60])
        else:
            ctx.violation(key, f.loc((adaptors or drains or ctors)[0][0]), 'the unit decoder is not drained with read_to_end on the decoder itself '
                          '(adaptors: %s; drains: %s): its final trailer/CRC/size verification, which runs on the read that returns 0, can '
                          'be skipped and corrupted units are returned as valid' % (
                              [c.npath for _, c in adaptors], [(c.name, (c.self_ty or '')[:40]) for _, c in drains]))
    if n == 0:
        ctx.anchor_missing('reader workers constructing a unit decoder')
