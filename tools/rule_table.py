#!/usr/bin/env python3
"""rule_table.py — print the registered rules as a markdown table (id, properties, floor, configurations, first sentence
of the docstring). Used to regenerate Appendix C of DESIGN.md."""
import importlib
import os
import pkgutil
import re
import sys

HERE = os.path.dirname(os.path.dirname(os.path.abspath(__file__)))
sys.path.insert(0, os.path.join(HERE, 'engine'))
sys.path.insert(0, HERE)
from lzlint import framework  # noqa: E402
import rules  # noqa: E402

for m in pkgutil.iter_modules(rules.__path__):
    importlib.import_module('rules.' + m.name)

print('| rule | properties | floor | configs (+thorough) | what it requires (first sentence of its docstring) |')
print('|---|---|---|---|---|')
for rid in sorted(framework.RULES):
    r = framework.RULES[rid]
    doc = ' '.join(r.doc.split())
    m = re.match(r'(.+?[.:])(\s|$)', doc)
    first = (m.group(1) if m else doc)[:260].replace('|', '\\|')
    fl = r.floor if not isinstance(r.floor, dict) else ', '.join('%s: %s' % kv for kv in sorted(r.floor.items()))
    cfg = ', '.join(r.configs) + ((' (+' + ', '.join(r.thorough_configs) + ')') if r.thorough_configs else '')
    print('| %s | %s | %s | %s | %s |' % (rid, ' '.join(r.props), fl, cfg, first))
print()
print('%d rules.' % len(framework.RULES))
