#!/usr/bin/env python3
"""package_seed.py <prop> <n> <caught_by> <initially:caught|missed> "<needs>" — copies a confirmed seeded change into /verif/seeded/."""
import json, os, shutil, sys
prop, n, caught_by, initially, needs = sys.argv[1:6]
src = '/tmp/seed_out/%s' % prop
dst = '/verif/seeded/%s-%s' % (prop, n)
os.makedirs(dst, exist_ok=True)
shutil.copy(os.path.join(src, 'change%s.diff' % n), os.path.join(dst, 'patch.diff'))
shutil.copy(os.path.join(src, 'demo%s.rs' % n), os.path.join(dst, 'demo.rs'))
verdict = open(os.path.join(src, 'verify%s' % n, 'verdict.txt')).read().strip()
meta = {
    'property': prop,
    'origin': 'independent sub-agent given only the property text and a scratch worktree of /repo (nothing from /verif)',
    'needs_to_manifest': needs,
    'confirmed_by': 'tools/verify_seed.sh in a scratch worktree: demo passes on the pristine tree, builds with the change, demo fails with '
                    'the change, the existing suite keeps exactly its baseline failures (multi_writer_lzip2, multi_writer_lzma2, issue_44_7z)',
    'verdict_line': verdict,
    'static_check': {'caught_by': caught_by.split(','), 'initially': initially,
                     'how_run': 'tools/eval_seed.sh patch.diff (git -C /repo apply; ./check <all properties>; git -C /repo checkout -- .)'},
}
json.dump(meta, open(os.path.join(dst, 'meta.json'), 'w'), indent=1)
print(dst)
