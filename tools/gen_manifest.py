#!/usr/bin/env python3
"""Generate /verif/MANIFEST.json from the table below (single source of truth)."""
import json
import os

HERE = os.path.dirname(os.path.dirname(os.path.abspath(__file__)))

# property -> (technique, claim text, not-decided note, design ref)
CLAIMED = {
}

NOT_APPLICABLE = {
}


def load_tables():
    import importlib.util
    p = os.path.join(HERE, 'tools', 'manifest_table.py')
    spec = importlib.util.spec_from_file_location('manifest_table', p)
    m = importlib.util.module_from_spec(spec)
    spec.loader.exec_module(m)
    return m.CLAIMED, m.NOT_APPLICABLE


def main():
    claimed, na = load_tables()
    checks = []
    for pid in sorted(claimed):
        c = claimed[pid]
        checks.append({
            'property_id': pid,
            'quick_cmd': './check %s --tier quick' % pid,
            'thorough_cmd': './check %s --tier thorough' % pid,
            'evidence_file': '/verif/evidence/%s.json' % pid,
            'replay_cmd_template': './check %s --replay {path}' % pid,
            'engine': 'lzlint',
            'level_claimed': {
                'category': 'other',
                'text': c['claim'],
                'design_ref': c.get('design_ref', 'DESIGN.md sections 4 and 11, ' + pid),
            },
            'level_note': c['note'],
            'technique': c['technique'],
        })
    m = {
        'version': 1,
        'setup_cmd': './setup.sh',
        'hooks': {
            'guard': 'lzma_rust2_verif',
            'enable': 'none needed: the analysis reads private items from MIR; no source hooks exist',
            'baseline_off_cmd': 'cd /repo && cargo test --workspace --no-fail-fast --offline',
            'source_commits': [],
            'add_only': True,
        },
        'engines': [
            {'name': 'mirfacts', 'path': 'engine/mirfacts',
             'serves_properties': sorted(claimed),
             'kind_free_text': 'rustc_private driver (nightly) dumping type-checked MIR, ADTs, impls and evaluated '
                               'constants of /repo as JSON facts, per feature configuration'},
            {'name': 'lzlint', 'path': 'engine/lzlint',
             'serves_properties': sorted(claimed),
             'kind_free_text': 'static analysis library + repository-specific rules (Python, stdlib): CFG/dominators, '
                               'provenance, lock sets, value sets, intervals, call graph/effects; rules in rules/*.py'},
        ],
        'checks': checks,
        'notes': 'Technique family: static analysis only. Every check inspects /repo\'s current tree through rustc MIR '
                 'on every run; nothing is executed. Each claim is at clause level (structural necessary conditions); '
                 'see DESIGN.md for what is and is not decided per property.',
        'not_applicable': [{'property_id': p, 'reason': r} for p, r in sorted(na.items())],
    }
    with open(os.path.join(HERE, 'MANIFEST.json'), 'w') as f:
        json.dump(m, f, indent=1)
    print('MANIFEST.json: %d checks, %d not_applicable' % (len(checks), len(na)))


if __name__ == '__main__':
    main()
