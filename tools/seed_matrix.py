#!/usr/bin/env python3
"""seed_matrix.py [seed-id | path/to/change.diff ...] — for every confirmed seeded change under /verif/seeded, apply patch.diff to a
scratch copy of /repo (mktemp, removed afterwards), run every property's quick check on the copy (analysis only,
nothing is executed) and record which (property, rule, key) report it in meta.json -> static_check.reports.
Prints the matrix. /repo itself is not touched."""
import json
import os
import re
import shutil
import subprocess
import sys
import tempfile
from concurrent.futures import ThreadPoolExecutor

HERE = os.path.dirname(os.path.dirname(os.path.abspath(__file__)))
REPO = os.environ.get('VERIF_REPO', '/repo')
PROPS = ['C01', 'C02', 'C03', 'C04', 'C05', 'C06', 'C07', 'C08', 'C09', 'C10', 'C11', 'C12', 'C13', 'C14', 'C15', 'C16',
         'C17', 'C18', 'C19']
LINE = re.compile(r'^  (\S+) \[([A-Z0-9-]+)/([a-z-]+)\] (.*?): ')


BASELINE = None   # reports on the unpatched copy (subtracted: a finding of the pristine tree is not a detection)


def run_seed(sid):
    d = os.path.join(HERE, 'seeded', sid)
    patch = None if sid == '<baseline>' else (sid if sid.endswith('.diff') else os.path.join(d, 'patch.diff'))
    if patch and not sid.endswith('.diff') and os.path.exists(os.path.join(d, 'patch_rebased.diff')):
        patch = os.path.join(d, 'patch_rebased.diff')   # same change carried over to the repaired tree
    tmp = tempfile.mkdtemp(prefix='lzlint-seed-')
    cache = tempfile.mkdtemp(prefix='lzlint-seedcache-')
    reports = []
    try:
        for name in ('src', 'Cargo.toml', 'Cargo.lock', 'benches'):
            s = os.path.join(REPO, name)
            if os.path.isdir(s):
                shutil.copytree(s, os.path.join(tmp, name))
            elif os.path.exists(s):
                shutil.copy2(s, os.path.join(tmp, name))
        if patch is not None:
            r = subprocess.run(['git', 'apply', '--include=src/*', patch], cwd=tmp,
                               capture_output=True, text=True)
            if r.returncode != 0:
                return sid, None, 'patch does not apply: ' + r.stderr[-300:]
        env = dict(os.environ, VERIF_REPO=tmp, VERIF_CACHE=cache)
        for p in PROPS:
            r = subprocess.run([sys.executable, os.path.join(HERE, 'check'), p, '--no-evidence', '--tier', 'quick'],
                               env=env, capture_output=True, text=True, timeout=1200)
            if 'ANALYSIS-ERROR' in r.stdout:
                return sid, None, 'analysis error: ' + r.stdout[-300:]
            if r.returncode == 0:
                continue
            for l in r.stdout.splitlines():
                mm = LINE.match(l)
                if mm:
                    rep = {'property': p, 'rule': mm.group(2), 'key': mm.group(4)}
                    if rep not in reports:
                        reports.append(rep)
        return sid, reports, ''
    finally:
        shutil.rmtree(tmp, ignore_errors=True)
        shutil.rmtree(cache, ignore_errors=True)


def main():
    ids = sys.argv[1:] or sorted(os.listdir(os.path.join(HERE, 'seeded')))
    ids = [i for i in ids if i.endswith('.diff') or os.path.exists(os.path.join(HERE, 'seeded', i, 'patch.diff'))]
    with ThreadPoolExecutor(max_workers=6) as ex:
        res = list(ex.map(run_seed, ['<baseline>'] + ids))
    base = res[0][1] or []
    if base:
        print('note: %d report(s) on the unpatched tree are subtracted: %s' % (len(base), sorted({r['rule'] for r in base})))
    res = [(sid, ([r for r in reports if r not in base] if reports is not None else None), err) for sid, reports, err in res[1:]]
    for sid, reports, err in res:
        if sid.endswith('.diff'):
            print('%s: %s' % (sid, err or ('MISSED' if not reports else '')))
            for r in reports or []:
                print('    %s %s %s' % (r['property'], r['rule'], r['key']))
            continue
        mp = os.path.join(HERE, 'seeded', sid, 'meta.json')
        meta = json.load(open(mp))
        if reports is None:
            print('%-8s ERROR %s' % (sid, err))
            continue
        sc = meta.setdefault('static_check', {})
        sc['reports'] = reports
        sc['caught'] = bool(reports)
        sc['how_run'] = 'tools/seed_matrix.py (patch applied to a scratch copy of /repo; every quick check run on it)'
        json.dump(meta, open(mp, 'w'), indent=1)
        rules = sorted({'%s(%s)' % (r['rule'], r['property']) for r in reports})
        print('%-8s %-7s %s' % (sid, 'caught' if reports else 'MISSED', ' '.join(rules)))


if __name__ == '__main__':
    main()
