#!/bin/bash
# usage: verify_seed.sh <worktree> <diff> <demo.rs> <outdir>
# Confirms a seeded change: builds, demo FAILS with the change, existing suite keeps its baseline, demo PASSES without.
set -u
WT="$1"; DIFF="$2"; DEMO="$3"; OUT="$4"
mkdir -p "$OUT"
export CARGO_TARGET_DIR="$WT/target" CARGO_NET_OFFLINE=true
cd "$WT" || exit 9
git checkout -q -- . && git clean -qfd -e target
NAME=seeddemo
cp "$DEMO" tests/$NAME.rs
# 1. pristine: demo passes
timeout 1500 cargo test --offline --test $NAME > "$OUT/demo_pristine.log" 2>&1; P=$?
# 2. with change
git apply "$DIFF" || { echo "APPLY-FAILED" > "$OUT/verdict.txt"; exit 1; }
timeout 600 cargo build --offline > "$OUT/build.log" 2>&1; B=$?
timeout 1500 cargo test --offline --test $NAME > "$OUT/demo_changed.log" 2>&1; C=$?
rm -f tests/$NAME.rs
timeout 3000 cargo test --offline --no-fail-fast > "$OUT/suite_changed.log" 2>&1
FAILED=$(grep -E "^test .* FAILED$" "$OUT/suite_changed.log" | sort | tr '\n' ' ')
git checkout -q -- . && git clean -qfd -e target
echo "demo_pristine_exit=$P build_exit=$B demo_changed_exit=$C suite_failed=[$FAILED]" > "$OUT/verdict.txt"
cat "$OUT/verdict.txt"
