#!/usr/bin/env python3
"""Debug helper: print compact MIR of functions whose key/path contains the argument."""
import sys, os, json
HERE = os.path.dirname(os.path.dirname(os.path.abspath(__file__)))
sys.path.insert(0, os.path.join(HERE, 'engine'))
from lzlint.core import *
from lzlint import extract

def opstr(fn, op):
    k = op_const(op)
    if k is not None:
        if k.get('fn'): return 'fn:' + strip_generics(k['fn']['path'])
        v = k.get('v')
        if isinstance(v, list) and k['ty'] == '&str': return repr(bytes(v).decode('utf8', 'replace'))
        if k.get('item'): return 'const %s=%s' % (k['item'].split('::')[-1], v)
        return 'const %s:%s' % (v, k['ty'])
    p = op_place(op)
    if p is None: return str(op)
    return ('move ' if 'm' in op else '') + place_str(fn, p) + ('' if p['p'] else '/_%d' % p['l'])

def rvstr(fn, rv):
    r = rv['r']
    if r == 'use': return opstr(fn, rv['o'])
    if r in ('ref', 'rawptr'): return ('&mut ' if rv['mut'] else '&') + ('raw ' if r == 'rawptr' else '') + place_str(fn, rv['p'])
    if r == 'bin': return '%s(%s, %s)' % (rv['op'], opstr(fn, rv['a']), opstr(fn, rv['b']))
    if r == 'un': return '%s(%s)' % (rv['op'], opstr(fn, rv['o']))
    if r == 'cast': return '%s as %s [%s]' % (opstr(fn, rv['o']), rv['ty'], rv['kind'])
    if r == 'discr': return 'discr(%s)' % place_str(fn, rv['p'])
    if r == 'agg':
        nm = rv.get('kind')
        if nm == 'adt': nm = last_seg(rv['adt']) + '::' + rv['variant_name']
        if nm == 'closure': nm = 'closure ' + rv['closure']
        return '%s{%s}' % (nm, ', '.join(opstr(fn, o) for o in rv['ops']))
    if r == 'repeat': return '[%s; %s]' % (opstr(fn, rv['o']), rv.get('n'))
    return r + ':' + rv.get('dbg', '')

def show(fn):
    print('=' * 100)
    print(fn.key, '|', fn.path, '|', fn.span, '| args', fn.arg_count)
    for i, l in enumerate(fn.locals):
        if l.get('name') or i <= fn.arg_count:
            print('   _%d %s: %s' % (i, l.get('name') or '', l['ty']))
    for bi, b in enumerate(fn.blocks):
        print(' bb%d%s:' % (bi, ' (cleanup)' if b['cleanup'] else ''))
        for s in b['stmts']:
            if s['k'] == 'assign':
                print('     %s = %s    ;L%s' % (place_str(fn, s['lhs']) + ('' if s['lhs']['p'] else '/_%d' % s['lhs']['l']), rvstr(fn, s['rv']), s['line']))
            elif s['k'] == 'setdiscr':
                print('     discr(%s) = %s' % (place_str(fn, s['lhs']), s['variant']))
        t = b['term']; k = t['k']
        if k == 'call':
            c = callee_of(t)
            nm = strip_generics(c['path']) if c else opstr(fn, t['func'])
            extra = ''
            if c and c.get('trait'): extra = ' <%s as %s>' % (c.get('self_ty'), last_seg(c['trait']))
            if c and c.get('resolved'): extra += ' => ' + strip_generics(c['resolved'])
            print('     %s = CALL %s(%s)%s -> bb%s unwind %s   ;L%s' % (place_str(fn, t['dest']) + '/_%d' % t['dest']['l'], nm, ', '.join(opstr(fn, a) for a in t['args']), extra, t['target'], t['unwind'], t['line']))
        elif k == 'switch':
            print('     SWITCH %s [%s, else bb%d]   ;L%s' % (opstr(fn, t['discr']), ', '.join('%s:bb%d' % (a[0], a[1]) for a in t['arms']), t['otherwise'], t['line']))
        elif k == 'assert':
            print('     ASSERT %s==%s %s(%s) -> bb%d' % (opstr(fn, t['cond']), t['expected'], t['msg'], ', '.join(opstr(fn, o) for o in t['msg_ops']), t['target']))
        elif k == 'drop':
            print('     DROP %s -> bb%d unwind %s' % (place_str(fn, t['place']), t['target'], t['unwind']))
        elif k == 'goto':
            print('     GOTO bb%d' % t['target'])
        elif k == 'asm':
            print('     ASM %r ops=%s -> %s' % (t['template'], [(o['dir'], o.get('reg')) for o in t['operands']], t['targets']))
        else:
            print('     ' + k.upper())

if __name__ == '__main__':
    cfg = os.environ.get('CFG', 'def')
    F = Facts(extract.facts_file(cfg), cfg)
    for pat in sys.argv[1:]:
        for f in F.fns:
            if pat in f.key or pat in f.path:
                show(f)
