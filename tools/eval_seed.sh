#!/bin/bash
# usage: eval_seed.sh <diff> [props...]  — applies the diff to /repo, runs the quick checks, reverts.
DIFF="$1"; shift
PROPS="${@:-C01 C02 C03 C04 C05 C06 C07 C08 C09 C10 C12 C13 C14 C15 C16 C17 C18 C19}"
cd /verif
git -C /repo apply "$DIFF" || { echo APPLY-FAILED; exit 1; }
trap 'git -C /repo checkout -q -- .' EXIT
for p in $PROPS; do
  out=$(timeout 600 ./check $p --no-evidence 2>&1)
  code=$?
  if [ $code -ne 0 ]; then
    echo "== $p exit=$code"
    echo "$out" | grep -E "^  src|^  -" | cut -c1-330
  fi
done
echo "== done"
