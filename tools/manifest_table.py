"""Single source of truth for MANIFEST.json (edited as rules are built)."""
CLAIMED = {}

_WIP = 'check under construction in this phase (rules not yet armed); see DESIGN.md for the planned clauses'
NOT_APPLICABLE = {p: _WIP for p in ['C01', 'C02', 'C03', 'C04', 'C05', 'C06', 'C07', 'C08', 'C09', 'C10', 'C12', 'C13',
                                     'C14', 'C15', 'C16', 'C17', 'C18', 'C19']}
NOT_APPLICABLE['C11'] = ('numeric inverse/equality property over byte values; no structural clause beyond what the '
                         'existing BCJ/delta round-trip tests already force (DESIGN.md section 5)')
