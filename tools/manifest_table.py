"""Single source of truth for MANIFEST.json (edited as rules are built)."""

_BASE_NOTE = ('Trusted base: rustc nightly MIR (opt-level 0, dev profile) taken as the program; hand-written model of std '
              'items; generic code analysed once, polymorphically. A pass means every instance of every listed rule holds '
              'on all paths of the current tree; the behavioural property itself is NOT proved. ')


def _c(tech, claim, notdecided):
    return {'technique': tech, 'claim': claim, 'note': _BASE_NOTE + 'Not decided: ' + notdecided}


CLAIMED = {
    'C01': _c('static: encoder/decoder sibling cross-check by path enumeration with partial evaluation; value-set evaluation; finite flag model',
              'CODEC-MIRROR: for every symbol kind (literal / matched literal, match x 3 slot classes, short rep, rep0-3, end '
              'marker, first byte, 3 length classes) encoder and decoder use the same probability tables with the same index roles, '
              'the same polarity on every decision bit, the same state update and the same rep-distance rotation (21 cases). '
              'CTRL-SETS + FLAG-MODEL + READER-STATE: LZMA2 chunk protocol for all 256 control values and all reachable flag states. '
              'WINDOW-ALIGN: decoder window a multiple of 16. WINDOW-PRESET: the window is not shrunk below a preset dictionary. '
              'PARSER-REPS: the optimal parser rotates its copy of the four repeat distances exactly as the coder does, for '
              'rep index 0..3 and for a match (constant-propagating evaluation of both functions, loops over concrete '
              'ranges unrolled). FINDER-LOOKAHEAD: a match finder holds a position back until the look-ahead its insertion '
              'routine compares is there (binary tree: nice_len; hash chains: the hash width). PENDING-RESET-ORDER: the pending '
              'counter is cleared before the replay call and never stored after it. SLOT-TABLE-EXTENT: the distance-slot price '
              'table has get_dist_slot(e) + k entries with e >= dict_size - 1, k >= 1 (monotonicity of get_dist_slot assumed). '
              'FULL-TRACKS-POS: every LZDecoder method that advances the write position compares `full` with the new position '
              'before returning (one checked exception: the wrap-around branch of repeat, dictionary full). MOVE-KEEPS-HISTORY '
              '(see C15). DIST-WINDOW: all seven comparisons of a candidate distance with cyclic_size in HC4/BT4 accept strictly '
              'below it. RESET-CONTEXT-BYTE: LZDecoder::reset clears exactly the cell get_byte(0) reads at position 0.',
              'match finder/window invariants (matches only inside the retained window), look-ahead bookkeeping, the optimal '
              'parser\'s prices and node links, range-coder carry and flush length, 31-bit renormalisation, arithmetic offsets of symbols (len - 2, slot '
              'bases): all depend on run-time values.'),
    'C02': _c('static: typestate path rule (edge dominance) + writer/reader table extraction from MIR switch arms',
              'BLOCK-TYPESTATE: the XZ block / LZIP member closer is only reachable where a unit is provably open; TABLE-INVERSE: '
              'filter ids, check ids, check sizes, filter constructors per variant, delta property and chain order agree '
              'between XZ writer and reader (31 rows); CHECKSUM-FEED-W: every byte handed to the block encoder is fed to the '
              'running check; FINALIZE-RESET: closing a unit resets every per-unit accumulator before the next unit; '
              'COUNTER-TRUTH: byte counters advance by the count the sink reported; FORMULA-TWIN: shared size formulas of '
              'writer and reader are the same expression; FILTER-ARG-PURE: filter constructor arguments depend on the header-visible '
              'property only; STAGING-APPEND: the unit staging buffer is only appended to or taken whole; VALIDATE-PARITY and '
              'FORMAT-OVERRIDES (see C19); FULL-TRACKS-POS (see C01: a stored LZMA2 chunk leaves the dictionary fill level right); '
              'DICT-BYTE-COVERS (the LZIP dictionary byte announces at least the size in use: the fraction is rounded down).',
              'field-order/width agreement of headers and trailers (LAYOUT-SEQ not built), CRC values, index arithmetic, LZIP '
              'dictionary byte rounding.'),
    'C03': _c('static: ordering (reachability) rule + finite flag model',
              'UNPADDED-ORDER: the index unpadded size = counter - snapshot + check and the snapshot precedes every sink write of '
              'the block; FLAG-MODEL: first chunk / every chunk after a pending reset carries the dictionary reset, no '
              'control byte outside the reader-accepted classes; SPEC-CONST: format constants equal the published specs (26 rows); '
              'TABLE-INVERSE; INDEX-SIZE-TWIN: the footer\'s backward size counts exactly the integers the index writer encodes; '
              'WINDOW-ALIGN: every decoder window size is provably a multiple of 16 (bit-level zero analysis '
              'through the rounding helpers), as liblzma\'s is.',
              'acceptance by the reference implementation of everything else (needs the reference); SPEC-CONST compares the '
              'format constants (magics, filter/check ids and sizes, LZMA2 limits, props formula) with the published specs.'),
    'C04': _c('static: error-propagation taint over Err edges (container readers)',
              'ERR-SWALLOW-DEC: from the Err edge of every branch on a crate-error Result in the XZ/LZIP/LZMA readers the payload '
              'reaches the Err return or an error field on every path (exceptions are checked path conditions). GUARD-COMPARE '
              '(every parsed integrity field / stored CRC decides an Err), CHECKSUM-FEED, PER-UNIT-RESET (per-block/member '
              'accumulators re-initialised), WORKER-DRAIN (the MT reader hands out nothing after an error was stored), '
              'READER-STATE, FINALIZE-RESET, SCAN-TO-ZERO (a backward member scan may only succeed at position 0); GUARD-COMPARE also '
              'requires comparisons with measured quantities to be two-sided; READ-ERR-LATCH (XZReader is not run again after an '
              'error: a retry cannot resume behind a failed block check); UNIT-EXACT (an LZIPReaderMT worker checks that the member it '
              'decoded fills its unit: nothing inside a unit is trailing data), TAIL-PREFIX (the bytes behind the last LZIP member are '
              'compared with a prefix of the magic as long as the bytes that are there).',
              'that CRC/SHA detect a given corruption, LZMA-level structural errors inside the range-coded payload.'),
    'C05': _c('static: error-propagation taint + I/O count classification at every Read::read / Write::write site',
              'ERR-SWALLOW (whole crate) and IO-COUNT (W1 dropped write count, W2 transforming writer returning a partial count, '
              'R1 read count compared for equality with a required length), COUNTER-TRUTH (counters advance by the reported '
              'count), EOF-MEANS-END (a 0-byte read is a clean end only where the format allows one), INTERRUPT-LATCH / '
              'INTERRUPT-RETRY (Interrupted is never latched, never returned after bytes were handed out, and is retried in '
              'place where the decoder reads into its own buffer), FILL-LOOP (a count compared with a required length comes from '
              'a fill loop), SINK-ERR-STICKY (see C09), ERR-SLOT (the stream range decoder parks a source error in a slot; the owner '
              'empties the slot after every decoder run, before decoded bytes are released, and Some(error) becomes Err), '
              'OWED-OUTPUT (BCJ2Reader returns Ok after an exhausted input only under uncompressed_size == 0 or with a non-zero '
              'count; path conditions), MAGIC-PREFIX (an LZIP member probe says "trailing data" only after comparing the bytes it '
              'got with the magic), FLUSH-FORWARD (a writer that forwards flush to its sink does so on every Ok path), '
              'READ-ERR-LATCH (see C06; covers XZReader, BCJReader, BCJ2Reader), ERR-STATE-ENTRY (see C09), WRITE-ERR-LATCH (see C15).',
              'that truncation is *detected* by the end-of-stream consistency checks (value dependent).'),
    'C06': _c('static: interval analysis with guard refinement across calls/fields; call-graph SCCs',
              'ALLOC-TAINT (every decoder-reachable allocation size bounded), INT-OVF (overflow asserts in loop-free scalar '
              'functions unreachable), INT-OVF-INPUT (arithmetic directly on just-read header integers), NO-RECURSION (no '
              'self-recursion driven by input), READER-STATE (a chunk that needs props/dict reset and lacks it is an Err), BOUNDS '
              '(all 112 constant-length index checks in decoder-reachable code proven in range: intervals with loop-exit edge '
              'bounds, range iterators, and an inductive invariant for the coder state), POS-WRAP (32-bit position arithmetic of '
              'the BCJ filters wraps), READ-ERR-LATCH (a reader owning LZ decoder state, or swapping its own source, is never run '
              'again after an Err: LZMAReader, LZMA2Reader, LZIPReader, XZReader), WINDOW-ALIGN (window never empty), RANGE-ORDER '
              '(all 20 two-sided slice ranges on the decoding side are ordered by construction or by a guard), ERR-SLOT (see C05: '
              'a failing source can no longer feed the LZ decoder zeros without end), SCAN-PROGRESS (both backward scans of '
              'LZIPReaderMT move their position down by >= 1 in every round), INDEX-GUARD (all 13 element accesses with an '
              'input-derived index into an input-sized vector in the reader files are dominated by a comparison with that '
              'vector\'s length, index not reassigned in between), OUTPUT-BUFFERED (no worker drains a decoder into a Vec: '
              'reports the two MT reader workers as known findings), COUNTER-WIDTH (counters advanced once per input byte in '
              'reader loops are 64 bits wide or bounded by a constant guard), FRESH-LIMIT (see C07), ASM-DISPATCH (the bytes left '
              'are computed with a saturating subtraction).',
              'index bounds inside the LZ window and BCJ2 state machine, loop termination, checked BCJ address arithmetic on data '
              'bytes (inside loops).'),
    'C07': _c('static: dominance rule on impl Read::read + I/O count classification',
              'ZERO-READ (empty-buffer guard dominates an inner read whose zero count mutates the reader) and IO-COUNT W2 '
              '(transforming writers never report a partial count); PENDING-PAIR (every absolute move of the LZ encoder read limit '
              're-processes the pending bytes on all paths) and LOOKAHEAD-TWIN (one look-ahead reserve: limit formula, its guard, '
              'the window-move trigger and the buffer-size formula agree); FINDER-LOOKAHEAD (see C01: what a flush in the middle '
              'of the data may let into the match finder); PENDING-RESET-ORDER (see C01); FRESH-LIMIT (the decode limit of '
              'LZMAReader is recomputed in every round of its loop); MASK-AGEING-TWIN (see C11).',
              'numeric relations of the LZ window beyond the two structural rules. TAIL-FORWARD (a transforming writer never forwards '
              'the tail its transform did not process) reports the BCJWriter defect as a known finding.'),
    'C08': _c('static: ordering/guard rules on the four MT pipelines + control-byte value sets',
              'SEQ-ORDER (hand-out only on seq == next, reorder map keyed by seq, one increment per hand-out/dispatch), CTRL-SETS '
              '(MT cutter cuts exactly at the ST reader\'s dictionary-reset values, same classes and header lengths), '
              'FRESH-CODEC, MT-TERMINATOR, ERR-SWALLOW-MT, WORKER-DRAIN, STAGING-APPEND, TRAILING-SKIP (the LZIP member scan '
              'probes for the end of the last member, so trailing data is skipped as the single-threaded reader skips it), '
              'ERRCHK-BEFORE-HANDOUT (see C09), UNIT-EXACT (see C04).',
              'byte equality of outputs (needs C01), behaviour under interleavings beyond the ordering discipline.'),
    'C09': _c('static: all-paths rule on worker CFGs + dominance of error checks',
              'WORKER-NOTIFY (every path from a successful steal to an exit posts to the result channel), ERRCHK-BEFORE-BLOCK '
              '(error store checked in the loop before every blocking recv), ERR-STICKY (a stored error is never cleared and is '
              'returned by every later call), EOF-MEANS-END (source EOF without the terminator is an error), ERR-SWALLOW-MT, '
              'SINK-ERR-STICKY (a failed sink write of a dequeued unit moves the writer to its error state), PANIC-WAKE (a worker '
              'that unwinds while holding a unit posts to the result channel through a drop guard), WRITE-LOOP-PROGRESS (a write-loop '
              'iteration that copies nothing still reaches the dispatch call; the room left in the unit is measured inside the loop), '
              'SCAN-PROGRESS (see C06), ERR-STATE-ENTRY (write, flush and finish of the MT writers test the error state before '
              'any exit that can carry Ok), ERRCHK-BEFORE-HANDOUT (a reader coordinator looks at the error store before its '
              'reorder buffer in every round and hands nothing out in the error state), ERR-RETURN-STICKY (every Err a reader '
              'coordinator returns leaves the error state behind).',
              'progress of back-pressure loops, value relations between sequence counters.'),
    'C10': _c('static: lock-set analysis, condvar predicate discipline, call-graph effects',
              'CV-LOCK, CV-NOTIFY (every predicate write is followed by a notify on all paths), LOCK-SCOPE, DROP-CLOSE, SPAWN-BOUND '
              'for the work queue and the four MT types; PANIC-WAKE; ERR-SLOT (a worker decoding a member whose source ran dry '
              'gets an error instead of zeros without end).',
              'termination of the codec work a worker does on one unit; std primitives behave as modelled.'),
    'C11': _c('static: encoder/decoder twin comparison on MIR provenance expressions; who-builds-what table; 32-bit wrap rule',
              'FILTER-INVERSE: in every BCJ converter the encoder and decoder definitions of a value are mirror images '
              '(wrapping_add vs wrapping_sub over identical operands) wherever both directions define it; the delta coder reads and '
              'writes its history at the same indices in both directions, subtracts resp. adds, and keeps the unfiltered byte; every '
              'BCJWriter/BCJReader constructor pair uses the same BCJFilter constructor with is_encoder = true / false. POS-WRAP: '
              'position arithmetic is modulo 2^32. TAIL-FORWARD: a filter writer never forwards bytes its filter has not '
              'processed (reports the BCJWriter defect as a known finding). SCAN-COVERAGE: every BCJ routine returns early for '
              'len < W and enters its scan loop for len = W (the last instruction slot of a buffer is examined). CARRY-SOURCE: '
              'BCJ2Reader copies the carried bytes of a split address from the position decode() left, never from the reset one. '
              'MASK-AGEING-TWIN: the two sites of the x86 filter that age prev_mask (inside the loop, at the end of the call) '
              'use one condition on the distance.',
              'the numeric identity decode(encode(x)) = x itself, equality with the reference implementation\'s output, the BCJ2 '
              'decoder (no encoder twin in the crate), the RISC-V and ARM64 instruction repacking where the two directions are '
              'structurally different (reported as not decided), buffer-boundary handling inside BCJReader.'),
    'C12': _c('static: contradiction rule by value-set evaluation + control dependence',
              'BYTE-CONTRA (no success exit dead by contradictory byte tests), MULTISTREAM-GUARD, STREAM-RESET (padding % 4 on both '
              'the next-stream and the end-of-input exit; everything the first-stream initialiser stores is stored again per '
              'stream), PER-UNIT-RESET, FILL-LOOP, SCAN-TO-ZERO, MAGIC-PREFIX, TRAILING-SKIP.',
              'alignment accounting across streams, arithmetic of the MT backward scan beyond its exit discipline.'),
    'C13': _c('static: call-graph effect analysis + data-flow from scheduling sources',
              'DET-EFFECT (no nondeterminism source / uninitialised memory reachable from the writers), SCHED-FLOW (no value '
              'derived from worker timing, queue lengths or progress counters reaches a cut decision or an emitted byte; helper '
              'predicates inlined), FRESH-CODEC, SEQ-ORDER, PENDING-PAIR, LOOKAHEAD-TWIN, LOOKAHEAD-HORIZON (the look-ahead the '
              'window guarantees covers the optimal parser\'s horizon = length of its opts array, and one maximal match in fast mode).',
              'independence from the write partition inside the LZ window (numeric relation between positions).'),
    'C14': _c('static: symbolic sign analysis of the normalisation kernels; slice-shape twin rule; control-dependence rule on the assembly dispatch',
              'NORM-NONNEG: scalar, AVX2 and SSE4.1 position-normalisation kernels all store max(p,o)-o (>= 0, 0 when p <= o). '
              'TWIN-SLICES: in every configuration the match-extension helper compares two slices of one common length whose '
              'logical part is limit - current_len. ASM-DISPATCH: the clamping assembly path of decode_direct_bits is only '
              'entered when the bytes it can consume are left (a comparison involving the bit count whose bound, evaluated for every '
              'count in 1..=32, covers the worst-case consumption 1 + ceil((count - 1) / 8)), so it never reaches the point '
              'where it differs from the portable loop. ALIGNED-LEN-USE: the rounded-up length of the over-aligned tables is only '
              'compared, never used as a value.',
              'instruction-level equivalence of the assembly and the word-at-a-time comparators with their portable twins, '
              'std/no_std error kinds (semantic equivalence of numeric code needs execution or a solver).'),
    'C15': _c('static: who-may-be-unsafe confinement + per-site bounds obligations on provenance',
              'UNSAFE-CONFINE (unsafe only in four modules; zero in no_std without optimization), UNSAFE-GUARD (11 sites), '
              'GUARD-FIELD-WRITERS, ASM-CLAMP, MOVE-KEEPS-HISTORY (the window move offset is read_pos + c - keep_size_before '
              'with c <= 1, rounded DOWN by the alignment mask: the history the unchecked readers reach into is kept), '
              'WRITE-ERR-LATCH (a writer whose range encoder writes straight into the sink is not run again after a sink error: '
              'the interrupted encoder would reach the unchecked match extension with a start in front of the window), '
              'MODE-RESERVE-FLOOR (LZMAEncoder::new hands the LZ encoder max(caller\'s extra size, the mode\'s EXTRA_SIZE_BEFORE)).',
              'the non-local precondition of extend_match (read_pos + current_len >= distance) which rests on match-finder/window '
              'invariants.'),
    'C16': _c('static: who-reads-how classification of every source access in the single-stream decoders',
              'EXACT-READ (only read_exact of fixed/sliced lengths, 1-byte reads or pass-through), MULTISTREAM-GUARD, END-NO-PULL '
              '(typestate: after the end flag is set no call that can pull from the source is reachable in that call), END-FLAG-SET '
              '(after index and footer every Ok return that is not "further stream found" sets the end flag), NO-READAHEAD (no '
              'BufReader anywhere between a reader of the crate and the caller\'s source), NORMALIZE-AFTER-MARKER (the end-marker '
              'path of LZMAReader performs the range-coder normalisation that decode() skips there).',
              'whether the range decoder\'s lazy normalisation pulls exactly as many bytes as the encoder flushed.'),
    'C17': _c('static: unit inference {bytes, KiB} + dominance + interval analysis',
              'KIB-UNITS over the estimator call tree, LIMIT-BEFORE-ALLOC (limit test dominates every allocating call and is computed '
              'from the very parameters the reader is built with), INT-OVF-EST, ESTIMATE-TWIN (per estimated type: bytes allocated '
              'by the constructor, as a linear form over its size parameters with element sizes from the layout, are dominated '
              'term by term by the estimator formula, accumulator estimators included; sub-objects have their estimator called), '
              'EST-SELECTOR (match-finder / mode selectors are passed through the estimator chain, never replaced by a constant), '
              'SINGLE-ENCODER (a writer never holds two encoders at once; reports LZMA2Writer::start_independent_chunk as a known finding).',
              'allocations made after construction (growth of vectors at run time), allocator overhead, the "within a constant '
              'factor" upper side.'),
    'C18': _c('static: provenance of the slice handed to the current unit; dominance of size checks',
              'UNIT-CLAMP (4 writers), EXPECTED-SIZE (LZMAWriter declared size), OPT-CLAMP (unit-size options raised to the '
              'dictionary size, never lowered below it).',
              'exact unit counts for a given input.'),
    'C19': _c('static: interval analysis with public option fields ranging over their whole type',
              'OPT-TAINT: every arithmetic assert fed by a public option value in the writer-constructor call tree is proven '
              'unreachable or reported (one finding per function); the properties byte fits u8. OPT-VALIDATE: no writer '
              'constructor / header encoder lost a validation exit (census); OPT-ALLOC: no allocation in the constructor call tree '
              'is sized by an unclamped 64-bit option; VALIDATE-PARITY: the XZ writer rejects what its reader rejects (BCJ offset '
              'alignment table equal on both sides, delta distance 1..=256); FORMAT-OVERRIDES: the LZIP writer overwrites lc/lp/pb '
              'and the preset dictionary with the format constants; OPT-CLAMP; FORMULA-TWIN.',
              'decodability of what in-range options produce (C01/C02); run-time state arithmetic inside encode loops.'),
}

NOT_APPLICABLE = {
}


# ---- round 12 additions (appended to the claim texts above)
_R12 = {
    'C01': ' SIZE-FIELD-TWIN: the LZMA2 chunk size fields (size - 1, big-endian, five extra bits of the uncompressed size in the control '
           'byte) are laid out the same way by the writer\'s two header emitters, the reader\'s header decoder and the MT reader\'s cutter '
           '(layout read off the writer). RC-NORM-TWIN: range encoder (2 sites), range decoder and the x86-64 assembly renormalise under the '
           'same predicate of `range` (compared on all critical points) and shift by the same amount. EMIT-LOOP-FLAGS: a reset flag that '
           'chooses a chunk header inside an emitter loop is cleared inside that loop. DIST-BELOW-FULL, PENDING-PAIR-DEC (see C06, C07).',
    'C03': ' SIZE-FIELD-TWIN, EMIT-LOOP-FLAGS (see C01). UNIT-RECORD, VARINT-TWIN (see C02). ALONE-DICT-FORM: the dictionary size LZMAWriter puts '
           'into the .lzma header is not the raw option but a size the reference decoder accepts (1 known finding: it is the raw option today).',
    'C02': ' UNIT-RECORD: per-unit counters of XZWriter / LZIPWriter are advanced inside the loop that can close the unit, and a size the '
           'closer puts into the unit record comes from a counter that is reset per unit. VARINT-TWIN: the slice-based and the reader-based '
           'multibyte-integer decoders reject under the same data-dependent conditions.',
    'C06': ' DIST-BELOW-FULL: LZDecoder::repeat reaches `pos - dist - 1` only under a guard that implies dist < full.',
    'C07': ' PENDING-PAIR-DEC: the LZ decoder stores the distance of a pending match on every path on which it stores its remaining length. '
           'COPYOUT-BEFORE-OK: every Ok result of BCJReader::read is built behind the step that copies buffered bytes to the caller (or for an empty buffer only).',
    'C08': ' SIZE-FIELD-TWIN (see C01): the MT cutter takes the payload length from the header offsets at which the writer puts compressed - 1.',
    'C09': ' WAIT-TARGET: the blocking drain loop of an MT writer\'s flush continues only while written < (a value of) the dispatch counter.',
    'C14': ' RC-NORM-TWIN (see C01): the assembly direct-bit decoder skips the normalisation with jae/jnb like the portable loop. '
           'GUARD-FIELD-WRITERS (see C15), exactness clause: the u16-read limit is the allocated length minus the width read, not less, so the clamp '
           'cannot bite at a position where the checked twin still compares the right pair.',
    'C16': ' NORMALIZE-AT-END: LZMADecoder::decode builds every Ok result behind a RangeDecoder::normalize call. END-FLAG-GATES: in '
           'LZMAReader, LZMA2Reader and XZReader every source pull reachable from `read` is behind the false edge of a test of the end flag.',
    'C17': ' SINGLE-DECODER: a reader method that rebuilds its LZMADecoder drops the previous one before the constructor call. '
           'EST-ARG-TWIN: constructor and estimator of a type hand the same argument to the constructor / estimator of a separately estimated sub-object.',
}
for _p, _t in _R12.items():
    CLAIMED[_p]['claim'] += _t
