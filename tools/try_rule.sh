#!/bin/bash
# usage: try_rule.sh <diff> <prop> <RULE[,RULE]> — applies the diff to a scratch copy of /repo (removed afterwards) and runs the named rules on it
DIFF="$1"; PROP="$2"; RULES="$3"
T=$(mktemp -d /tmp/lzlint-try-XXXX); C=$(mktemp -d /tmp/lzlint-tryc-XXXX)
trap 'rm -rf "$T" "$C"' EXIT
cp -r /repo/src /repo/Cargo.toml /repo/Cargo.lock "$T"/; [ -d /repo/benches ] && cp -r /repo/benches "$T"/
(cd "$T" && git apply --include='src/*' "$DIFF") || { echo APPLY-FAILED; exit 2; }
VERIF_REPO="$T" VERIF_CACHE="$C" python3 /verif/check "$PROP" --rules "$RULES" --no-evidence --dump --tier quick 2>&1 | grep -E "violation|ANALYSIS|rule " | cut -c1-330
