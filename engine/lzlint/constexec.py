"""Constant-propagating abstract execution of MIR (A10): integers are tracked concretely, everything else is
an opaque symbol named after the memory cell it was first read from. Loops over integer ranges with
concrete bounds are followed iteration by iteration; a branch on a non-concrete value stops the
evaluation (result: undecided). Used to read off small permutations / table updates (which cell receives
which old cell) for a fixed value of one selector variable. Nothing of the crate is run: the evaluator
interprets the MIR facts with hand-written models of a few core items (integer ranges, slice indexing,
copy_from_slice, swap, `?`)."""
import re

from .core import callee_of, strip_generics, last_seg


class Undecided(Exception):
    pass


def sym(name):
    return ('sym', name)


def is_int(v):
    return isinstance(v, int) and not isinstance(v, bool)


class ConstExec:
    def __init__(self, fn, max_steps=4000):
        self.fn = fn
        self.mem = {}
        self.steps = 0
        self.max_steps = max_steps
        self.unknown_calls = []
        self.trace = []
        self.fork = False      # explore both sides of branches on symbolic values
        self.forks = [0]
        self.finals = []       # forked executions that ran to completion (besides self)

    # ---- memory
    def write(self, key, val):
        for k in [k for k in self.mem if k == key or k.startswith(key + '.') or k.startswith(key + '[')]:
            del self.mem[k]
        if isinstance(val, tuple) and val and val[0] == 'tuple':
            for i, v in enumerate(val[1]):
                self.write('%s.%d' % (key, i), v)
        elif isinstance(val, tuple) and val and val[0] == 'arr':
            for i, v in enumerate(val[1]):
                self.write('%s[%d]' % (key, i), v)
        else:
            self.mem[key] = val

    def read(self, key, ty=None):
        if key in self.mem:
            return self.mem[key]
        # a field of an Option / ControlFlow payload held as a leaf
        m = re.match(r'^(.*)\.0$', key)
        if m and m.group(1) in self.mem:
            v = self.mem[m.group(1)]
            if isinstance(v, tuple) and v[0] in ('opt', 'cf'):
                return v[1]
        subs = [k for k in self.mem if k.startswith(key + '.') or k.startswith(key + '[')]
        am = re.match(r'^\[(.*); (\d+)\]$', ty or '')
        if am:
            return ('arr', [self.read('%s[%d]' % (key, i)) for i in range(int(am.group(2)))])
        if subs:
            if all(k.startswith(key + '.') for k in subs):
                idx = sorted({int(k[len(key) + 1:].split('.')[0].split('[')[0]) for k in subs if k[len(key) + 1:].split('.')[0].split('[')[0].isdigit()})
                if idx:
                    return ('tuple', [self.read('%s.%d' % (key, i)) for i in range(max(idx) + 1)])
        return sym('PRE:' + key)

    # ---- places and operands
    def key_of(self, p):
        key = '_%d' % p['l']
        for e in p['p']:
            if e == '*':
                v = self.read(key)
                if isinstance(v, tuple) and v[0] == 'ref':
                    key = v[1]
                elif isinstance(v, tuple) and v[0] == 'slice':
                    key = v[1]
                else:
                    key = '*' + key
            elif isinstance(e, dict):
                if 'f' in e:
                    key = '%s.%s' % (key, e['n'] if e.get('n') is not None else e['f'])
                elif 'i' in e:
                    iv = self.read('_%d' % e['i'])
                    key = '%s[%s]' % (key, iv if is_int(iv) else (iv[1] if isinstance(iv, tuple) and iv[0] == 'sym' else '?'))
                elif 'ci' in e:
                    key = '%s[%d]' % (key, e['ci'])
                elif 'dc' in e:
                    pass
                else:
                    key = key + '<?>'
            else:
                key = key + '<?>'
        return key

    def operand(self, op):
        if op is None:
            return sym('none')
        k = op.get('k')
        if k is not None:
            v = k.get('v')
            if isinstance(v, bool):
                return int(v)
            if isinstance(v, int):
                return v
            if isinstance(v, str):
                try:
                    return int(v)
                except ValueError:
                    return sym('const')
            return sym('const')
        p = op.get('c') or op.get('m')
        return self.read(self.key_of(p), p.get('ty'))

    # ---- rvalues
    def rvalue(self, rv):
        r = rv['r']
        if r == 'use':
            return self.operand(rv['o'])
        if r in ('ref', 'rawptr'):
            pl = rv['p']
            if pl['p'] == ['*']:
                v = self.read('_%d' % pl['l'])
                if isinstance(v, tuple) and v[0] in ('ref', 'slice'):
                    return v      # reborrow keeps slice bounds
            return ('ref', self.key_of(pl))
        if r == 'cast':
            return self.operand(rv['o'])
        if r == 'bin':
            a, b = self.operand(rv['a']), self.operand(rv['b'])
            op = rv['op']
            base = op.replace('WithOverflow', '').replace('Unchecked', '')
            res = None
            if is_int(a) and is_int(b):
                try:
                    res = {'Add': lambda: a + b, 'Sub': lambda: a - b, 'Mul': lambda: a * b,
                           'Div': lambda: a // b if b else None, 'Rem': lambda: a % b if b else None,
                           'BitAnd': lambda: a & b, 'BitOr': lambda: a | b, 'BitXor': lambda: a ^ b,
                           'Shl': lambda: a << b, 'Shr': lambda: a >> b,
                           'Lt': lambda: int(a < b), 'Le': lambda: int(a <= b), 'Gt': lambda: int(a > b),
                           'Ge': lambda: int(a >= b), 'Eq': lambda: int(a == b), 'Ne': lambda: int(a != b)}[base]()
                except KeyError:
                    res = None
            if res is None:
                res = sym('%s(%s,%s)' % (base, a if is_int(a) else a[1] if isinstance(a, tuple) and len(a) > 1 and isinstance(a[1], str) else '?',
                                         b if is_int(b) else b[1] if isinstance(b, tuple) and len(b) > 1 and isinstance(b[1], str) else '?'))
            if op.endswith('WithOverflow'):
                return ('tuple', [res, 0])
            return res
        if r == 'un':
            v = self.operand(rv['o'])
            if is_int(v) and rv['op'] == 'Not':
                return int(not v) if v in (0, 1) else ~v
            if is_int(v) and rv['op'] == 'Neg':
                return -v
            return sym('un')
        if r == 'discr':
            v = self.read(self.key_of(rv['p']))
            if isinstance(v, tuple) and v[0] == 'opt':
                return 0 if v[1] is None else 1
            if isinstance(v, tuple) and v[0] == 'cf':
                return 0
            return sym('discr')
        if r == 'agg':
            ops = [self.operand(o) for o in rv['ops']]
            kind = rv.get('kind')
            if kind == 'adt':
                nm = last_seg(rv['adt'])
                if nm == 'Range' and len(ops) == 2:
                    return ('range', ops[0], ops[1], False, False)
                if nm == 'RangeFrom' and ops:
                    return ('rangefrom', ops[0])
                if nm == 'RangeTo' and ops:
                    return ('rangeto', ops[0])
                if nm == 'Option':
                    return ('opt', ops[0] if ops else None)
                return sym('adt:' + nm)
            if kind == 'tuple':
                return ('tuple', ops)
            if kind == 'array':
                return ('arr', ops)
            return sym('agg')
        if r == 'repeat':
            n = rv.get('n')
            v = self.operand(rv['o'])
            return ('arr', [v] * int(n)) if isinstance(n, int) or (isinstance(n, str) and n.isdigit()) else sym('repeat')
        return sym(r)

    # ---- calls
    def call(self, t, tracked):
        c = callee_of(t)
        name = strip_generics(c['path']) if c else '?'
        ln = name.split('::')[-1]
        args = [self.operand(a) for a in t['args']]

        def refkey(v):
            if isinstance(v, tuple) and v[0] in ('ref', 'slice'):
                return v[1]
            return None
        if name.endswith('RangeInclusive::new') and len(args) == 2:
            return ('range', args[0], args[1], True, False)
        if ln == 'into_iter' and args:
            return args[0]
        if ln in ('branch',) and args:   # Try::branch: follow the success path
            return ('cf', args[0])
        if ln == 'next' and args and refkey(args[0]):
            k = refkey(args[0])
            r = self.read(k)
            if not (isinstance(r, tuple) and r[0] == 'range' and is_int(r[1]) and is_int(r[2])):
                raise Undecided('iterator %s is not an integer range with concrete bounds' % k)
            _, cur, end, incl, done = r
            if incl:
                if done or cur > end:
                    return ('opt', None)
                self.write(k, ('range', cur + 1 if cur < end else cur, end, True, cur >= end))
                return ('opt', cur)
            if cur < end:
                self.write(k, ('range', cur + 1, end, False, False))
                return ('opt', cur)
            return ('opt', None)
        if ln in ('index', 'index_mut', 'get_unchecked', 'get_unchecked_mut') and len(args) == 2 and refkey(args[0]):
            k = refkey(args[0])
            off = args[0][2] if args[0][0] == 'slice' else 0
            i = args[1]
            if is_int(i):
                return ('ref', '%s[%d]' % (k, i + (off or 0)))
            if isinstance(i, tuple) and i[0] == 'sym':
                return ('ref', '%s[%s]' % (k, i[1]))
            if isinstance(i, tuple) and i[0] == 'range' and is_int(i[1]) and is_int(i[2]):
                return ('slice', k, i[1] + off, i[2] + off + (1 if i[3] else 0))
            if isinstance(i, tuple) and i[0] == 'rangefrom' and is_int(i[1]):
                return ('slice', k, i[1] + off, args[0][3] if args[0][0] == 'slice' else None)
            if isinstance(i, tuple) and i[0] == 'rangeto' and is_int(i[1]):
                return ('slice', k, off, i[1] + off)
            raise Undecided('indexing %s with a non-concrete range' % k)
        if ln == 'copy_from_slice' and len(args) == 2 and args[0][0] in ('slice', 'ref') and args[1][0] in ('slice', 'ref'):
            d = args[0] if args[0][0] == 'slice' else ('slice', args[0][1], 0, None)
            s = args[1] if args[1][0] == 'slice' else ('slice', args[1][1], 0, None)
            n = (d[3] - d[2]) if d[3] is not None else ((s[3] - s[2]) if s[3] is not None else None)
            if n is None:
                raise Undecided('copy_from_slice of unknown length')
            vals = [self.read('%s[%d]' % (s[1], s[2] + j)) for j in range(n)]
            for j, v in enumerate(vals):
                self.write('%s[%d]' % (d[1], d[2] + j), v)
            return sym('unit')
        if ln == 'swap' and len(args) == 3 and refkey(args[0]) and is_int(args[1]) and is_int(args[2]):
            k = refkey(args[0])
            off = args[0][2] if args[0][0] == 'slice' else 0
            a, b = '%s[%d]' % (k, args[1] + off), '%s[%d]' % (k, args[2] + off)
            va, vb = self.read(a), self.read(b)
            self.write(a, vb)
            self.write(b, va)
            return sym('unit')
        if ln in ('clone', 'deref', 'deref_mut', 'as_mut', 'as_ref', 'borrow', 'borrow_mut', 'from', 'into') and args:
            return args[0]
        # unknown call: harmless unless it is handed a reference into tracked memory
        for a in args:
            k = refkey(a)
            if k is not None and tracked(k):
                raise Undecided('call to %s receives a reference to %s (effect not modelled)' % (name, k))
        self.unknown_calls.append(name)
        return sym('call:' + ln)

    # ---- run
    def run(self, start, stop=(), tracked=lambda k: False):
        b = start
        while True:
            self.steps += 1
            if self.steps > self.max_steps:
                raise Undecided('step limit')
            if b in stop:
                return b
            blk = self.fn.blocks[b]
            for s in blk['stmts']:
                if s['k'] == 'assign':
                    self.write(self.key_of(s['lhs']), self.rvalue(s['rv']))
            t = blk['term']
            k = t['k']
            if k == 'goto':
                b = t['target']
            elif k == 'assert':
                b = t['target']
            elif k == 'drop':
                b = t['target']
            elif k == 'return':
                return None
            elif k == 'call':
                v = self.call(t, tracked)
                self.write(self.key_of(t['dest']), v)
                if t.get('target') is None:
                    return None
                b = t['target']
            elif k == 'switch':
                v = self.operand(t['discr'])
                if not is_int(v):
                    if not self.fork:
                        raise Undecided('branch in bb%d on a value that is not concrete (%s)' % (b, v))
                    # explore every successor with a copy of the state; the caller compares the outcomes
                    targets = []
                    for a in t['arms']:
                        if a[1] not in targets:
                            targets.append(a[1])
                    if t['otherwise'] not in targets and self.fn.blocks[t['otherwise']]['term']['k'] != 'unreachable':
                        targets.append(t['otherwise'])
                    self.forks[0] += len(targets)
                    if self.forks[0] > 200:
                        raise Undecided('too many symbolic branches')
                    for tg in targets[1:]:
                        cl = ConstExec(self.fn, self.max_steps)
                        cl.mem = dict(self.mem)
                        cl.fork, cl.forks, cl.finals = True, self.forks, self.finals
                        cl.steps = self.steps
                        cl.run(tg, stop, tracked)
                        if cl not in self.finals:
                            self.finals.append(cl)
                    b = targets[0]
                    continue
                nxt = t['otherwise']
                for a in t['arms']:
                    if int(a[0]) == v:
                        nxt = a[1]
                b = nxt
            else:
                raise Undecided('terminator %s' % k)
