"""Rule framework: registry, instances, floors, known findings, evidence, VIOLATION lines."""
import json
import os
import sys
import time
import traceback

from . import extract
from .core import Facts

VERIF = extract.VERIF
KNOWN = os.path.join(VERIF, 'known_findings.json')
EVID = os.path.join(VERIF, 'evidence')

RULES = {}          # rule id -> Rule
PROP_RULES = {}     # property id -> [rule ids]


class Rule:
    def __init__(self, rid, props, fn, configs, floor, doc, tier='quick'):
        self.id = rid
        self.props = props
        self.fn = fn
        self.configs = configs
        self.floor = floor
        self.doc = doc
        self.tier = tier


def rule(rid, props, configs=('def',), floor=1, tier='quick', thorough_configs=None):
    """Register a rule. `floor` = minimal number of instances (hand-confirmed) below which the
    rule fails closed. configs = fact configurations the rule is run on (quick tier);
    thorough_configs = additional ones for the thorough tier."""
    def deco(fn):
        r = Rule(rid, list(props), fn, list(configs), floor, (fn.__doc__ or '').strip(), tier)
        r.thorough_configs = list(thorough_configs or [])
        RULES[rid] = r
        for p in props:
            PROP_RULES.setdefault(p, []).append(rid)
        return fn
    return deco


class Ctx:
    """Per-run context handed to rules."""
    _facts_cache = {}

    def __init__(self, prop, tier, config, rule):
        self.prop = prop
        self.tier = tier
        self.config = config
        self.rule = rule
        self.instances = []
        self.notes = []

    @classmethod
    def facts_for(cls, config, src=None, crate='lzma_rust2'):
        key = (config, src or extract.REPO, crate)
        if key not in cls._facts_cache:
            path = extract.facts_file(config, src=src, crate=crate)
            cls._facts_cache[key] = Facts(path, config)
        return cls._facts_cache[key]

    @property
    def facts(self):
        return self.facts_for(self.config)

    # -- recording
    def _add(self, verdict, key, where, detail, nontrivial=True, **extra):
        d = {'rule': self.rule.id, 'config': self.config, 'key': key, 'verdict': verdict,
             'where': where, 'detail': detail, 'nontrivial': bool(nontrivial)}
        d.update(extra)
        self.instances.append(d)
        return d

    def ok(self, key, where, detail='', nontrivial=True, **extra):
        return self._add('pass', key, where, detail, nontrivial, **extra)

    def violation(self, key, where, detail, **extra):
        return self._add('violation', key, where, detail, True, **extra)

    def exception(self, key, where, reason, **extra):
        """An instance excused by the rule's exception table (one symbol, one reason)."""
        return self._add('exception', key, where, reason, True, **extra)

    def info(self, key, where, detail='', **extra):
        return self._add('info', key, where, detail, False, **extra)

    def note(self, s):
        self.notes.append(s)

    def anchor_missing(self, what):
        """Fail closed: an anchor the rule needs cannot be found on this tree."""
        return self._add('violation', 'ANCHOR-MISSING:' + what, '-',
                         'anchor not found: %s (an un-analysable tree is not a verified tree)' % what)


def load_known():
    if not os.path.exists(KNOWN):
        return []
    with open(KNOWN) as f:
        return json.load(f).get('findings', [])


def run_property(prop, tier='quick', only_rules=None, src=None, quiet=False, write_evidence=True):
    """Run all rules of a property. Returns (exit_code, evidence dict)."""
    t0 = time.time()
    seed = int(os.environ.get('VERIF_SEED', '0') or 0)
    rids = PROP_RULES.get(prop, [])
    if only_rules:
        rids = [r for r in rids if r in only_rules]
    all_instances = []
    rule_summ = []
    notes = []
    fatal = []
    configs_used = set()
    fns_analysed = set()
    for rid in rids:
        r = RULES[rid]
        if r.tier == 'thorough' and tier != 'thorough':
            continue
        cfgs = list(r.configs)
        if tier == 'thorough':
            cfgs += [c for c in r.thorough_configs if c not in cfgs]
        for cfg in cfgs:
            ctx = Ctx(prop, tier, cfg, r)
            try:
                r.fn(ctx)
            except Exception as e:  # fail closed
                tb = traceback.format_exc()
                ctx.violation('RULE-ERROR', '-', 'rule crashed (fail closed): %s' % e, trace=tb[-1500:])
            configs_used.add(cfg)
            n = len([i for i in ctx.instances if i['verdict'] != 'info'])
            floor = r.floor.get(cfg, 0) if isinstance(r.floor, dict) else r.floor
            if n < floor:
                ctx.violation('FLOOR', '-',
                              'rule matched %d instances, below the hand-confirmed floor %d: the rule no '
                              'longer sees the code it was confirmed on (fail closed)' % (n, floor))
            rule_summ.append({'rule': rid, 'config': cfg, 'instances': n, 'floor': floor,
                              'pass': len([i for i in ctx.instances if i['verdict'] == 'pass']),
                              'violations': len([i for i in ctx.instances if i['verdict'] == 'violation']),
                              'exceptions': len([i for i in ctx.instances if i['verdict'] == 'exception']),
                              'doc': r.doc.split('\n')[0]})
            all_instances.extend(ctx.instances)
            notes.extend(ctx.notes)
    known = [k for k in load_known() if k.get('property') == prop and k.get('status', 'known') == 'known']
    known_keys = {(k['rule'], k['key']) for k in known}
    viol = [i for i in all_instances if i['verdict'] == 'violation']
    # one finding per (rule, key): configs collapse
    new = {}
    seen_known = {}
    for v in viol:
        kk = (v['rule'], v['key'])
        if kk in known_keys:
            seen_known.setdefault(kk, v)
        else:
            new.setdefault(kk, v)
    out = []
    for k in known:
        kk = (k['rule'], k['key'])
        if kk in seen_known:
            out.append('KNOWN-FINDING: property=%s rule=%s key=%s at %s — %s' % (
                prop, k['rule'], k['key'], seen_known[kk]['where'], k.get('what', '')))
    code = 0
    replay = None
    if new:
        code = 1
        os.makedirs(os.path.join(EVID, 'replay'), exist_ok=True)
        replay = os.path.join(EVID, 'replay', '%s.json' % prop)
        with open(replay, 'w') as f:
            json.dump({'property': prop, 'violations': list(new.values())}, f, indent=1)
        for kk, v in new.items():
            out.append('  %s [%s/%s] %s: %s' % (v['where'], v['rule'], v['config'], v['key'], v['detail']))
        out.append('VIOLATION property=%s replay=%s' % (prop, replay))
    wall = time.time() - t0
    evaluated = [i for i in all_instances if i['verdict'] != 'info']
    distinct_nt = len({(i['rule'], i['key']) for i in evaluated if i['nontrivial']})
    # samples: a few instances of each rule, violations first
    samples = []
    per_rule = {}
    for i in sorted(evaluated, key=lambda i: (i['verdict'] != 'violation', i['rule'])):
        c = per_rule.get(i['rule'], 0)
        if c < 6:
            per_rule[i['rule']] = c + 1
            samples.append({k: i[k] for k in ('rule', 'config', 'key', 'verdict', 'where', 'detail')})
    ev = {
        'property_id': prop,
        'tier': tier,
        'seed': seed,
        'level': 'other',
        'coverage': {
            'evaluations': len(evaluated),
            'distinct_nontrivial': distinct_nt,
            'rule': 'static rules over rustc MIR facts of the current /repo tree; one evaluation = one '
                    'rule instance (call site, function, path or table row) decided in one feature '
                    'configuration; distinct = distinct (rule, instance key); non-trivial = the verdict '
                    'needed a dominance, path, data-flow or value-set argument (not a bare syntactic match)',
            'samples': samples,
            'explanation': 'Each listed rule states a structural necessary condition of the property and is '
                           'decided for every instance on the type-checked MIR of the tree as it is now '
                           '(nothing is executed). Rules: ' + '; '.join(
                               '%s[%s]: %d inst (floor %d), %d pass, %d exc, %d viol' % (
                                   s['rule'], s['config'], s['instances'], s['floor'], s['pass'], s['exceptions'],
                                   s['violations']) for s in rule_summ),
            'rules': rule_summ,
            'configs': sorted(configs_used),
            'known_findings_matched': len(seen_known),
            'notes': notes[:40],
            'exhaustive': True,
        },
        'assumptions': [
            'rustc nightly MIR (opt-level 0, dev profile) is the program',
            'std items behave as in the hand-written model table',
            'a pass means every instance of every rule holds; the behavioural property itself is not proved '
            '(see DESIGN.md section 4 "Not decided")',
        ],
        'wall_s': round(wall, 2),
        'violations': len(new),
    }
    if write_evidence:
        os.makedirs(EVID, exist_ok=True)
        with open(os.path.join(EVID, '%s.json' % prop), 'w') as f:
            json.dump(ev, f, indent=1)
    if not quiet:
        print('property %s tier=%s: %d rule runs, %d instances, %d distinct non-trivial, %d new violations, '
              '%d known findings (%.1fs)' % (prop, tier, len(rule_summ), len(evaluated), distinct_nt, len(new),
                                             len(seen_known), wall))
        for s in rule_summ:
            print('  rule %-22s [%-12s] inst=%-3d floor=%-3d pass=%-3d exc=%-2d viol=%d' % (
                s['rule'], s['config'], s['instances'], s['floor'], s['pass'], s['exceptions'], s['violations']))
        for line in out:
            print(line)
    return code, ev, all_instances
