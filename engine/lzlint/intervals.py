"""A4: interval evaluation of provenance expressions with guard refinement and bounded
interprocedural lookup (parameters -> call sites, fields -> writers).

A value is (lo, hi, prop): lo <= v <= hi, and `prop` says "plus a quantity proportional to the
number of input bytes actually held" (slice/Vec lengths, stream positions). hi = INF means unbounded.
Loops are not analysed: a multi-definition local is the join of its definitions only when none of
them refers to the local itself; otherwise it is the full range of its type."""
import re

from .core import (Prov, expr_walk, expr_str, guards_of, norm_cmp, callee_of, strip_generics, last_seg, op_place,
                   self_field_of)

INF = float('inf')

TYMAX = {'u8': 255, 'u16': 65535, 'u32': 2 ** 32 - 1, 'u64': 2 ** 64 - 1, 'usize': 2 ** 64 - 1, 'bool': 1,
         'i8': 127, 'i16': 32767, 'i32': 2 ** 31 - 1, 'i64': 2 ** 63 - 1, 'isize': 2 ** 63 - 1, 'char': 0x10FFFF}
TYMIN = {'i8': -128, 'i16': -32768, 'i32': -2 ** 31, 'i64': -2 ** 63, 'isize': -2 ** 63}

READ_RANGES = {'read_u8': 255, 'try_read_u8': 255, 'read_u16': 65535, 'read_u16_be': 65535, 'read_u32': 2 ** 32 - 1,
               'read_u32_be': 2 ** 32 - 1, 'read_u64': 2 ** 64 - 1}
LEN_CALLS = ('::len', 'Seek::seek', 'Seek::stream_position', 'Cursor::position', 'bytes_read', 'stream_len')


def strip(e, fn=None):
    """Canonical string of an expression with casts, refs, `?`/payload wrappers and checked-op tuple
    projections removed (for matching guards against uses). With `fn`, reads of multi-definition
    locals are tagged with their reaching-definition set so that two reads match only when they
    see the same value."""
    return expr_str(_strip(e, fn))


_STRIP_CACHE = {}


def _strip(e, fn=None):
    if not isinstance(e, tuple):
        return e
    ck = (id(e), fn.path if fn is not None else None)
    hit = _STRIP_CACHE.get(ck)
    if hit is not None and hit[0] is e:
        return hit[1]
    r = _strip_(e, fn)
    if len(_STRIP_CACHE) > 400000:
        _STRIP_CACHE.clear()
    _STRIP_CACHE[ck] = (e, r)
    return r


def _strip_(e, fn=None):
    k = e[0]
    if k == 'local' and fn is not None and len(e) > 3 and e[3] is not None:
        rd = fn.reaching_defs(e[1], e[3])
        sig = ','.join(sorted('%s' % (d,) for d in rd)) if rd else '?'
        return ('local', e[1], '%s@{%s}' % (e[2], sig))
    if k == 'cast':
        return _strip(e[2], fn)
    if k in ('ref', 'deref'):
        return _strip(e[1], fn)
    if k == 'field' and e[1][0] == 'bin' and e[2] == '0':
        return _strip(e[1], fn)
    if k == 'field' and e[2] == '0' and e[1][0] == 'downcast':
        return _strip(e[1][1], fn)
    if k == 'trybranch':
        return _strip(e[1], fn)
    if k == 'bin':
        op = e[1].replace('WithOverflow', '').replace('Unchecked', '')
        return ('bin', op, _strip(e[2], fn), _strip(e[3], fn))
    if k == 'call':
        return ('call', e[1], [_strip(a, fn) for a in e[2]], None)
    if k == 'field':
        return ('field', _strip(e[1], fn), e[2])
    if k == 'index':
        return ('index', _strip(e[1], fn), _strip(e[2], fn))
    if k == 'un':
        return ('un', e[1], _strip(e[2], fn))
    return e


def _mod_idiom(a, b):
    """a - (a / c) * c [* ...]  ==  a mod c : returns c, else None."""
    sa = strip(a)
    consts = 1
    div = None
    stack = [_strip(b)]
    while stack:
        x = stack.pop()
        if x[0] == 'bin' and x[1] == 'Mul':
            stack.append(x[2])
            stack.append(x[3])
        elif x[0] == 'const' and isinstance(x[2], int):
            consts *= x[2]
        elif x[0] == 'bin' and x[1] == 'Div' and div is None:
            div = x
        else:
            return None
    if div is None:
        return None
    # divisor may itself be a product of constants
    d = 1
    st = [div[3]]
    while st:
        y = st.pop()
        if y[0] == 'bin' and y[1] == 'Mul':
            st += [y[2], y[3]]
        elif y[0] == 'const' and isinstance(y[2], int):
            d *= y[2]
        else:
            return None
    if expr_str(div[2]) == sa and d == consts and d >= 1:
        return d
    return None


class Ival:
    __slots__ = ('lo', 'hi', 'prop')

    def __init__(self, lo, hi, prop=False):
        self.lo = lo
        self.hi = hi
        self.prop = prop

    def __repr__(self):
        h = 'inf' if self.hi == INF else ('2^%d' % (self.hi.bit_length()) if isinstance(self.hi, int) and self.hi > 1 << 20 and (self.hi & (self.hi + 1)) == 0 else str(self.hi))
        return '[%s, %s]%s' % (self.lo, h, '+len' if self.prop else '')


def ty_range(ty):
    if ty in TYMAX:
        return Ival(TYMIN.get(ty, 0), TYMAX[ty])
    return Ival(-INF, INF)


class Intervals:
    def __init__(self, facts, max_depth=4, scope=None):
        self.F = facts
        self.scope = scope   # optional set of fn paths: only callers/writers inside it are considered
        self.max_depth = max_depth
        self._callers = None
        self._prov = {}
        self.trace = []

    def prov(self, fn):
        if fn.path not in self._prov:
            self._prov[fn.path] = Prov(fn)
        return self._prov[fn.path]

    def callers(self, fn):
        if self._callers is None:
            self._callers = {}
            for g in self.F.fns:
                if self.scope is not None and g.path not in self.scope:
                    continue
                for bi, t, c in g.calls():
                    for h in self.F.resolve_callee(c):
                        self._callers.setdefault(h.path, []).append((g, bi, t))
        return self._callers.get(fn.path, [])

    # -- guards
    def guard_bounds(self, fn, block):
        """{stripped expr string: (lo, hi)} from the conditions that edge-dominate `block`; the
        right-hand side may be a constant or an expression (kept as expr for later evaluation)."""
        out = {}
        prov = self.prov(fn)
        for s, pol, cond in guards_of(fn, block, prov):
            nc = norm_cmp(cond, pol) if cond[0] in ('bin', 'un') else None
            if not nc:
                # RangeInclusive::contains and friends are not modelled
                continue
            op, a, b = nc
            for (x, y, o) in ((a, b, op), (b, a, {'Lt': 'Gt', 'Le': 'Ge', 'Eq': 'Eq', 'Ne': 'Ne'}[op])):
                kx = strip(x, fn)
                ent = out.setdefault(kx, [None, None, []])
                if o == 'Ne' and y[0] == 'const' and isinstance(y[2], int):
                    ent[2].append(y[2])
                def cval(bnd):
                    return bnd[0][2] + ((-1 if bnd[1] else 0) if bnd is not None else 0) if bnd[0][0] == 'const' and isinstance(bnd[0][2], int) else None
                if o in ('Lt', 'Le', 'Eq'):
                    new = (y, o == 'Lt', s)
                    if ent[1] is None:
                        ent[1] = new
                    elif y[0] == 'const' and isinstance(y[2], int) and ent[1][0][0] == 'const' and isinstance(ent[1][0][2], int):
                        if y[2] - (1 if o == 'Lt' else 0) < ent[1][0][2] - (1 if ent[1][1] else 0):
                            ent[1] = new
                if o in ('Gt', 'Ge', 'Eq'):
                    new = (y, o == 'Gt', s)
                    if ent[0] is None:
                        ent[0] = new
                    elif y[0] == 'const' and isinstance(y[2], int) and ent[0][0][0] == 'const' and isinstance(ent[0][0][2], int):
                        if y[2] + (1 if o == 'Gt' else 0) > ent[0][0][2] + (1 if ent[0][1] else 0):
                            ent[0] = new
        return out

    # -- evaluation
    def guard_bounds_cached(self, fn, block):
        c = self.__dict__.setdefault('_gbcache', {})
        k = (fn.path, block)
        if k not in c:
            c[k] = self.guard_bounds(fn, block)
        return c[k]

    def eval(self, fn, block, e, depth=0, gb=None, seen=None):
        own_gb = gb is None
        if gb is None:
            gb = self.guard_bounds_cached(fn, block)
        seen = seen or frozenset()
        mk = None
        if isinstance(e, tuple):
            actx = getattr(self, '_argctx', {}).get(fn.path)
            mk = (fn.path, block, id(e), depth, id(gb), repr(actx) if actx is not None else None)
            memo = self.__dict__.setdefault('_memo', {})
            hit = memo.get(mk)
            if hit is not None and hit[0] is e:
                return hit[1]
        r = self._eval_top(fn, block, e, depth, gb, seen)
        if mk is not None and not seen:
            if len(memo) > 300000:
                memo.clear()
            memo[mk] = (e, r)
        return r

    def _eval_top(self, fn, block, e, depth, gb, seen):
        iv = self._eval(fn, block, e, depth, gb, seen)
        k = strip(e, fn)
        if k in gb and e[0] != 'const':
            lo, hi, nes = gb[k]
            for c in sorted(nes):
                if c == iv.lo:
                    iv = Ival(iv.lo + 1, iv.hi, iv.prop)
            for c in sorted(nes, reverse=True):
                if c == iv.hi:
                    iv = Ival(iv.lo, iv.hi - 1, iv.prop)
            if hi is not None:
                y, strict, sblk = hi
                yi = self._eval(fn, block, y, depth, {}, seen) if y[0] != 'const' else Ival(y[2], y[2])
                h = yi.hi - (1 if strict and yi.hi != INF else 0)
                if h < iv.hi:
                    iv = Ival(iv.lo, h, iv.prop if yi.hi == INF else yi.prop)
            if lo is not None:
                y, strict, sblk = lo
                yi = self._eval(fn, block, y, depth, {}, seen) if y[0] != 'const' else Ival(y[2], y[2])
                l = yi.lo + (1 if strict and yi.lo != -INF else 0)
                if l > iv.lo:
                    iv = Ival(l, iv.hi, iv.prop)
        return iv

    def _eval(self, fn, block, e, depth, gb, seen):
        k = e[0]
        ev = lambda x: self.eval(fn, block, x, depth, gb, seen)
        if k == 'const':
            v = e[2]
            if isinstance(v, bool):
                v = int(v)
            if isinstance(v, int):
                return Ival(v, v)
            return Ival(-INF, INF)
        if k == 'cast':
            inner = ev(e[2])
            tr = ty_range(e[1])
            if tr.hi == INF:
                return inner
            if inner.lo >= tr.lo and inner.hi <= tr.hi:
                return inner
            return Ival(tr.lo, tr.hi, inner.prop)
        if k in ('ref', 'deref', 'trybranch'):
            return ev(e[1])
        if k == 'len':
            return Ival(0, 0, True)
        if k == 'field':
            # (a op b).0  -> value of the checked op
            if e[1][0] == 'bin' and e[2] == '0':
                return ev(e[1])
            if e[2] == '0' and e[1][0] == 'downcast':
                return ev(e[1][1])
            return self._field(fn, block, e, depth, seen)
        if k == 'downcast':
            return ev(e[1])
        if k == 'bin':
            op = e[1].replace('WithOverflow', '').replace('Unchecked', '')
            a, b = ev(e[2]), ev(e[3])
            p = a.prop or b.prop
            if op == 'Add':
                return Ival(a.lo + b.lo, a.hi + b.hi, p)
            if op == 'Sub':
                m = _mod_idiom(e[2], e[3])
                if m is not None and a.lo >= 0:
                    return Ival(0, m - 1)
                # a - min(a, x) >= 0
                sb = _strip(e[3], fn)
                if sb[0] == 'call' and sb[1].endswith('::min') and len(sb[2]) == 2 and \
                        strip(e[2], fn) in (expr_str(sb[2][0]), expr_str(sb[2][1])):
                    return Ival(0, a.hi, a.prop)
                return Ival(a.lo - b.hi, a.hi - b.lo, a.prop)
            if op == 'Mul':
                if p:
                    small = b if a.prop else a
                    if a.prop and b.prop or small.hi > 64:
                        return Ival(0, INF)
                c = [x * y for x in (a.lo, a.hi) for y in (b.lo, b.hi) if not (x in (INF, -INF) and y == 0) and not (y in (INF, -INF) and x == 0)]
                if not c:
                    return Ival(0, INF)
                return Ival(min(c), max(c), p)
            if op == 'Div':
                if b.lo >= 1:
                    return Ival(min(a.lo // b.hi if b.hi != INF else 0, a.lo), a.hi // b.lo if a.hi != INF else INF, a.prop)
                return Ival(min(a.lo, 0), max(a.hi, 0), a.prop)
            if op == 'Rem':
                if b.hi != INF and b.lo >= 1:
                    return Ival(0, min(a.hi, b.hi - 1))
                return Ival(0, a.hi)
            if op == 'Shl':
                if b.hi == INF or b.hi > 127 or a.hi == INF:
                    return Ival(0, INF)
                return Ival(a.lo << max(b.lo, 0) if a.lo >= 0 else -INF, a.hi << b.hi, p)
            if op == 'Shr':
                if a.hi == INF:
                    return Ival(0, INF, a.prop)
                sh = b.lo if b.lo != -INF and b.lo >= 0 else 0
                return Ival(0 if a.lo >= 0 else -INF, a.hi >> sh if a.hi >= 0 else 0, a.prop)
            if op == 'BitAnd':
                hs = [x.hi for x in (a, b) if x.lo >= 0 and x.hi != INF]
                return Ival(0, min(hs) if hs else INF, p)
            if op in ('BitOr', 'BitXor'):
                if a.hi == INF or b.hi == INF or a.lo < 0 or b.lo < 0:
                    return Ival(-INF, INF)
                bits = max(int(a.hi).bit_length(), int(b.hi).bit_length())
                return Ival(0, (1 << bits) - 1, p)
            if op in ('Eq', 'Ne', 'Lt', 'Le', 'Gt', 'Ge'):
                return Ival(0, 1)
            return Ival(-INF, INF)
        if k == 'un':
            a = ev(e[2])
            if e[1] == 'Neg':
                return Ival(-a.hi, -a.lo)
            if e[1] != 'Not':
                return Ival(-INF, INF)
            # `!x` is logical only for booleans; on an integer it is the bitwise complement (e.g. `!15` as an alignment mask)
            x = e[2]
            while isinstance(x, tuple) and x[0] in ('cast',):
                x = x[-1]
            if isinstance(x, tuple) and x[0] == 'const':
                ty, v = x[1], x[2]
                if ty == 'bool' or isinstance(v, bool):
                    return Ival(0, 1)
                if isinstance(v, int) and ty in TYMAX and TYMIN.get(ty, 0) == 0:
                    return Ival(TYMAX[ty] - v, TYMAX[ty] - v)
                return Ival(-INF, INF)
            if isinstance(x, tuple) and ((x[0] == 'bin' and x[1] in ('Eq', 'Ne', 'Lt', 'Le', 'Gt', 'Ge')) or (x[0] == 'un' and x[1] == 'Not')):
                return Ival(0, 1)
            if isinstance(x, tuple) and x[0] == 'call':
                return Ival(0, 1) if a.lo >= 0 and a.hi <= 1 else Ival(-INF, INF)
            return Ival(0, 1) if (a.lo, a.hi) == (0, 1) and isinstance(x, tuple) and x[0] in ('field', 'local', 'param') and False else Ival(-INF, INF)
        if k == 'call':
            return self._call(fn, block, e, depth, gb, seen)
        if k == 'param':
            return self._param(fn, e, depth, seen)
        if k == 'local':
            return self._local(fn, block, e, depth, gb, seen)
        if k == 'index':
            # element of an array/slice: type range of the element (unknown contents)
            return Ival(-INF, INF)
        if k == 'agg':
            return Ival(-INF, INF)
        return Ival(-INF, INF)

    def _call(self, fn, block, e, depth, gb, seen):
        name = e[1]
        ln = name.split('::')[-1]
        args = e[2]
        ev = lambda x: self.eval(fn, block, x, depth, gb, seen)
        if ln in READ_RANGES and ('ByteReader' in name or 'RangeReader' in name):
            return Ival(0, READ_RANGES[ln])
        if any(name.endswith(x) for x in LEN_CALLS):
            return Ival(0, 0, True)
        if ln == 'default' and not args and len(e) > 3 and e[3]:
            c = callee_of(e[3])
            if c and (c.get('self_ty') or '') in TYMAX:
                return Ival(0, 0)
        if ln == 'next' and len(args) == 1:
            # the item of an integer range iterator: `for i in a..b`
            it = args[0]
            while it[0] in ('ref', 'deref') or (it[0] == 'call' and it[1].split('::')[-1] in ('into_iter', 'rev') and it[2]):
                it = it[1] if it[0] in ('ref', 'deref') else it[2][0]
            if it[0] == 'agg' and str(it[1]).endswith('Range::Range') and len(it[2]) == 2:
                a, b = ev(it[2][0]), ev(it[2][1])
                return Ival(a.lo, b.hi - 1 if b.hi != INF else INF, b.prop)
            if it[0] == 'call' and it[1].endswith('RangeInclusive::new') and len(it[2]) == 2:
                a, b = ev(it[2][0]), ev(it[2][1])
                return Ival(a.lo, b.hi, b.prop)
        if ln in ('min',) and len(args) == 2:
            a, b = ev(args[0]), ev(args[1])
            hi = min(a.hi, b.hi)
            prop = (a.prop if a.hi <= b.hi else b.prop) if a.hi != b.hi else (a.prop and b.prop)
            # min(x, len) is bounded by either
            if a.prop != b.prop:
                np_ = a if not a.prop else b
                pp = b if not a.prop else a
                if np_.hi != INF:
                    return Ival(min(a.lo, b.lo), np_.hi, False)
                return Ival(min(a.lo, b.lo), pp.hi, True)
            return Ival(min(a.lo, b.lo), hi, prop)
        if ln in ('max',) and len(args) == 2:
            a, b = ev(args[0]), ev(args[1])
            return Ival(max(a.lo, b.lo), max(a.hi, b.hi), a.prop or b.prop)
        if ln == 'clamp' and len(args) == 3:
            lo, hi = ev(args[1]), ev(args[2])
            return Ival(lo.lo, hi.hi)
        if ln in ('saturating_sub', 'wrapping_sub', 'checked_sub') and len(args) == 2:
            a = ev(args[0])
            return Ival(0 if ln == 'saturating_sub' else -INF, a.hi, a.prop)
        if ln in ('saturating_add', 'wrapping_add', 'checked_add') and len(args) == 2:
            a, b = ev(args[0]), ev(args[1])
            return Ival(a.lo + b.lo, a.hi + b.hi, a.prop or b.prop)
        if ln in ('unwrap', 'expect', 'unwrap_or', 'unwrap_or_default', 'get', 'from', 'into', 'try_from', 'try_into', 'copied', 'cloned', 'clone'):
            if args:
                return ev(args[0])
        if ln in ('div_ceil', 'next_multiple_of') and len(args) == 2:
            a, b = ev(args[0]), ev(args[1])
            if ln == 'div_ceil':
                return Ival(0, a.hi if b.lo < 1 else (a.hi // b.lo + 1 if a.hi != INF else INF), a.prop)
            return Ival(0, a.hi + b.hi, a.prop)
        if ln in ('from_be_bytes', 'from_le_bytes', 'from_ne_bytes'):
            m = re.search(r'<impl (\w+)>', name) or re.search(r'num::(\w+)::', name)
            c = callee_of(e[3]) if len(e) > 3 and e[3] else None
            ty = None
            if c:
                m2 = re.search(r'impl (\w+)>', c['path'])
                if m2:
                    ty = m2.group(1)
            return ty_range(ty) if ty else Ival(0, INF)
        if ln in ('count_ones', 'leading_zeros', 'trailing_zeros'):
            return Ival(0, 64)
        if ln in ('size_of', 'align_of') and len(e) > 3 and e[3]:
            c = callee_of(e[3])
            targ = (c or {}).get('args', ['?'])[0]
            sz = {'u8': 1, 'i8': 1, 'u16': 2, 'i16': 2, 'u32': 4, 'i32': 4, 'u64': 8, 'i64': 8, 'usize': 8, 'isize': 8}.get(targ)
            if sz:
                return Ival(sz, sz)
        # local function: evaluate its return expression(s) with arguments substituted by intervals
        if len(e) > 3 and e[3]:
            c = callee_of(e[3])
            if c and c.get('local') and depth < self.max_depth:
                g = self.F.by_path.get(c['path'])
                if g is not None and g.path not in seen:
                    return self._ret(g, depth + 1, seen | {g.path}, fn, block, args, gb)
            if c:
                # result type bound
                m = re.search(r'-> ([\w:<>, ]+?)( \{|$)', c.get('path', ''))
        return Ival(-INF, INF)

    def _ret(self, g, depth, seen, caller, cblock, args, gb):
        """Interval of g's return value; parameters evaluated at this call site."""
        pg = self.prov(g)
        out = None
        self._argctx = getattr(self, '_argctx', {})
        saved = self._argctx.get(g.path)
        self._argctx[g.path] = [self.eval(caller, cblock, a, depth, gb, seen) for a in args]
        try:
            for (bi, si, k, node) in g.whole_defs(0):
                if k == 'assign':
                    e = pg.rvalue(node['rv'], 0)
                elif k == 'call':
                    c = callee_of(node)
                    if c and strip_generics(c['path']).endswith('FromResidual::from_residual'):
                        continue   # `?`: carries only the Err/None case, no payload value
                    e = ('call', strip_generics(c['path']) if c else '?', [pg.operand(a) for a in node['args']], node)
                else:
                    continue
                # Result/Option wrappers: look inside Ok/Some payload
                if e[0] == 'agg' and str(e[1]).startswith('adt:') and e[2]:
                    if str(e[1]).endswith(('::Err', '::None')):
                        continue
                    e = e[2][0]
                iv = self.eval(g, bi, e, depth, None, seen)
                out = iv if out is None else Ival(min(out.lo, iv.lo), max(out.hi, iv.hi), out.prop or iv.prop)
        finally:
            if saved is None:
                self._argctx.pop(g.path, None)
            else:
                self._argctx[g.path] = saved
        if out is None:
            return ty_range(g.d.get('output', ''))
        tr = ty_range(g.d.get('output', ''))
        if tr.hi != INF:
            out = Ival(max(out.lo, tr.lo), min(out.hi, tr.hi), out.prop)
        return out

    def _param(self, fn, e, depth, seen):
        idx = e[1]
        ctx = getattr(self, '_argctx', {}).get(fn.path)
        if ctx is not None and idx - 1 < len(ctx):
            return ctx[idx - 1]
        ty = fn.local_ty(idx)
        tr = ty_range(ty)
        if depth >= self.max_depth:
            return tr
        cs = self.callers(fn)
        if not cs or fn.d.get('pub'):
            # public entry point: caller-supplied value, whole type range
            if not cs:
                return tr
        out = None
        for (g, bi, t) in cs:
            if g.path in seen:
                return tr
            if idx - 1 >= len(t['args']):
                return tr
            ae = self.prov(g).operand(t['args'][idx - 1])
            iv = self.eval(g, bi, ae, depth + 1, None, seen | {fn.path})
            out = iv if out is None else Ival(min(out.lo, iv.lo), max(out.hi, iv.hi), out.prop or iv.prop)
        if fn.d.get('pub') and fn.d.get('kind') != 'closure' and self._is_public_api(fn):
            out = Ival(min(out.lo, tr.lo), max(out.hi, tr.hi), out.prop) if out else tr
        if out is None:
            return tr
        return Ival(max(out.lo, tr.lo) if tr.lo != -INF else out.lo, min(out.hi, tr.hi), out.prop)

    def _is_public_api(self, fn):
        """pub fn of a pub type (conservative: treat `pub` methods of pub ADTs as reachable from outside)."""
        if not fn.d.get('pub'):
            return False
        adt = self.F.adts.get(fn.self_adt) if fn.self_adt else None
        if adt is not None:
            return bool(adt.get('pub'))
        return True

    def _local(self, fn, block, e, depth, gb, seen):
        l = e[1]
        tr = ty_range(fn.local_ty(l))
        pos = e[3] if len(e) > 3 else None
        prov = self.prov(fn)
        if pos is not None:
            # flow-sensitive: join over the definitions reaching this read
            rd = fn.reaching_defs(l, pos)
            out = None
            decreasing = False
            for d in rd:
                if d == ('entry',):
                    if 1 <= l <= fn.arg_count:
                        iv = self._param(fn, ('param', l, fn.local_name(l)), depth, seen)
                    else:
                        return tr
                else:
                    key = ('D', fn.path, l, d)
                    if key in seen:
                        # loop-carried value: the only thing known is what the branch edges between that definition
                        # and this read say about it (e.g. the loop is re-entered only while `l < C`)
                        eb = self._edge_bound(fn, l, d, block, prov)
                        if eb is None:
                            return tr
                        iv = Ival(max(tr.lo, eb[0]) if eb[0] is not None else tr.lo, min(tr.hi, eb[1]) if eb[1] is not None else tr.hi)
                        out = iv if out is None else Ival(min(out.lo, iv.lo), max(out.hi, iv.hi), out.prop or iv.prop)
                        continue
                    de = prov.def_expr_at(l, d[0], d[1])
                    if de is None:
                        return tr
                    sd = _strip(de)
                    if sd[0] == 'bin' and sd[1] == 'BitAnd' and any(x[0] == 'local' and x[1] == l for x in (sd[2], sd[3])):
                        # `l = l & y` never raises l: the other definitions bound it
                        decreasing = True
                        continue
                    if sd[0] == 'bin' and sd[1] == 'Sub' and sd[2][0] == 'local' and sd[2][1] == l and \
                            not any(x[0] == 'local' and x[1] == l for x in expr_walk(sd[3])):
                        # `l = l - y` with y >= 0 (possibly loop-carried) keeps the upper bound
                        yexp = de[3] if de[0] == 'bin' else (de[1][3] if de[0] == 'field' and de[1][0] == 'bin' else sd[3])
                        y = self.eval(fn, d[0], yexp, depth, None, seen | {key})
                        if y.lo >= 0:
                            decreasing = True
                            continue
                        return tr
                    iv = self.eval(fn, d[0], de, depth, None, seen | {key})
                    if fn.in_loop(d[0]):
                        eb = self._edge_bound(fn, l, d, block, prov)
                        if eb is not None:
                            iv = Ival(max(iv.lo, eb[0]) if eb[0] is not None else iv.lo,
                                      min(iv.hi, eb[1]) if eb[1] is not None else iv.hi, iv.prop)
                out = iv if out is None else Ival(min(out.lo, iv.lo), max(out.hi, iv.hi), out.prop or iv.prop)
            if out is None:
                return tr
            if decreasing:
                out = Ival(tr.lo, out.hi, out.prop)
            return Ival(max(out.lo, tr.lo) if tr.lo != -INF else out.lo, min(out.hi, tr.hi), out.prop)
        key = ('L', fn.path, l)
        if key in seen:
            return tr
        out = None
        decreasing = False
        for bi, de in prov.def_exprs(l):
            if any(x[0] == 'local' and x[1] == l for x in expr_walk(de)):
                # loop-carried. The only shape analysed: `l = l - y` with y >= 0 keeps the upper bound.
                sd = _strip(de)
                if sd[0] == 'bin' and sd[1] == 'Sub' and sd[2][0] == 'local' and sd[2][1] == l and \
                        not any(x[0] == 'local' and x[1] == l for x in expr_walk(sd[3])):
                    y = self.eval(fn, bi, de[3] if de[0] == 'bin' else sd[3], depth, None, seen | {key})
                    if y.lo >= 0:
                        decreasing = True
                        continue
                return tr
            iv = self.eval(fn, bi, de, depth, None, seen | {key})
            out = iv if out is None else Ival(min(out.lo, iv.lo), max(out.hi, iv.hi), out.prop or iv.prop)
        if out is None:
            return tr
        if decreasing:
            out = Ival(tr.lo, out.hi, out.prop)
        return Ival(max(out.lo, tr.lo) if tr.lo != -INF else out.lo, min(out.hi, tr.hi), out.prop)

    def _edge_bound(self, fn, l, d, use_block, prov):
        """(lo, hi) implied for local l (as defined at d = (block, stmt)) by the bool branch edges that every path
        from that definition to `use_block` has to take, or None."""
        from .core import switch_edges
        dblock = d[0]
        ck = ('EB', fn.path, l, d, use_block)
        cache = self.__dict__.setdefault('_ebcache', {})
        if ck in cache:
            return cache[ck]
        cache[ck] = None

        def reach(avoid):
            seenb = set()
            st = [nb for nb in fn.succs(dblock) if (dblock, nb) != avoid]
            while st:
                b = st.pop()
                if b in seenb:
                    continue
                seenb.add(b)
                if b == use_block:
                    return True
                for nb in fn.succs(b):
                    if (b, nb) != avoid:
                        st.append(nb)
            return False
        if not reach(None):
            return None
        lo = hi = None
        for s in fn.reachable:
            e = switch_edges(fn, s)
            if e is None or e[0] == e[1]:
                continue
            need_t = not reach((s, e[1]))
            need_f = not reach((s, e[0]))
            if need_t == need_f:
                continue
            cond = prov.operand(fn.blocks[s]['term']['discr'], 0, '%d:T' % s)
            nc = norm_cmp(cond, need_t) if cond[0] in ('bin', 'un') else None
            if not nc:
                continue
            op, a, b = nc
            for x, y, o in ((a, b, op), (b, a, {'Lt': 'Gt', 'Le': 'Ge', 'Eq': 'Eq', 'Ne': 'Ne'}[op])):
                sx = x
                while sx[0] == 'cast':
                    sx = sx[2]
                if not (sx[0] == 'local' and sx[1] == l and y[0] == 'const' and isinstance(y[2], int)):
                    continue
                pos = sx[3] if len(sx) > 3 else None
                if pos is None or set(fn.reaching_defs(l, pos)) != {d}:
                    continue
                c = y[2]
                if o == 'Lt':
                    hi = c - 1 if hi is None else min(hi, c - 1)
                elif o == 'Le':
                    hi = c if hi is None else min(hi, c)
                elif o == 'Gt':
                    lo = c + 1 if lo is None else max(lo, c + 1)
                elif o == 'Ge':
                    lo = c if lo is None else max(lo, c)
                elif o == 'Eq':
                    lo = hi = c
        if lo is None and hi is None:
            return None
        cache[ck] = (lo, hi)
        return (lo, hi)

    def _field(self, fn, block, e, depth, seen):
        """Field of a struct: join over every writer of that field in the crate."""
        name = e[2]
        owner = e[3] if len(e) > 3 else None
        tr = Ival(-INF, INF)
        if owner is None or depth >= self.max_depth:
            return tr
        key = ('F', owner, name)
        if key in seen:
            return tr
        adt = self.F.adt(owner)
        if adt is None:
            return tr
        fty = None
        for fl in adt['variants'][0]['fields']:
            if fl['name'] == name:
                fty = fl['ty']
        if fty is None:
            return tr
        tr = ty_range(fty)
        out = None
        nw = 0
        for g in self.F.fns:
            if self.scope is not None and g.path not in self.scope:
                continue
            pg = None
            for bi, b in enumerate(g.blocks):
                if b['cleanup']:
                    continue
                for si, s in enumerate(b['stmts']):
                    if s['k'] != 'assign':
                        continue
                    rv = s['rv']
                    val = None
                    if rv['r'] == 'agg' and rv.get('kind') == 'adt' and last_seg(rv['adt']) == owner and name in rv['fields']:
                        pg = pg or self.prov(g)
                        val = pg.operand(rv['ops'][rv['fields'].index(name)])
                    else:
                        lp = s['lhs']['p']
                        if lp and isinstance(lp[-1], dict) and lp[-1].get('n') == name and last_seg(lp[-1].get('o')) == owner:
                            pg = pg or self.prov(g)
                            val = pg.rvalue(rv, 0)
                            if any(x[0] == 'field' and x[2] == name and len(x) > 3 and x[3] == owner for x in expr_walk(val)):
                                return tr  # self-referential update (counter): not analysed
                    if val is None:
                        continue
                    sv = _strip(val)
                    while sv[0] == 'call' and sv[1].endswith('Clone::clone') and sv[2]:
                        sv = sv[2][0]
                    if sv[0] == 'field' and sv[2] == name:
                        continue  # identity copy of the same field (derive(Clone), struct update)
                    nw += 1
                    iv = self.eval(g, bi, val, depth + 1, None, seen | {key})
                    out = iv if out is None else Ival(min(out.lo, iv.lo), max(out.hi, iv.hi), out.prop or iv.prop)
        # public fields can be set by anyone
        pubf = any(fl['name'] == name and fl.get('pub') for fl in adt['variants'][0]['fields']) and adt.get('pub')
        if out is None or pubf:
            return tr
        return Ival(max(out.lo, tr.lo) if tr.lo != -INF else out.lo, min(out.hi, tr.hi), out.prop)


def substitute(e, mapping):
    """Replace ('param', i, _) leaves by mapping[i]."""
    if not isinstance(e, tuple):
        return e
    if e[0] == 'param' and e[1] in mapping:
        return mapping[e[1]]
    out = []
    for x in e:
        if isinstance(x, tuple):
            out.append(substitute(x, mapping))
        elif isinstance(x, list):
            out.append([substitute(y, mapping) if isinstance(y, tuple) else y for y in x])
        else:
            out.append(x)
    return tuple(out)


def eval_lifted(iv, fn, block, e, limit, depth=0, seen=frozenset()):
    """Evaluate e at (fn, block); if the bound exceeds `limit` and e mentions parameters, re-evaluate
    the expression in every caller with arguments substituted (so relational guards such as
    `lc + lp <= 4` at the call site apply). Returns (Ival, context string)."""
    r = iv.eval(fn, block, e)
    if (r.hi != INF and r.hi <= limit) or depth >= 4:
        return r, fn.key
    params = {x[1] for x in expr_walk(e) if x[0] == 'param' and fn.local_ty(x[1]) in TYMAX}
    if not params:
        return r, fn.key
    if any(x[0] in ('local',) for x in expr_walk(e)):
        return r, fn.key   # callee-local state cannot be re-evaluated in a caller
    cs = iv.callers(fn)
    if not cs or fn.path in seen:
        return r, fn.key
    worst = None
    wctx = fn.key
    for (g, bi, t) in cs:
        pg = iv.prov(g)
        mapping = {}
        for i in params:
            if i - 1 < len(t['args']):
                mapping[i] = pg.operand(t['args'][i - 1])
        e2 = substitute(e, mapping)
        r2, c2 = eval_lifted(iv, g, bi, e2, limit, depth + 1, seen | {fn.path})
        if worst is None or r2.hi > worst.hi:
            worst, wctx = r2, c2
    if iv._is_public_api(fn):
        # also callable from outside with arbitrary arguments
        if r.hi > (worst.hi if worst else -1):
            return r, fn.key + ' (public API)'
    return (worst if worst is not None else r), wctx
