"""Fact extraction with a content-addressed cache (one generation per distinct tree)."""
import fcntl
import hashlib
import os
import shutil
import subprocess
import time

VERIF = os.path.dirname(os.path.dirname(os.path.dirname(os.path.abspath(__file__))))
REPO = os.environ.get('VERIF_REPO', '/repo')
CACHE = os.environ.get('VERIF_CACHE', os.path.join(VERIF, '.cache'))
DRIVER = os.path.join(VERIF, 'engine', 'mirfacts', 'target', 'debug', 'mirfacts')
RUNNER = os.path.join(VERIF, 'engine', 'run_mirfacts.sh')

CONFIGS = {
    'def': [],
    'std-noopt': ['--no-default-features', '--features', 'std,encoder,lzip,xz'],
    'nostd-opt': ['--no-default-features', '--features', 'encoder,optimization'],
    'nostd': ['--no-default-features', '--features', 'encoder'],
    'nostd-xzlzip': ['--no-default-features', '--features', 'encoder,lzip,xz'],
}


def tree_hash(src):
    h = hashlib.sha256()
    files = []
    for root, dirs, fs in os.walk(os.path.join(src, 'src')):
        dirs.sort()
        for f in sorted(fs):
            files.append(os.path.join(root, f))
    for extra in ('Cargo.toml', 'Cargo.lock', 'build.rs'):
        p = os.path.join(src, extra)
        if os.path.exists(p):
            files.append(p)
    files.append(DRIVER)
    for p in files:
        h.update(os.path.relpath(p, src).encode())
        with open(p, 'rb') as f:
            h.update(hashlib.sha256(f.read()).digest())
    return h.hexdigest()[:20]


def ensure_driver():
    if os.path.exists(DRIVER):
        return
    subprocess.run(['cargo', '+nightly', 'build', '--offline'], cwd=os.path.join(VERIF, 'engine', 'mirfacts'),
                   check=True, stdout=subprocess.DEVNULL, stderr=subprocess.DEVNULL)


def facts_file(config='def', src=None, crate='lzma_rust2', keep=6):
    """Path of the facts JSON of `src` (default /repo) in `config`, extracting if not cached.
    Raises RuntimeError if the tree does not build."""
    src = src or REPO
    ensure_driver()
    os.makedirs(CACHE, exist_ok=True)
    th = tree_hash(src)
    d = os.path.join(CACHE, th, config)
    out = os.path.join(d, crate + '.json')
    lock = os.path.join(CACHE, '%s.%s.lock' % (th, config))
    with open(lock, 'w') as lf:
        fcntl.flock(lf, fcntl.LOCK_EX)
        try:
            if os.path.exists(out) and os.path.getsize(out) > 0:
                return out
            tmp = d + '.tmp%d' % os.getpid()
            shutil.rmtree(tmp, ignore_errors=True)
            os.makedirs(tmp)
            r = subprocess.run([RUNNER, src, tmp, crate] + CONFIGS[config], stdout=subprocess.PIPE,
                               stderr=subprocess.STDOUT, text=True)
            if r.returncode != 0 or not os.path.exists(os.path.join(tmp, crate + '.json')):
                shutil.rmtree(tmp, ignore_errors=True)
                raise RuntimeError('extraction failed for config %s:\n%s' % (config, r.stdout[-3000:]))
            os.makedirs(os.path.dirname(d), exist_ok=True)
            shutil.rmtree(d, ignore_errors=True)
            os.rename(tmp, d)
            _gc(keep, th)
            return out
        finally:
            fcntl.flock(lf, fcntl.LOCK_UN)
            try:
                os.unlink(lock)
            except OSError:
                pass


def _gc(keep, current):
    gens = []
    for n in os.listdir(CACHE):
        p = os.path.join(CACHE, n)
        if os.path.isdir(p) and n != current:
            gens.append((os.path.getmtime(p), p))
    gens.sort(reverse=True)
    for _, p in gens[keep - 1:]:
        shutil.rmtree(p, ignore_errors=True)
