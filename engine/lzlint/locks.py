"""A8: lock-set analysis. For each block/terminator, the set of mutexes (owner ADT, field) whose
MutexGuard is provably live (must analysis: intersection at joins)."""
from .core import Prov, callee_of, strip_generics, op_place, op_local, last_seg

LOCK_FNS = ('Mutex::lock', 'Mutex::try_lock')
WAIT_FNS = ('Condvar::wait', 'Condvar::wait_while', 'Condvar::wait_timeout', 'Condvar::wait_timeout_while')
UNWRAP_FNS = ('Result::unwrap', 'Result::expect', 'Result::unwrap_or_else', 'Result::unwrap_unchecked')


def outer_field(e):
    """(owner, name) of the outermost field access in a ref/deref chain, or None."""
    while isinstance(e, tuple):
        if e[0] == 'field':
            return (e[3] if len(e) > 3 else None, e[2])
        if e[0] in ('ref', 'deref', 'cast'):
            e = e[-1] if e[0] == 'cast' else e[1]
            continue
        return None
    return None


def _name(t):
    c = callee_of(t)
    return strip_generics(c['path']) if c else None


def _is(n, names):
    return n is not None and any(n == x or n.endswith('::' + x) for x in names)


class LockSets:
    def __init__(self, fn):
        self.fn = fn
        self.prov = Prov(fn)
        self.entry = {}      # bb -> dict local -> ('guard'|'res', mutex)
        self.at_term = {}    # bb -> same, state just before the terminator executes
        self._run()

    def held_at_term(self, bb):
        """Set of mutexes with a live guard when the terminator of bb executes."""
        st = self.at_term.get(bb)
        if st is None:
            return set()
        return {m for (kind, m) in st.values() if kind == 'guard'}

    def _transfer(self, bb, st):
        fn = self.fn
        st = dict(st)
        b = fn.blocks[bb]
        for s in b['stmts']:
            if s['k'] == 'assign' and not s['lhs']['p']:
                rv = s['rv']
                if rv['r'] == 'use':
                    src = op_local(rv['o'])
                    if src is not None and src in st and 'm' in rv['o']:
                        st[s['lhs']['l']] = st.pop(src)
                        continue
                st.pop(s['lhs']['l'], None)
            elif s['k'] == 'dead':
                st.pop(s['l'], None)
        self.at_term[bb] = dict(st)
        t = b['term']
        k = t['k']
        if k == 'drop':
            p = t['place']
            if not p['p']:
                st.pop(p['l'], None)
        elif k == 'call':
            n = _name(t)
            dest = t['dest']['l'] if not t['dest']['p'] else None
            moved = [op_local(a) for a in t['args'] if 'm' in a]
            if _is(n, LOCK_FNS):
                m = outer_field(self.prov.operand(t['args'][0]))
                if dest is not None:
                    st[dest] = ('res', m or ('?', '?'))
            elif _is(n, WAIT_FNS):
                g = moved[1] if len(moved) > 1 else None
                m = st.get(g, (None, None))[1] if g is not None else None
                for l in moved:
                    st.pop(l, None)
                if dest is not None and m is not None:
                    st[dest] = ('res', m)
            elif _is(n, UNWRAP_FNS) and moved and moved[0] in st and st[moved[0]][0] == 'res':
                m = st.pop(moved[0])[1]
                if dest is not None:
                    st[dest] = ('guard', m)
            else:
                for l in moved:
                    if l in st:
                        st.pop(l)
                if dest is not None:
                    st.pop(dest, None)
        return st

    def _run(self):
        fn = self.fn
        order = fn._rpo()
        out = {}
        self.entry = {0: {}}
        changed = True
        it = 0
        while changed and it < 50:
            changed = False
            it += 1
            for bb in order:
                if bb != 0:
                    ps = [p for p in fn.pred[bb] if p in out]
                    if not ps:
                        continue
                    cur = None
                    for p in ps:
                        o = out[p]
                        if cur is None:
                            cur = dict(o)
                        else:
                            cur = {l: v for l, v in cur.items() if o.get(l) == v}
                    ent = cur
                else:
                    ent = {}
                if self.entry.get(bb) != ent or bb not in out:
                    self.entry[bb] = ent
                    new = self._transfer(bb, ent)
                    if out.get(bb) != new:
                        out[bb] = new
                        changed = True
