"""A5: value-set evaluation of code that only *compares* a byte.

For a function and a designated scalar expression (the "subject", e.g. the LZMA2 control byte) the
CFG is specialised for each of the 256 values: a switch whose condition is a closed expression over
the subject and constants takes the edge that value selects, every other switch takes all edges.
Nothing is executed: conditions are MIR expression trees folded over a finite domain."""
from .core import Prov, expr_str, expr_walk, switch_edges, callee_of, strip_generics, op_place


class Unknown(Exception):
    pass


def _mask(ty):
    return {'u8': 0xFF, 'u16': 0xFFFF, 'u32': 0xFFFFFFFF, 'u64': (1 << 64) - 1, 'usize': (1 << 64) - 1,
            'i32': 0xFFFFFFFF, 'i64': (1 << 64) - 1, 'bool': 1}.get(ty)


def fold(e, env):
    """Evaluate expression e under env {expr_str: int}. Raises Unknown."""
    k = expr_str(e)
    if k in env:
        return env[k]
    t = e[0]
    if t == 'local':
        if ('L', e[1]) in env:
            return env[('L', e[1])]
        raise Unknown()
    if t == 'const':
        if isinstance(e[2], bool):
            return int(e[2])
        if isinstance(e[2], int):
            return e[2]
        raise Unknown()
    if t == 'index' and e[1][0] == 'const' and isinstance(e[1][2], tuple):
        i = fold(e[2], env)
        if 0 <= i < len(e[1][2]):
            return e[1][2][i]
        raise Unknown()
    if t == 'cast':
        v = fold(e[2], env)
        m = _mask(e[1])
        return v & m if m is not None else v
    if t == 'un':
        v = fold(e[2], env)
        if e[1] == 'Not':
            return 0 if v else 1  # only used on bools here
        raise Unknown()
    if t == 'field' and e[1][0] == 'bin' and e[2] == '0':
        return fold(e[1], env)   # (a op b).0 of a checked op
    if t == 'bin':
        op = e[1]
        a = fold(e[2], env)
        b = fold(e[3], env)
        if op == 'Eq':
            return int(a == b)
        if op == 'Ne':
            return int(a != b)
        if op == 'Lt':
            return int(a < b)
        if op == 'Le':
            return int(a <= b)
        if op == 'Gt':
            return int(a > b)
        if op == 'Ge':
            return int(a >= b)
        if op == 'BitAnd':
            return a & b
        if op == 'BitOr':
            return a | b
        if op == 'BitXor':
            return a ^ b
        if op in ('Shl', 'ShlUnchecked'):
            return a << b
        if op in ('Shr', 'ShrUnchecked'):
            return a >> b
        if op.startswith('Add'):
            return a + b
        if op.startswith('Sub'):
            return a - b
        if op.startswith('Mul'):
            return a * b
        raise Unknown()
    raise Unknown()


class ByteEval:
    def __init__(self, fn, subject_expr, prov=None):
        self.fn = fn
        self.prov = prov or Prov(fn)
        self.key = expr_str(subject_expr)
        self._conds = {}
        for b in fn.reachable:
            t = fn.blocks[b]['term']
            if t['k'] == 'switch':
                self._conds[b] = self.prov.operand(t['discr'])

    def first_test_block(self):
        """The first (dominating) switch block whose condition mentions the subject."""
        cands = [b for b, c in self._conds.items() if self.mentions_subject(c)]
        for b in cands:
            if all(self.fn.dominates(b, o) for o in cands):
                return b
        return None

    def _step_env(self, b, env):
        """Propagate foldable whole-local assignments of block b into env (path-sensitive)."""
        fn = self.fn
        env = dict(env)
        for s in fn.blocks[b]['stmts']:
            if s['k'] == 'assign' and not s['lhs']['p']:
                l = s['lhs']['l']
                if len(fn.whole_defs(l)) > 1:
                    try:
                        env[('L', l)] = fold(self.prov.rvalue(s['rv'], 1), env)
                    except Unknown:
                        env.pop(('L', l), None)
        t = fn.blocks[b]['term']
        if t['k'] == 'call' and not t['dest']['p']:
            env.pop(('L', t['dest']['l']), None)
        return env

    def edges(self, b, v, env=None):
        """Successor blocks of b for subject value v (env: path-local values of multi-def locals)."""
        fn = self.fn
        t = fn.blocks[b]['term']
        if t['k'] != 'switch':
            return fn.succs(b)
        e = {self.key: v}
        if env:
            e.update(env)
        try:
            val = fold(self._conds[b], e)
        except Unknown:
            return fn.succs(b)
        for a, tgt in t['arms']:
            if int(a) == val:
                return [tgt]
        return [t['otherwise']]

    def paths(self, v, start=None, limit=6000, max_visits=1):
        """Acyclic paths (block tuples) from start to a return under value v, evaluating multi-def
        locals along each path."""
        if start is None:
            start = self.first_test_block()
            if start is None:
                start = 0
        out = []
        stack = [(start, (start,), {self.key: v})]
        while stack:
            b, p, env = stack.pop()
            env = self._step_env(b, env)
            if self.fn.blocks[b]['term']['k'] == 'return':
                out.append(p)
                if len(out) > limit:
                    raise RuntimeError('path budget exceeded')
                continue
            for s in self.edges(b, v, env):
                if p.count(s) >= max_visits:
                    continue
                stack.append((s, p + (s,), env))
        return out

    def reachable(self, v, start=None, max_visits=1):
        seen = set()
        for p in self.paths(v, start, max_visits=max_visits):
            seen.update(p)
        return seen

    def mentions_subject(self, e):
        return any(expr_str(x) == self.key for x in expr_walk(e))


class StateEval:
    """Path enumeration of a method under a valuation of bool/int *fields of self* (keys are
    expr_str of the field read, e.g. 'self.props_needed'): conditions over those fields and constants
    are folded, stores of foldable values to the fields update the valuation along the path."""

    def __init__(self, fn, prov=None, max_visits=2):
        self.fn = fn
        self.prov = prov or Prov(fn)
        self.max_visits = max_visits
        self._conds = {}
        for b in fn.reachable:
            t = fn.blocks[b]['term']
            if t['k'] == 'switch':
                self._conds[b] = self.prov.operand(t['discr'])

    def _field_key(self, lhs):
        """'self.<name>' for a store to (*self).<field>."""
        if lhs['l'] == 1 and len(lhs['p']) == 2 and lhs['p'][0] == '*' and isinstance(lhs['p'][1], dict) and 'f' in lhs['p'][1]:
            return '%s.%s' % (self.fn.local_name(1), lhs['p'][1]['n'])
        return None

    def _step(self, b, env):
        fn = self.fn
        env = dict(env)
        for s in fn.blocks[b]['stmts']:
            if s['k'] != 'assign':
                continue
            fk = self._field_key(s['lhs'])
            if fk is not None:
                try:
                    env[fk] = fold(self.prov.rvalue(s['rv'], 1), env)
                except Unknown:
                    env.pop(fk, None)
            elif not s['lhs']['p']:
                l = s['lhs']['l']
                if len(fn.whole_defs(l)) > 1:
                    try:
                        env[('L', l)] = fold(self.prov.rvalue(s['rv'], 1), env)
                    except Unknown:
                        env.pop(('L', l), None)
        t = fn.blocks[b]['term']
        if t['k'] == 'call' and not t['dest']['p']:
            env.pop(('L', t['dest']['l']), None)
        return env

    def run(self, env0, limit=20000):
        """[(path, final_env)] for every bounded path from entry to a return."""
        out = []
        stack = [(0, (0,), dict(env0))]
        while stack:
            b, p, env = stack.pop()
            env = self._step(b, env)
            t = self.fn.blocks[b]['term']
            if t['k'] == 'return':
                out.append((p, env))
                if len(out) > limit:
                    raise RuntimeError('path budget exceeded')
                continue
            succ = self.fn.succs(b)
            if t['k'] == 'switch':
                try:
                    val = fold(self._conds[b], env)
                    succ = [t['otherwise']]
                    for a, tgt in t['arms']:
                        if int(a) == val:
                            succ = [tgt]
                except Unknown:
                    pass
            for s in succ:
                if p.count(s) >= self.max_visits:
                    continue
                stack.append((s, p + (s,), env))
        return out


    def explore(self, env0, on_call=None, on_block=None, limit=20000):
        """Like run(), with hooks: on_call(bb, term, env) -> list of envs to continue with (callee
        effects), on_block(bb, env) -> None (observe emissions before the block's statements)."""
        out = []
        stack = [(0, (0,), dict(env0))]
        while stack:
            b, p, env = stack.pop()
            if on_block is not None:
                env = on_block(b, env) or env
            env = self._step(b, env)
            t = self.fn.blocks[b]['term']
            if t['k'] == 'return':
                out.append((p, env))
                if len(out) > limit:
                    raise RuntimeError('path budget exceeded')
                continue
            envs = [env]
            if t['k'] == 'call' and on_call is not None:
                envs = on_call(b, t, env)
            succ = self.fn.succs(b)
            if t['k'] == 'switch':
                try:
                    val = fold(self._conds[b], env)
                    succ = [t['otherwise']]
                    for a, tgt in t['arms']:
                        if int(a) == val:
                            succ = [tgt]
                except Unknown:
                    pass
            for e2 in envs:
                for s in succ:
                    if p.count(s) >= self.max_visits:
                        continue
                    stack.append((s, p + (s,), dict(e2)))
        return out
