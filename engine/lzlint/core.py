"""lzlint core: load mirfacts JSON, CFG/dominators, provenance, helpers.

All analyses work on the type-checked MIR facts of the *current* /repo tree; nothing is executed.
"""
import json
import re
from collections import defaultdict, deque


# --------------------------------------------------------------------------- helpers on JSON nodes

def strip_generics(s):
    """Remove <...> groups and lifetimes from a path string (balanced)."""
    out = []
    depth = 0
    i = 0
    while i < len(s):
        c = s[i]
        if c == '<':
            depth += 1
        elif c == '>':
            depth -= 1
        elif depth == 0:
            out.append(c)
        i += 1
    r = ''.join(out)
    r = r.replace('::::', '::')
    while '::::' in r:
        r = r.replace('::::', '::')
    return r


def last_seg(path):
    if path is None:
        return None
    return strip_generics(path).split('::')[-1]


def op_place(op):
    """Place of a copy/move operand or None."""
    if op is None:
        return None
    return op.get('c') or op.get('m')


def op_const(op):
    return op.get('k') if op else None


def const_val(op):
    k = op_const(op)
    if k is None:
        return None
    v = k.get('v')
    if isinstance(v, str):
        try:
            return int(v)
        except ValueError:
            return None
    return v


def op_local(op):
    """Local index if operand is a bare local (no projections)."""
    p = op_place(op)
    if p is not None and not p['p']:
        return p['l']
    return None


def place_str(fn, p):
    """Readable place: self.reader, _3.0, (*_5).field[ _7 ]"""
    s = fn.local_name(p['l'])
    for e in p['p']:
        if e == '*':
            s = '(*%s)' % s
        elif isinstance(e, dict):
            if 'f' in e:
                s += '.' + (e['n'] if e.get('n') is not None else str(e['f']))
            elif 'i' in e:
                s += '[%s]' % fn.local_name(e['i'])
            elif 'ci' in e:
                s += '[%s%d]' % ('-' if e.get('from_end') else '', e['ci'])
            elif 'sub' in e:
                s += '[%d..%s%d]' % (e['sub'], '-' if e.get('from_end') else '', e['to'])
            elif 'dc' in e:
                s += ' as %s' % (e.get('n') or e['dc'])
        else:
            s += '?'
    return s


def field_path(p):
    """Tuple of field names along a place (derefs/downcasts skipped, indices as '[]')."""
    out = []
    for e in p['p']:
        if isinstance(e, dict):
            if 'f' in e:
                out.append(e['n'] if e.get('n') is not None else str(e['f']))
            elif 'i' in e or 'ci' in e or 'sub' in e:
                out.append('[]')
            elif 'dc' in e:
                out.append('@' + str(e.get('n') or e['dc']))
    return tuple(out)


def callee_of(term):
    """Callee descriptor dict of a call terminator (None for indirect calls)."""
    if term.get('k') not in ('call', 'tailcall'):
        return None
    k = op_const(term['func'])
    if k is None:
        return None
    return k.get('fn')


class Callee:
    __slots__ = ('d', 'path', 'name', 'trait', 'resolved', 'local', 'krate', 'self_ty', 'self_adt', 'npath')

    def __init__(self, d):
        self.d = d
        self.path = d['path']
        self.name = d.get('name')
        self.trait = d.get('trait')
        self.resolved = d.get('resolved')
        self.local = d.get('local') or d.get('resolved_local') or False
        self.krate = d.get('krate')
        self.self_ty = d.get('self_ty') or d.get('impl_self_ty')
        self.self_adt = d.get('self_adt') or d.get('impl_self_adt')
        self.npath = strip_generics(self.path)

    def is_(self, *names):
        """Match against normalized path suffixes, e.g. 'io::Read::read' or 'Vec::with_capacity'."""
        for n in names:
            if self.npath == n or self.npath.endswith('::' + n):
                return True
        return False


# --------------------------------------------------------------------------- function wrapper

class Fn:
    def __init__(self, facts, d):
        self.facts = facts
        self.d = d
        self.path = d['path']
        self.name = d.get('name')
        self.kind = d['kind']
        self.blocks = d['blocks']
        self.locals = d['locals']
        self.arg_count = d['arg_count']
        self.impl = d.get('impl')
        self.span = d['span']
        self.file = self.span.split(':')[0]
        self.line = int(self.span.split(':')[1])
        self.npath = strip_generics(self.path)
        self._succ = None
        self._pred = None
        self._dom = None
        self._pdom = None
        self._defs = None
        self._reach = None
        # short key, stable under private renames of *other* items: Type::method or <Type as Trait>::method
        if self.impl:
            adt = last_seg(self.impl.get('self_adt')) or self.impl['self_ty']
            if self.impl.get('trait'):
                self.key = '<%s as %s>::%s' % (adt, last_seg(self.impl['trait']), self.name)
            else:
                self.key = '%s::%s' % (adt, self.name)
        elif self.kind == 'closure':
            self.key = self.npath
        else:
            self.key = self.npath

    def __repr__(self):
        return 'Fn(%s)' % self.key

    @property
    def self_adt(self):
        return (self.impl or {}).get('self_adt')

    @property
    def trait(self):
        return (self.impl or {}).get('trait')

    def local_name(self, l):
        n = self.locals[l].get('name')
        if n:
            return n
        return '_%d' % l

    def local_ty(self, l):
        return self.locals[l]['ty']

    def loc(self, bb, idx=None):
        b = self.blocks[bb]
        if idx is None or idx >= len(b['stmts']):
            line = b['term'].get('line')
        else:
            line = b['stmts'][idx].get('line', b['term'].get('line'))
        if not line or line < self.line:
            # synthetic blocks (drop ladders) carry line 1: fall back to a statement or a predecessor
            cand = [s.get('line') for s in b['stmts'] if s.get('line') and s.get('line') >= self.line]
            if cand:
                line = cand[-1]
            else:
                seen = {bb}
                cur = [bb]
                line = self.line
                for _ in range(12):
                    nxt = []
                    for x in cur:
                        for p in self.pred[x]:
                            if p not in seen:
                                seen.add(p)
                                nxt.append(p)
                    ls = [self.blocks[p]['term'].get('line') for p in nxt]
                    ls = [l for l in ls if l and l >= self.line]
                    if ls:
                        line = max(ls)
                        break
                    cur = nxt
                    if not cur:
                        break
        return '%s:%s' % (self.file, line)

    # ---- CFG
    def term(self, bb):
        return self.blocks[bb]['term']

    def succs(self, bb, unwind=False):
        t = self.blocks[bb]['term']
        k = t['k']
        out = []
        if k == 'goto':
            out = [t['target']]
        elif k == 'switch':
            out = [a[1] for a in t['arms']] + [t['otherwise']]
        elif k in ('drop', 'assert'):
            out = [t['target']]
        elif k == 'call':
            if t['target'] is not None:
                out = [t['target']]
        elif k == 'asm':
            out = list(t['targets'])
        if unwind and t.get('unwind') is not None:
            out.append(t['unwind'])
        # dedupe preserving order
        seen = []
        for x in out:
            if x not in seen:
                seen.append(x)
        return seen

    def build_cfg(self):
        if self._succ is not None:
            return
        n = len(self.blocks)
        self._succ = [self.succs(b) for b in range(n)]
        self._pred = [[] for _ in range(n)]
        for b in range(n):
            for s in self._succ[b]:
                self._pred[s].append(b)
        # reachable (normal edges) from entry
        seen = {0}
        dq = deque([0])
        while dq:
            b = dq.popleft()
            for s in self._succ[b]:
                if s not in seen:
                    seen.add(s)
                    dq.append(s)
        self._reach = seen

    @property
    def succ(self):
        self.build_cfg()
        return self._succ

    @property
    def pred(self):
        self.build_cfg()
        return self._pred

    @property
    def reachable(self):
        self.build_cfg()
        return self._reach

    def return_blocks(self):
        return [b for b in self.reachable if self.blocks[b]['term']['k'] == 'return']

    def _idom(self, succ, pred, roots, nodes):
        """Iterative dominators (set based; bodies are small)."""
        nodes = list(nodes)
        allset = set(nodes)
        dom = {n: set(allset) for n in nodes}
        for r in roots:
            dom[r] = {r}
        changed = True
        order = nodes
        while changed:
            changed = False
            for n in order:
                if n in roots:
                    continue
                ps = [p for p in pred(n) if p in allset]
                if ps:
                    new = set.intersection(*[dom[p] for p in ps])
                else:
                    new = set()
                new = new | {n}
                if new != dom[n]:
                    dom[n] = new
                    changed = True
        return dom

    @property
    def dom(self):
        """dom[b] = set of blocks dominating b (normal edges)."""
        if self._dom is None:
            self.build_cfg()
            nodes = self._rpo()
            self._dom = self._idom(lambda n: self._succ[n], lambda n: self._pred[n], {0}, nodes)
        return self._dom

    def _rpo(self):
        self.build_cfg()
        seen = set()
        order = []
        stack = [(0, iter(self._succ[0]))]
        seen.add(0)
        while stack:
            n, it = stack[-1]
            adv = False
            for s in it:
                if s not in seen:
                    seen.add(s)
                    stack.append((s, iter(self._succ[s])))
                    adv = True
                    break
            if not adv:
                order.append(n)
                stack.pop()
        order.reverse()
        return order

    @property
    def pdom(self):
        """pdom[b] = set of blocks post-dominating b w.r.t. normal returns (virtual exit = -1)."""
        if self._pdom is None:
            self.build_cfg()
            nodes = [b for b in self.reachable]
            exits = [b for b in nodes if self.blocks[b]['term']['k'] == 'return']
            EXIT = -1
            succ = lambda n: self._succ[n] if n != EXIT else []
            pr = {n: list(self._succ[n]) for n in nodes}  # reversed graph preds = succs
            for e in exits:
                pr[e] = pr[e] + [EXIT]
            pr[EXIT] = []
            allnodes = nodes + [EXIT]
            # order: reverse graph RPO approx -> just iterate
            self._pdom = self._idom(None, lambda n: pr[n], {EXIT}, allnodes)
        return self._pdom

    def dominates(self, a, b):
        return a in self.dom.get(b, ())

    def pos_dominates(self, pa, pb):
        """(bb, idx) position dominance within/among blocks; idx None = terminator."""
        (a, ia), (b, ib) = pa, pb
        if a == b:
            ia = 1 << 30 if ia is None else ia
            ib = 1 << 30 if ib is None else ib
            return ia <= ib
        return self.dominates(a, b)

    def reach_from(self, start_blocks, stop=None, unwind=False):
        """Blocks reachable from the *entry* of start_blocks, not passing through `stop` blocks."""
        stop = stop or set()
        seen = set()
        dq = deque(start_blocks)
        while dq:
            b = dq.popleft()
            if b in seen or b in stop:
                continue
            seen.add(b)
            for s in self.succs(b, unwind=unwind):
                dq.append(s)
        return seen

    def loops(self):
        """Natural loops: list of (header, body-set) from back edges t->h where h dominates t."""
        out = {}
        for t in self.reachable:
            for h in self.succ[t]:
                if self.dominates(h, t):
                    body = out.setdefault(h, {h})
                    stack = [t]
                    while stack:
                        x = stack.pop()
                        if x not in body:
                            body.add(x)
                            stack.extend(self.pred[x])
        return out

    def in_loop(self, bb):
        return any(bb in body for body in self.loops().values())

    # ---- def-use
    @property
    def defs(self):
        """local -> list of (bb, idx|None, kind, node). kind: 'assign'|'call'|'asm'."""
        if self._defs is None:
            d = defaultdict(list)
            for bi, b in enumerate(self.blocks):
                for si, s in enumerate(b['stmts']):
                    if s['k'] in ('assign', 'setdiscr'):
                        d[s['lhs']['l']].append((bi, si, s['k'], s))
                t = b['term']
                if t['k'] == 'call':
                    d[t['dest']['l']].append((bi, None, 'call', t))
                elif t['k'] == 'asm':
                    for o in t['operands']:
                        if o.get('place'):
                            d[o['place']['l']].append((bi, None, 'asm', t))
            self._defs = d
        return self._defs

    def whole_defs(self, l):
        """Definitions that assign the whole local (no projection on lhs)."""
        out = []
        for (bi, si, k, node) in self.defs.get(l, []):
            lhs = node['lhs'] if k in ('assign', 'setdiscr') else node.get('dest')
            if k == 'asm':
                out.append((bi, si, k, node))
                continue
            if lhs is not None and not lhs['p'] and k != 'setdiscr':
                out.append((bi, si, k, node))
        return out

    def reaching_defs(self, l, pos):
        """Definition sites (bb, idx|None) of local l that reach the read at pos ('bb:idx' / 'bb:T').
        idx None = call terminator. ('entry',) if the value on entry (parameter / undefined) reaches."""
        if pos is None:
            return None
        key = (l, pos)
        cache = self.__dict__.setdefault('_rdcache', {})
        if key in cache:
            return cache[key]
        bb, ix = pos.split(':')
        bb = int(bb)
        defs = {}
        for (b2, s2, k, node) in self.whole_defs(l):
            defs.setdefault(b2, []).append(s2)
        out = set()
        seen = set()

        def scan_block(b, upto):
            """last def of l in block b (terminator def wins over statement defs)."""
            ds = defs.get(b, [])
            if None in ds:
                return (b, None)
            st = [x for x in ds if x is not None]
            if st:
                return (b, max(st))
            return None
        upto = None if ix == 'T' else int(ix)
        if ix == 'T':
            # read by the terminator: all statements of the block come before it; the terminator's own dest does not
            d = None
            cands = [s2 for s2 in defs.get(bb, []) if s2 is not None]
            if cands:
                d = (bb, max(cands))
        else:
            cands = [s2 for s2 in defs.get(bb, []) if s2 is not None and s2 < upto]
            d = (bb, max(cands)) if cands else None
        if d is not None:
            out.add(d)
        else:
            stack = list(self.pred[bb])
            if bb == 0:
                out.add(('entry',))
            while stack:
                b = stack.pop()
                if b in seen:
                    continue
                seen.add(b)
                dd = scan_block(b, None)
                if dd is not None:
                    out.add(dd)
                    continue
                if b == 0:
                    out.add(('entry',))
                stack.extend(self.pred[b])
        res = frozenset(out)
        cache[key] = res
        return res

    def calls(self):
        """Yield (bb, term, Callee) for every direct call in reachable non-cleanup blocks."""
        for bi, b in enumerate(self.blocks):
            if b['cleanup']:
                continue
            t = b['term']
            if t['k'] in ('call', 'tailcall'):
                c = callee_of(t)
                if c is not None:
                    yield bi, t, Callee(c)

    def all_calls(self):
        for bi, b in enumerate(self.blocks):
            t = b['term']
            if t['k'] in ('call', 'tailcall'):
                c = callee_of(t)
                yield bi, t, (Callee(c) if c is not None else None)

    def uses_of_local(self, l):
        """All (bb, idx|None, node) whose operands/places mention local l (reads)."""
        out = []
        for bi, b in enumerate(self.blocks):
            for si, s in enumerate(b['stmts']):
                if s['k'] == 'assign' and _mentions(s['rv'], l):
                    out.append((bi, si, s))
                elif s['k'] == 'assign' and s['lhs']['p'] and (s['lhs']['l'] == l or _place_idx_mentions(s['lhs'], l)):
                    out.append((bi, si, s))
            t = b['term']
            if _term_mentions(t, l):
                out.append((bi, None, t))
        return out


def _place_idx_mentions(p, l):
    for e in p['p']:
        if isinstance(e, dict) and e.get('i') == l:
            return True
    return False


def _place_mentions(p, l):
    return p['l'] == l or _place_idx_mentions(p, l)


def _op_mentions(op, l):
    p = op_place(op)
    return p is not None and _place_mentions(p, l)


def _mentions(rv, l):
    r = rv['r']
    if r in ('use', 'repeat', 'cast', 'un'):
        return _op_mentions(rv['o'], l)
    if r in ('ref', 'rawptr', 'discr'):
        return _place_mentions(rv['p'], l)
    if r == 'bin':
        return _op_mentions(rv['a'], l) or _op_mentions(rv['b'], l)
    if r == 'agg':
        return any(_op_mentions(o, l) for o in rv['ops'])
    return False


def _term_mentions(t, l):
    k = t['k']
    if k == 'switch':
        return _op_mentions(t['discr'], l)
    if k in ('call', 'tailcall'):
        return _op_mentions(t['func'], l) or any(_op_mentions(a, l) for a in t['args'])
    if k == 'assert':
        return _op_mentions(t['cond'], l)
    if k == 'drop':
        return _place_mentions(t['place'], l)
    if k == 'asm':
        return any(('value' in o and _op_mentions(o['value'], l)) for o in t['operands'])
    return False


# --------------------------------------------------------------------------- facts

class Facts:
    def __init__(self, path, config='def'):
        with open(path) as f:
            self.d = json.load(f)
        self.config = config
        self.fns = [Fn(self, x) for x in self.d['fns']]
        self.by_path = {f.path: f for f in self.fns}
        self.by_key = defaultdict(list)
        for f in self.fns:
            self.by_key[f.key].append(f)
        self.adts = {a['path']: a for a in self.d['adts']}
        self.consts = {c['path']: c for c in self.d['consts']}
        self.impls = self.d['impls']
        self._cg = None

    def fn(self, key):
        """Unique function by key ('Type::method', '<Type as Trait>::method', or npath suffix)."""
        c = self.by_key.get(key)
        if c and len(c) == 1:
            return c[0]
        if c:
            raise KeyError('ambiguous key %s: %s' % (key, [x.path for x in c]))
        c = [f for f in self.fns if f.npath == key or f.npath.endswith('::' + key)]
        if len(c) == 1:
            return c[0]
        if not c:
            return None
        raise KeyError('ambiguous key %s: %s' % (key, [x.path for x in c]))

    def fns_where(self, pred):
        return [f for f in self.fns if pred(f)]

    def adt(self, name):
        c = [a for p, a in self.adts.items() if p == name or p.endswith('::' + name)]
        if len(c) == 1:
            return c[0]
        return None

    def closures_of(self, fn):
        return [f for f in self.fns if f.kind == 'closure' and f.d.get('parent') == fn.path]

    def const(self, name):
        c = [v for p, v in self.consts.items() if p == name or p.endswith('::' + name)]
        if len(c) == 1:
            return c[0]
        return None

    def impl_methods(self, trait_last, method):
        """All local fns that are `method` of an impl of a trait whose last segment is trait_last."""
        return [f for f in self.fns if f.impl and last_seg(f.impl.get('trait')) == trait_last and f.name == method]

    # ---- call graph
    def resolve_callee(self, c):
        """Local Fn objects a Callee may dispatch to (direct, resolved instance, or all impls of a
        local/std trait method when unresolved)."""
        out = []
        if c.d.get('local'):
            f = self.by_path.get(c.path)
            if f is not None and not c.trait:
                return [f]
            if f is not None:
                out.append(f)  # trait default body
        if c.resolved and c.d.get('resolved_local'):
            f = self.by_path.get(c.resolved)
            if f is not None:
                return [f]
        if c.trait and not c.resolved:
            # unresolved trait method call (generic receiver or dyn): all local impls
            tl = last_seg(c.trait)
            for f in self.fns:
                if f.impl and f.impl.get('trait') and last_seg(f.impl['trait']) == tl and f.name == c.name:
                    if f not in out:
                        out.append(f)
        return out

    def callgraph(self):
        if self._cg is None:
            cg = {}
            for f in self.fns:
                edges = []
                for bi, t, c in f.calls():
                    for g in self.resolve_callee(c):
                        edges.append((bi, g))
                    # closures passed as arguments are treated as called
                for bi, b in enumerate(f.blocks):
                    if b['cleanup']:
                        continue
                    for s in b['stmts']:
                        if s['k'] == 'assign' and s['rv']['r'] == 'agg' and s['rv'].get('kind') == 'closure':
                            g = self.by_path.get(s['rv']['closure'])
                            if g is not None:
                                edges.append((bi, g))
                        # reified fn pointers
                        if s['k'] == 'assign' and s['rv']['r'] == 'cast' and 'ReifyFnPointer' in s['rv']['kind']:
                            k = op_const(s['rv']['o'])
                            if k and k.get('fn'):
                                g = self.by_path.get(k['fn']['path'])
                                if g is not None:
                                    edges.append((bi, g))
                cg[f.path] = edges
            self._cg = cg
        return self._cg

    def reachable_fns(self, roots):
        cg = self.callgraph()
        seen = {}
        dq = deque((r, None) for r in roots)
        while dq:
            f, via = dq.popleft()
            if f.path in seen:
                continue
            seen[f.path] = via
            for bi, g in cg[f.path]:
                if g.path not in seen:
                    dq.append((g, f.path))
        return seen


# --------------------------------------------------------------------------- provenance (A2)

class Prov:
    """Backward provenance of operands as expression trees (tuples).

    Expr forms:
      ('const', ty, value)          ('fnconst', path)
      ('param', index, name)        ('local', l, name)     [multi-def local, not expanded]
      ('field', base, name)         ('deref', base)        ('index', base, idxexpr)
      ('downcast', base, variant)   ('ref', base)          ('discr', base)
      ('bin', op, a, b)             ('un', op, a)          ('cast', ty, a)
      ('call', npath, [args], term) ('agg', kind, [ops])   ('len', base)
      ('phi', l, [exprs])           [when expand_phi]
    """

    def __init__(self, fn, max_depth=40):
        self.fn = fn
        self.max_depth = max_depth

    def operand(self, op, depth=0, pos=None):
        k = op_const(op)
        if k is not None:
            if k.get('fn'):
                return ('fnconst', strip_generics(k['fn']['path']))
            v = k.get('v')
            if isinstance(v, str):
                try:
                    v = int(v)
                except ValueError:
                    pass
            if v is None and k.get('variant'):
                v = k['variant']
            return ('const', k['ty'], v if not isinstance(v, list) else tuple(v))
        p = op_place(op)
        if p is None:
            return ('unknown',)
        return self.place(p, depth, pos)

    def place(self, p, depth=0, pos=None):
        base = self.local(p['l'], depth, pos)
        for e in p['p']:
            if e == '*':
                if base[0] == 'ref':
                    base = base[1]
                else:
                    base = ('deref', base)
            elif isinstance(e, dict):
                if 'f' in e:
                    nm = e['n'] if e.get('n') is not None else str(e['f'])
                    # field of a known aggregate
                    if base[0] == 'agg' and e['f'] < len(base[2]):
                        base = base[2][e['f']]
                    else:
                        base = ('field', base, nm, last_seg(e.get('o')))
                elif 'i' in e:
                    base = ('index', base, self.local(e['i'], depth, pos))
                elif 'ci' in e:
                    base = ('index', base, ('const', 'usize', -e['ci'] if e.get('from_end') else e['ci']))
                elif 'dc' in e:
                    base = ('downcast', base, e.get('n') or e['dc'])
                elif 'sub' in e:
                    base = ('subslice', base, e['sub'], e['to'], e.get('from_end'))
            else:
                base = ('unknownproj', base)
        return base

    def _addr_taken_mut(self, l):
        """Local whose address is taken mutably (or raw): its value may change behind our back."""
        c = getattr(self.fn, '_atm', None)
        if c is None:
            c = set()
            for b in self.fn.blocks:
                for s in b['stmts']:
                    if s['k'] == 'assign' and s['rv']['r'] in ('ref', 'rawptr') and s['rv'].get('mut'):
                        p = s['rv']['p']
                        # &mut local / &mut local[..] / &mut local.f  (not through a deref)
                        if '*' not in p['p']:
                            c.add(p['l'])
            self.fn._atm = c
        return l in c

    def local(self, l, depth=0, pos=None):
        fn = self.fn
        if self._addr_taken_mut(l) and not (1 <= l <= fn.arg_count) and \
                fn.local_ty(l).startswith(('[', 'u', 'i', 'bool', '(')):
            return ('local', l, fn.local_name(l), pos)
        if 1 <= l <= fn.arg_count:
            # a parameter that is never reassigned as a whole
            if not fn.whole_defs(l):
                return ('param', l, fn.local_name(l))
        defs = fn.whole_defs(l)
        partial = [d for d in fn.defs.get(l, []) if d not in defs]
        if len(defs) == 1 and not partial and depth < self.max_depth:
            cache = self.__dict__.setdefault('_lcache', {})
            if l in cache:
                return cache[l]
            bi, si, k, node = defs[0]
            npos = '%d:%s' % (bi, si if si is not None else 'T')
            if k == 'assign':
                r = self.rvalue(node['rv'], depth + 1, npos)
                cache[l] = r
                return r
            if k == 'call':
                c = callee_of(node)
                name = strip_generics(c['path']) if c else '<indirect>'
                args = [self.operand(a, depth + 1, npos) for a in node['args']]
                r = self._simplify_call(name, args, node, c)
                cache[l] = r
                return r
        return ('local', l, fn.local_name(l), pos)

    def def_exprs(self, l):
        """[(bb, expr)] for every whole definition of local l (one level, operands fully resolved)."""
        out = []
        for (bi, si, k, node) in self.fn.whole_defs(l):
            npos = '%d:%s' % (bi, si if si is not None else 'T')
            if k == 'assign':
                out.append((bi, self.rvalue(node['rv'], 1, npos)))
            elif k == 'call':
                c = callee_of(node)
                name = strip_generics(c['path']) if c else '<indirect>'
                args = [self.operand(a, 1, npos) for a in node['args']]
                out.append((bi, self._simplify_call(name, args, node, c)))
        return out

    def def_expr_at(self, l, bi, si):
        """Expression of the definition of l at statement (bi, si) (si None = call terminator)."""
        for (b2, s2, k, node) in self.fn.whole_defs(l):
            if b2 == bi and s2 == si:
                npos = '%d:%s' % (bi, si if si is not None else 'T')
                if k == 'assign':
                    return self.rvalue(node['rv'], 1, npos)
                if k == 'call':
                    c = callee_of(node)
                    name = strip_generics(c['path']) if c else '<indirect>'
                    return self._simplify_call(name, [self.operand(a, 1, npos) for a in node['args']], node, c)
        return None

    def expand(self, e, depth=0, seen=None):
        """All alternative expressions of e with multi-def locals expanded one level per local
        (bounded): returns list of (expr, [def blocks])."""
        seen = seen or set()
        if e[0] == 'local' and e[1] not in seen and depth < 3:
            outs = []
            for bi, de in self.def_exprs(e[1]):
                for (x, bs) in self.expand(de, depth + 1, seen | {e[1]}):
                    outs.append((x, [bi] + bs))
            return outs or [(e, [])]
        return [(e, [])]

    def _simplify_call(self, name, args, node, c):
        # transparent wrappers
        if name.endswith('Deref::deref') or name.endswith('DerefMut::deref_mut'):
            a = args[0]
            if a[0] == 'ref':
                a = a[1]
            return ('ref', ('deref', a))
        if name.endswith('Try::branch'):
            return ('trybranch', args[0])
        if name.endswith('convert::From::from') or name.endswith('convert::Into::into'):
            return ('cast', 'from', args[0])
        if name.endswith('Clone::clone') and c and (c.get('self_ty') or '').startswith(('u', 'i', 'bool')):
            a = args[0]
            return a[1] if a[0] == 'ref' else ('deref', a)
        return ('call', name, args, node)

    def rvalue(self, rv, depth, pos=None):
        r = rv['r']
        if r == 'use':
            return self.operand(rv['o'], depth, pos)
        if r == 'ref' or r == 'rawptr':
            inner = self.place(rv['p'], depth, pos)
            if inner[0] == 'deref':
                # &*x == x (reborrow)
                return inner[1]
            return ('ref', inner)
        if r == 'bin':
            return ('bin', rv['op'], self.operand(rv['a'], depth, pos), self.operand(rv['b'], depth, pos))
        if r == 'un':
            if rv['op'] == 'PtrMetadata':
                return ('len', self.operand(rv['o'], depth, pos))
            return ('un', rv['op'], self.operand(rv['o'], depth, pos))
        if r == 'cast':
            return ('cast', rv['ty'], self.operand(rv['o'], depth, pos))
        if r == 'discr':
            return ('discr', self.place(rv['p'], depth, pos))
        if r == 'agg':
            kind = rv.get('kind')
            if kind == 'adt':
                kind = 'adt:%s::%s' % (last_seg(rv['adt']), rv['variant_name'])
            return ('agg', kind, [self.operand(o, depth, pos) for o in rv['ops']])
        if r == 'repeat':
            return ('repeat', self.operand(rv['o'], depth, pos), rv.get('n'))
        return ('unknown',)


def expr_walk(e):
    """Pre-order walk over sub-expressions."""
    stack = [e]
    while stack:
        x = stack.pop()
        if not isinstance(x, tuple):
            continue
        yield x
        for y in x[1:]:
            if isinstance(y, tuple):
                stack.append(y)
            elif isinstance(y, list):
                stack.extend(y)


_ES_CACHE = {}


def expr_str(e, depth=0):
    if not isinstance(e, tuple) or depth > 12:
        return '…' if depth > 12 else str(e)
    ck = (id(e), depth)
    hit = _ES_CACHE.get(ck)
    if hit is not None and hit[0] is e:
        return hit[1]
    r = _expr_str(e, depth)
    if len(_ES_CACHE) > 400000:
        _ES_CACHE.clear()
    _ES_CACHE[ck] = (e, r)
    return r


def _expr_str(e, depth=0):
    k = e[0]
    s = lambda x: expr_str(x, depth + 1)
    if k == 'const':
        return str(e[2])
    if k == 'param':
        return e[2]
    if k == 'local':
        return e[2]
    if k == 'field':
        return '%s.%s' % (s(e[1]), e[2])
    if k == 'deref':
        b = s(e[1])
        return b if e[1][0] in ('param',) else '*' + b
    if k == 'ref':
        return '&' + s(e[1])
    if k == 'index':
        return '%s[%s]' % (s(e[1]), s(e[2]))
    if k == 'downcast':
        return '(%s as %s)' % (s(e[1]), e[2])
    if k == 'bin':
        return '(%s %s %s)' % (s(e[2]), e[1], s(e[3]))
    if k == 'un':
        return '%s(%s)' % (e[1], s(e[2]))
    if k == 'cast':
        return '(%s as %s)' % (s(e[2]), e[1])
    if k == 'call':
        return '%s(%s)' % (e[1].split('::')[-1], ', '.join(s(a) for a in e[2]))
    if k == 'trybranch':
        return '%s?' % s(e[1])
    if k == 'len':
        return 'len(%s)' % s(e[1])
    if k == 'agg':
        return '%s{%s}' % (e[1], ', '.join(s(a) for a in e[2]))
    if k == 'discr':
        return 'discr(%s)' % s(e[1])
    if k == 'fnconst':
        return e[1]
    return k


def self_field_of(e):
    """If expr is (a deref chain of) a field path rooted at param 1 (self), return tuple of names."""
    names = []
    while True:
        if e[0] == 'field':
            names.append(e[2])
            e = e[1]
        elif e[0] in ('deref', 'ref'):
            e = e[1]
        elif e[0] == 'index':
            names.append('[]')
            e = e[1]
        elif e[0] == 'downcast':
            e = e[1]
        elif e[0] == 'param' and e[1] == 1:
            return tuple(reversed(names))
        else:
            return None


def expr_roots(e):
    """Leaf roots of an expression: params, locals, consts, calls (call args are descended too)."""
    for x in expr_walk(e):
        if x[0] in ('param', 'local', 'const', 'call', 'fnconst'):
            yield x


def expr_has_call(e, *names):
    for x in expr_walk(e):
        if x[0] == 'call':
            for n in names:
                if x[1] == n or x[1].endswith('::' + n):
                    return x
    return None


# --------------------------------------------------------------------------- path helpers

def reachable_without_edge(fn, target, edge):
    """True if `target` block is reachable from entry when CFG edge (src,dst) is removed."""
    src, dst = edge
    seen = {0}
    dq = deque([0])
    while dq:
        b = dq.popleft()
        if b == target:
            return True
        for s in fn.succ[b]:
            if b == src and s == dst:
                continue
            if s not in seen:
                seen.add(s)
                dq.append(s)
    return target in seen


def switch_edges(fn, bb):
    """For a bool switch: (false_target, true_target). MIR: arms [[0, f]], otherwise t."""
    t = fn.blocks[bb]['term']
    if t['k'] != 'switch':
        return None
    arms = {a[0]: a[1] for a in t['arms']}
    if t.get('discr_ty') == 'bool':
        if '0' in arms:
            return (arms['0'], t['otherwise'])
    return None


def guards_of(fn, blk, prov=None):
    """Yield (switch_bb, polarity(bool), cond_expr) for every bool switch S such that `blk` is
    reachable only through one of S's two edges (edge-dominance)."""
    prov = prov or Prov(fn)
    for s in fn.reachable:
        if s == blk:
            continue
        e = switch_edges(fn, s)
        if e is None or e[0] == e[1]:
            continue
        if not fn.dominates(s, blk):
            continue
        f, t = e
        need_t = not reachable_without_edge(fn, blk, (s, t))
        need_f = not reachable_without_edge(fn, blk, (s, f))
        if need_t == need_f:
            continue
        cond = prov.operand(fn.blocks[s]['term']['discr'], 0, '%d:T' % s)
        yield s, need_t, cond


def norm_cmp(e, pol=True):
    """Normalise a comparison expr with polarity into (op, a, b) with op in Lt/Le/Eq/Ne (a op b),
    looking through Not."""
    while e[0] == 'un' and e[1] == 'Not':
        e = e[2]
        pol = not pol
    if e[0] != 'bin':
        return None
    op, a, b = e[1], e[2], e[3]
    neg = {'Lt': 'Ge', 'Le': 'Gt', 'Gt': 'Le', 'Ge': 'Lt', 'Eq': 'Ne', 'Ne': 'Eq'}
    if op not in neg:
        return None
    if not pol:
        op = neg[op]
    if op == 'Gt':
        op, a, b = 'Lt', b, a
    elif op == 'Ge':
        op, a, b = 'Le', b, a
    return (op, a, b)


def control_conditions(fn, blk, prov=None):
    """Conditions of the bool switches the execution of `blk` depends on within one loop iteration:
    switches S that reach blk without taking a back edge and that blk does not post-dominate.
    Yields (switch_bb, cond_expr). Over-approximates control dependence (includes `a || b` chains)."""
    prov = prov or Prov(fn)
    back = set()
    for t in fn.reachable:
        for h in fn.succ[t]:
            if fn.dominates(h, t):
                back.add((t, h))
    # reverse reachability to blk without back edges
    can = {blk}
    stack = [blk]
    while stack:
        x = stack.pop()
        for p in fn.pred[x]:
            if (p, x) in back or p in can:
                continue
            can.add(p)
            stack.append(p)
    for s in can:
        if s == blk:
            continue
        e = switch_edges(fn, s)
        if e is None or e[0] == e[1]:
            continue
        # blk must not be reached on every forward path from s: one of the edges avoids it
        reach_f = [tgt in can or tgt == blk for tgt in e]
        if all(reach_f):
            # both edges can reach blk; still a dependence unless blk post-dominates s
            if blk in fn.pdom.get(s, ()):
                continue
        yield s, prov.operand(fn.blocks[s]['term']['discr'], 0, '%d:T' % s)
