#!/bin/bash
# usage: run_mirfacts.sh <crate-dir> <out-dir> <crate-name> [cargo feature flags...]
# Runs the mirfacts driver as RUSTC_WORKSPACE_WRAPPER over <crate-dir> in a fresh target dir
# (cargo skips the wrapper on a warm one) and leaves <out-dir>/<crate-name>.json.
set -euo pipefail
SRC="$1"; OUT="$2"; CRATE="$3"; shift 3
HERE="$(cd "$(dirname "$0")" && pwd)"
DRV="$HERE/mirfacts/target/debug/mirfacts"
[ -x "$DRV" ] || { echo "mirfacts driver not built (run setup)"; exit 2; }
T="$(mktemp -d /tmp/mirfacts-target.XXXXXX)"
trap 'rm -rf "$T"' EXIT
mkdir -p "$OUT"
rm -f "$OUT/$CRATE.json"
cd "$SRC"
SYSROOT="$(rustc +nightly --print sysroot)"
LD_LIBRARY_PATH="$SYSROOT/lib" RUSTFLAGS="-Zmir-opt-level=0 -Awarnings" \
  RUSTC_WORKSPACE_WRAPPER="$DRV" MIRFACTS_OUT="$OUT" MIRFACTS_CRATE="$CRATE" \
  CARGO_NET_OFFLINE=true CARGO_TARGET_DIR="$T" \
  cargo +nightly check --offline --lib "$@" >"$OUT/$CRATE.log" 2>&1 || { tail -40 "$OUT/$CRATE.log"; exit 3; }
[ -s "$OUT/$CRATE.json" ] || { echo "no facts produced"; exit 4; }
