//! mirfacts: a rustc_private driver that dumps type-checked MIR facts of one crate as JSON.
//!
//! Used as RUSTC_WORKSPACE_WRAPPER: argv = [self, real-rustc, rustc args...]. For every crate other
//! than $MIRFACTS_CRATE the compilation proceeds untouched; for the target crate the facts are
//! written (one write per process) to $MIRFACTS_OUT/<crate>.json after analysis.
#![feature(rustc_private)]
#![allow(clippy::all)]

extern crate rustc_abi;
extern crate rustc_ast;
extern crate rustc_driver;
extern crate rustc_hir;
extern crate rustc_interface;
extern crate rustc_middle;
extern crate rustc_span;

mod json;
use json::J;

use rustc_driver::Compilation;
use rustc_hir::def::DefKind;
use rustc_hir::def_id::{DefId, LocalDefId, LOCAL_CRATE};
use rustc_interface::interface::Compiler;
use rustc_middle::mir::interpret::{GlobalAlloc, Scalar};
use rustc_middle::mir::*;
use rustc_middle::ty::{self, Ty, TyCtxt, TypingEnv};
use rustc_span::Span;

struct Cb {
    target: String,
    out: String,
}

impl rustc_driver::Callbacks for Cb {
    fn after_analysis<'tcx>(&mut self, _c: &Compiler, tcx: TyCtxt<'tcx>) -> Compilation {
        let name = tcx.crate_name(LOCAL_CRATE).to_string();
        if name != self.target {
            return Compilation::Continue;
        }
        let facts = dump_crate(tcx);
        let mut s = String::with_capacity(1 << 24);
        facts.write(&mut s);
        let path = format!("{}/{}.json", self.out, name);
        std::fs::write(&path, s).expect("write facts");
        Compilation::Continue
    }
}

fn main() {
    let mut args: Vec<String> = std::env::args().collect();
    // RUSTC_WORKSPACE_WRAPPER passes the real rustc as argv[1]
    if args.len() > 1 && (args[1].ends_with("rustc") || args[1].contains("/rustc")) {
        args.remove(1);
    }
    let target = std::env::var("MIRFACTS_CRATE").unwrap_or_else(|_| "lzma_rust2".to_string());
    let out = std::env::var("MIRFACTS_OUT").unwrap_or_else(|_| ".".to_string());
    let mut cb = Cb { target, out };
    rustc_driver::run_compiler(&args, &mut cb);
}

fn span_str(tcx: TyCtxt<'_>, sp: Span) -> String {
    let sm = tcx.sess.source_map();
    let lo = sm.lookup_char_pos(sp.lo());
    let hi = sm.lookup_char_pos(sp.hi());
    let file = match &lo.file.name {
        rustc_span::FileName::Real(r) => match r.local_path() {
            Some(p) => p.display().to_string(),
            None => format!("{:?}", lo.file.name),
        },
        other => format!("{:?}", other),
    };
    format!("{}:{}:{}-{}:{}", file, lo.line, lo.col.0 + 1, hi.line, hi.col.0 + 1)
}

fn ty_str<'tcx>(ty: Ty<'tcx>) -> String {
    format!("{}", ty)
}

fn dump_crate<'tcx>(tcx: TyCtxt<'tcx>) -> J {
    let mut fns = Vec::new();
    let mut keys: Vec<LocalDefId> = tcx.mir_keys(()).iter().copied().collect();
    keys.sort_by_key(|d| tcx.def_path_str(d.to_def_id()));
    for did in keys {
        let kind = tcx.def_kind(did);
        match kind {
            DefKind::Fn | DefKind::AssocFn | DefKind::Closure => {}
            _ => continue,
        }
        fns.push(dump_fn(tcx, did, kind));
    }
    let mut adts = Vec::new();
    let mut consts = Vec::new();
    let mut impls = Vec::new();
    let items = tcx.hir_crate_items(());
    for ld in items.definitions() {
        let did = ld.to_def_id();
        match tcx.def_kind(did) {
            DefKind::Struct | DefKind::Enum | DefKind::Union => adts.push(dump_adt(tcx, did)),
            DefKind::Const { .. } | DefKind::AssocConst { .. } => {
                if let Some(j) = dump_const_item(tcx, ld) {
                    consts.push(j);
                }
            }
            DefKind::Impl { .. } => impls.push(dump_impl(tcx, did)),
            _ => {}
        }
    }
    J::obj(vec![
        ("crate", J::s(tcx.crate_name(LOCAL_CRATE).as_str())),
        ("fns", J::Arr(fns)),
        ("adts", J::Arr(adts)),
        ("consts", J::Arr(consts)),
        ("impls", J::Arr(impls)),
    ])
}

fn dump_impl<'tcx>(tcx: TyCtxt<'tcx>, did: DefId) -> J {
    let self_ty = tcx.type_of(did).instantiate_identity().skip_norm_wip();
    let tr = tcx.impl_opt_trait_ref(did).map(|t| {
        let t = t.instantiate_identity().skip_norm_wip();
        (tcx.def_path_str(t.def_id), format!("{:?}", t))
    });
    let mut items = Vec::new();
    for it in tcx.associated_items(did).in_definition_order() {
        items.push(J::s(&tcx.def_path_str(it.def_id)));
    }
    let is_unsafe = match tcx.hir_node_by_def_id(did.expect_local()) {
        rustc_hir::Node::Item(item) => match &item.kind {
            rustc_hir::ItemKind::Impl(i) => match i.of_trait {
                Some(tr) => matches!(tr.safety, rustc_hir::Safety::Unsafe),
                None => false,
            },
            _ => false,
        },
        _ => false,
    };
    J::obj(vec![
        ("path", J::s(&tcx.def_path_str(did))),
        ("self_ty", J::s(&ty_str(self_ty))),
        ("self_adt", adt_path_of(tcx, self_ty)),
        ("trait", match &tr { Some((p, _)) => J::s(p), None => J::Null }),
        ("trait_full", match &tr { Some((_, p)) => J::s(p), None => J::Null }),
        ("unsafe", J::Bool(is_unsafe)),
        ("items", J::Arr(items)),
        ("span", J::s(&span_str(tcx, tcx.def_span(did)))),
    ])
}

fn adt_path_of<'tcx>(tcx: TyCtxt<'tcx>, ty: Ty<'tcx>) -> J {
    match ty.kind() {
        ty::Adt(def, _) => J::s(&tcx.def_path_str(def.did())),
        ty::Ref(_, t, _) => adt_path_of(tcx, *t),
        _ => J::Null,
    }
}

fn dump_adt<'tcx>(tcx: TyCtxt<'tcx>, did: DefId) -> J {
    let def = tcx.adt_def(did);
    let mut variants = Vec::new();
    for (vi, v) in def.variants().iter_enumerated() {
        let mut fields = Vec::new();
        for f in v.fields.iter() {
            let fty = tcx.type_of(f.did).instantiate_identity().skip_norm_wip();
            fields.push(J::obj(vec![
                ("name", J::s(f.name.as_str())),
                ("ty", J::s(&ty_str(fty))),
                ("pub", J::Bool(tcx.visibility(f.did).is_public())),
            ]));
        }
        let discr = if def.is_enum() {
            J::s(&format!("{}", def.discriminant_for_variant(tcx, vi).val))
        } else {
            J::Null
        };
        variants.push(J::obj(vec![
            ("name", J::s(v.name.as_str())),
            ("idx", J::n(vi.as_u32() as i128)),
            ("discr", discr),
            ("fields", J::Arr(fields)),
        ]));
    }
    // layout size of monomorphic ADTs (for allocation-size reasoning: elements * size)
    let size = if tcx.generics_of(did).requires_monomorphization(tcx) {
        J::Null
    } else {
        let ty = tcx.type_of(did).instantiate_identity().skip_norm_wip();
        match tcx.layout_of(ty::TypingEnv::fully_monomorphized().as_query_input(ty)) {
            Ok(l) => J::n(l.size.bytes() as i128),
            Err(_) => J::Null,
        }
    };
    J::obj(vec![
        ("path", J::s(&tcx.def_path_str(did))),
        ("size", size),
        ("kind", J::s(if def.is_enum() { "enum" } else if def.is_union() { "union" } else { "struct" })),
        ("pub", J::Bool(tcx.visibility(did).is_public())),
        ("variants", J::Arr(variants)),
        ("span", J::s(&span_str(tcx, tcx.def_span(did)))),
    ])
}

fn dump_const_item<'tcx>(tcx: TyCtxt<'tcx>, ld: LocalDefId) -> Option<J> {
    let did = ld.to_def_id();
    let generics = tcx.generics_of(did);
    if generics.requires_monomorphization(tcx) {
        return None;
    }
    let ty = tcx.type_of(did).instantiate_identity().skip_norm_wip();
    let val = tcx.const_eval_poly(did).ok()?;
    let v = const_value_json(tcx, val, ty);
    Some(J::obj(vec![
        ("path", J::s(&tcx.def_path_str(did))),
        ("ty", J::s(&ty_str(ty))),
        ("val", v),
        ("span", J::s(&span_str(tcx, tcx.def_span(did)))),
    ]))
}

fn is_u8(ty: Ty<'_>) -> bool {
    matches!(ty.kind(), ty::Uint(ty::UintTy::U8))
}

fn scalar_int_json<'tcx>(ty: Ty<'tcx>, s: Scalar) -> J {
    match s {
        Scalar::Int(i) => {
            let size = i.size();
            let bits = i.to_bits(size);
            let v: i128 = match ty.kind() {
                ty::Int(_) => size.sign_extend(bits) as i128,
                _ => bits as i128,
            };
            if bits > i128::MAX as u128 && !matches!(ty.kind(), ty::Int(_)) {
                J::s(&format!("{}", bits))
            } else {
                J::n(v)
            }
        }
        _ => J::Null,
    }
}

/// Best-effort rendering of an evaluated constant: integers/bools/chars as numbers, u8 arrays,
/// &[u8;N], &[u8] and &str as byte lists, everything else null.
fn const_value_json<'tcx>(tcx: TyCtxt<'tcx>, val: ConstValue, ty: Ty<'tcx>) -> J {
    match val {
        ConstValue::Scalar(s) => match ty.kind() {
            ty::Bool | ty::Char | ty::Int(_) | ty::Uint(_) => scalar_int_json(ty, s),
            ty::Ref(_, inner, _) => {
                // pointer to array
                if let (Scalar::Ptr(ptr, _), ty::Array(elem, len)) = (s, inner.kind()) {
                    let n = len.try_to_target_usize(tcx);
                    let esz = elem_size(*elem);
                    if let (Some(n), Some(esz)) = (n, esz) {
                        let (prov, off) = ptr.into_raw_parts();
                        return read_alloc_elems(tcx, prov.alloc_id(), off.bytes(), n, esz, *elem);
                    }
                }
                // pointer to a plain struct of integers (e.g. a promoted `1..=256`): list its fields
                if let (Scalar::Ptr(ptr, _), ty::Adt(def, args)) = (s, inner.kind()) {
                    if def.is_struct() {
                        if let Ok(layout) = tcx.layout_of(ty::TypingEnv::fully_monomorphized().as_query_input(*inner)) {
                            let (prov, off) = ptr.into_raw_parts();
                            let mut fields = Vec::new();
                            for (i, f) in def.non_enum_variant().fields.iter().enumerate() {
                                let fty = f.ty(tcx, args);
                                let fo = layout.fields.offset(i).bytes();
                                let v = match elem_size(fty) {
                                    Some(esz) => match read_alloc_elems(tcx, prov.alloc_id(), off.bytes() + fo, 1, esz, fty) {
                                        J::Arr(mut xs) if xs.len() == 1 => xs.remove(0),
                                        _ => J::Null,
                                    },
                                    None => J::Null,
                                };
                                fields.push(J::obj(vec![("name", J::s(f.name.as_str())), ("v", v)]));
                            }
                            return J::obj(vec![("struct", J::s(&tcx.def_path_str(def.did()))), ("fields", J::Arr(fields))]);
                        }
                    }
                }
                J::Null
            }
            _ => J::Null,
        },
        ConstValue::ZeroSized => J::Null,
        ConstValue::Slice { .. } => match val.try_get_slice_bytes_for_diagnostics(tcx) {
            Some(b) => J::Arr(b.iter().map(|x| J::n(*x as i128)).collect()),
            None => J::Null,
        },
        ConstValue::Indirect { alloc_id, offset } => {
            if let ty::Array(elem, len) = ty.kind() {
                if let (Some(n), Some(esz)) = (len.try_to_target_usize(tcx), elem_size(*elem)) {
                    return read_alloc_elems(tcx, alloc_id, offset.bytes(), n, esz, *elem);
                }
            }
            J::Null
        }
    }
}

fn elem_size(ty: Ty<'_>) -> Option<u64> {
    match ty.kind() {
        ty::Uint(ty::UintTy::U8) | ty::Int(ty::IntTy::I8) | ty::Bool => Some(1),
        ty::Uint(ty::UintTy::U16) | ty::Int(ty::IntTy::I16) => Some(2),
        ty::Uint(ty::UintTy::U32) | ty::Int(ty::IntTy::I32) => Some(4),
        ty::Uint(ty::UintTy::U64) | ty::Int(ty::IntTy::I64) => Some(8),
        ty::Uint(ty::UintTy::Usize) | ty::Int(ty::IntTy::Isize) => Some(8),
        _ => None,
    }
}

fn read_alloc_elems<'tcx>(
    tcx: TyCtxt<'tcx>,
    alloc_id: rustc_middle::mir::interpret::AllocId,
    off: u64,
    n: u64,
    esz: u64,
    elem: Ty<'tcx>,
) -> J {
    if n > 4096 {
        return J::Null;
    }
    let ga = match tcx.try_get_global_alloc(alloc_id) {
        Some(g) => g,
        None => return J::Null,
    };
    let alloc = match ga {
        GlobalAlloc::Memory(m) => m,
        _ => return J::Null,
    };
    let a = alloc.inner();
    let start = off as usize;
    let end = start + (n * esz) as usize;
    if end > a.len() {
        return J::Null;
    }
    let bytes = a.inspect_with_uninit_and_ptr_outside_interpreter(start..end);
    let signed = matches!(elem.kind(), ty::Int(_));
    let mut out = Vec::new();
    for i in 0..n as usize {
        let chunk = &bytes[i * esz as usize..(i + 1) * esz as usize];
        let mut v: u128 = 0;
        for (k, b) in chunk.iter().enumerate() {
            v |= (*b as u128) << (8 * k);
        }
        let vi: i128 = if signed {
            let shift = 128 - 8 * esz as u32;
            ((v << shift) as i128) >> shift
        } else {
            v as i128
        };
        out.push(J::n(vi));
    }
    J::Arr(out)
}

fn dump_fn<'tcx>(tcx: TyCtxt<'tcx>, ld: LocalDefId, kind: DefKind) -> J {
    let did = ld.to_def_id();
    let body: &Body<'tcx> = tcx.optimized_mir(did);
    let tenv = TypingEnv::post_analysis(tcx, did);
    let mut o: Vec<(&'static str, J)> = Vec::new();
    o.push(("path", J::s(&tcx.def_path_str(did))));
    o.push(("name", match tcx.opt_item_name(did) { Some(n) => J::s(n.as_str()), None => J::Null }));
    o.push(("kind", J::s(match kind { DefKind::Fn => "fn", DefKind::AssocFn => "assoc", _ => "closure" })));
    o.push(("span", J::s(&span_str(tcx, body.span))));
    o.push(("from_expansion", J::Bool(body.span.from_expansion())));
    if matches!(kind, DefKind::Fn | DefKind::AssocFn) {
        o.push(("pub", J::Bool(tcx.visibility(did).is_public())));
        let sig = tcx.fn_sig(did).instantiate_identity().skip_norm_wip().skip_binder();
        o.push(("unsafe", J::Bool(matches!(sig.safety(), rustc_hir::Safety::Unsafe))));
        o.push(("inputs", J::Arr(sig.inputs().iter().map(|t| J::s(&ty_str(*t))).collect())));
        o.push(("output", J::s(&ty_str(sig.output()))));
    } else {
        o.push(("parent", J::s(&tcx.def_path_str(tcx.typeck_root_def_id(did)))));
    }
    // enclosing impl
    if let Some(imp) = tcx.impl_of_assoc(did) {
        let self_ty = tcx.type_of(imp).instantiate_identity().skip_norm_wip();
        let tr = tcx.impl_opt_trait_ref(imp).map(|t| tcx.def_path_str(t.instantiate_identity().skip_norm_wip().def_id));
        o.push(("impl", J::obj(vec![
            ("self_ty", J::s(&ty_str(self_ty))),
            ("self_adt", adt_path_of(tcx, self_ty)),
            ("trait", match tr { Some(t) => J::s(&t), None => J::Null }),
        ])));
    } else if let Some(tr) = tcx.trait_of_assoc(did) {
        o.push(("trait_default", J::s(&tcx.def_path_str(tr))));
    }
    let cg = tcx.codegen_fn_attrs(did);
    let tf: Vec<J> = cg.target_features.iter().map(|f| J::s(f.name.as_str())).collect();
    o.push(("target_features", J::Arr(tf)));
    o.push(("arg_count", J::n(body.arg_count as i128)));
    // locals
    let mut names: Vec<Option<String>> = vec![None; body.local_decls.len()];
    let mut dbg = Vec::new();
    for v in &body.var_debug_info {
        match &v.value {
            VarDebugInfoContents::Place(p) => {
                if p.projection.is_empty() {
                    names[p.local.as_usize()] = Some(v.name.to_string());
                }
                dbg.push(J::obj(vec![("name", J::s(v.name.as_str())), ("place", place_json(tcx, body, p.as_ref()))]));
            }
            VarDebugInfoContents::Const(_) => {}
        }
    }
    o.push(("debug", J::Arr(dbg)));
    let mut locals = Vec::new();
    for (l, d) in body.local_decls.iter_enumerated() {
        locals.push(J::obj(vec![
            ("ty", J::s(&ty_str(d.ty))),
            ("name", match &names[l.as_usize()] { Some(n) => J::s(n), None => J::Null }),
            ("mut", J::Bool(d.mutability.is_mut())),
            ("adt", adt_path_of(tcx, d.ty)),
        ]));
    }
    o.push(("locals", J::Arr(locals)));
    // blocks
    let mut blocks = Vec::new();
    for (_bb, data) in body.basic_blocks.iter_enumerated() {
        let mut stmts = Vec::new();
        for st in &data.statements {
            if let Some(j) = stmt_json(tcx, body, tenv, st) {
                stmts.push(j);
            }
        }
        let term = data.terminator();
        blocks.push(J::obj(vec![
            ("cleanup", J::Bool(data.is_cleanup)),
            ("stmts", J::Arr(stmts)),
            ("term", term_json(tcx, body, tenv, term)),
        ]));
    }
    o.push(("blocks", J::Arr(blocks)));
    J::obj(o)
}

fn line_of(tcx: TyCtxt<'_>, sp: Span) -> J {
    let sm = tcx.sess.source_map();
    // use the outermost user-written span
    let sp = sp.source_callsite();
    let lo = sm.lookup_char_pos(sp.lo());
    J::n(lo.line as i128)
}

fn place_json<'tcx>(tcx: TyCtxt<'tcx>, body: &Body<'tcx>, p: PlaceRef<'tcx>) -> J {
    let mut proj = Vec::new();
    let mut pty = rustc_middle::mir::PlaceTy::from_ty(body.local_decls[p.local].ty);
    for elem in p.projection.iter() {
        let j = match elem {
            ProjectionElem::Deref => J::s("*"),
            ProjectionElem::Field(f, fty) => {
                let mut name = J::Null;
                let mut owner = J::Null;
                if let ty::Adt(def, _) = pty.ty.kind() {
                    owner = J::s(&tcx.def_path_str(def.did()));
                    let vi = pty.variant_index.unwrap_or(rustc_abi::FIRST_VARIANT);
                    if (vi.as_usize()) < def.variants().len() {
                        let v = def.variant(vi);
                        if f.as_usize() < v.fields.len() {
                            name = J::s(v.fields[*f].name.as_str());
                        }
                    }
                }
                J::obj(vec![("f", J::n(f.as_u32() as i128)), ("n", name), ("o", owner), ("ty", J::s(&ty_str(*fty)))])
            }
            ProjectionElem::Index(l) => J::obj(vec![("i", J::n(l.as_u32() as i128))]),
            ProjectionElem::ConstantIndex { offset, min_length, from_end } => J::obj(vec![
                ("ci", J::n(*offset as i128)),
                ("min", J::n(*min_length as i128)),
                ("from_end", J::Bool(*from_end)),
            ]),
            ProjectionElem::Subslice { from, to, from_end } => J::obj(vec![
                ("sub", J::n(*from as i128)),
                ("to", J::n(*to as i128)),
                ("from_end", J::Bool(*from_end)),
            ]),
            ProjectionElem::Downcast(name, vi) => J::obj(vec![
                ("dc", J::n(vi.as_u32() as i128)),
                ("n", match name { Some(n) => J::s(n.as_str()), None => J::Null }),
            ]),
            _ => J::s("?"),
        };
        proj.push(j);
        pty = pty.projection_ty(tcx, *elem);
    }
    J::obj(vec![("l", J::n(p.local.as_u32() as i128)), ("p", J::Arr(proj)), ("ty", J::s(&ty_str(pty.ty)))])
}

fn const_json<'tcx>(tcx: TyCtxt<'tcx>, tenv: TypingEnv<'tcx>, c: &ConstOperand<'tcx>) -> J {
    let ty = c.const_.ty();
    let mut o: Vec<(&'static str, J)> = vec![("ty", J::s(&ty_str(ty)))];
    match ty.kind() {
        ty::FnDef(def_id, args) => {
            o.push(("fn", callee_json(tcx, tenv, *def_id, args)));
        }
        ty::Closure(def_id, _) => {
            o.push(("closure", J::s(&tcx.def_path_str(*def_id))));
        }
        _ => {
            let mut val = J::Null;
            match ty.kind() {
                ty::Bool | ty::Char | ty::Int(_) | ty::Uint(_) => {
                    if let Some(si) = c.const_.try_eval_scalar_int(tcx, tenv) {
                        val = scalar_int_json(ty, Scalar::Int(si));
                    }
                }
                _ => {
                    let generic = match c.const_ {
                        Const::Unevaluated(uv, _) => uv.args.iter().any(|a| a.has_param()),
                        _ => false,
                    };
                    let _ = generic;
                    if let Ok(cv) = c.const_.eval(tcx, tenv, c.span) {
                        val = const_value_json(tcx, cv, ty);
                    }
                }
            }
            o.push(("v", val));
            if let Const::Unevaluated(uv, _) = c.const_ {
                if uv.promoted.is_none() {
                    o.push(("item", J::s(&tcx.def_path_str(uv.def))));
                } else {
                    o.push(("promoted", J::Bool(true)));
                    // a promoted `&Enum::Variant`: name the variant (e.g. &ErrorKind::Interrupted)
                    if let Some(p) = uv.promoted {
                        if uv.def.is_local() {
                            let bodies = tcx.promoted_mir(uv.def);
                            if p.as_usize() < bodies.len() {
                                for bb in bodies[p].basic_blocks.iter() {
                                    for st in &bb.statements {
                                        if let StatementKind::Assign(b) = &st.kind {
                                            if let Rvalue::Aggregate(k, _) = &b.1 {
                                                if let AggregateKind::Adt(did, vi, _, _, _) = &**k {
                                                    let def = tcx.adt_def(*did);
                                                    if def.is_enum() {
                                                        let nm = format!("{}::{}", tcx.def_path_str(*did), def.variant(*vi).name);
                                                        o.push(("variant", J::s(&nm)));
                                                    }
                                                }
                                            }
                                        }
                                    }
                                }
                            }
                        }
                    }
                }
            }
        }
    }
    J::obj(vec![("k", J::obj(o))])
}

use rustc_middle::ty::TypeVisitableExt;

fn callee_json<'tcx>(
    tcx: TyCtxt<'tcx>,
    tenv: TypingEnv<'tcx>,
    def_id: DefId,
    args: ty::GenericArgsRef<'tcx>,
) -> J {
    let mut o: Vec<(&'static str, J)> = Vec::new();
    o.push(("path", J::s(&tcx.def_path_str(def_id))));
    o.push(("name", match tcx.opt_item_name(def_id) { Some(n) => J::s(n.as_str()), None => J::Null }));
    o.push(("krate", J::s(tcx.crate_name(def_id.krate).as_str())));
    o.push(("local", J::Bool(def_id.is_local())));
    o.push(("args", J::Arr(args.iter().map(|a| J::s(&format!("{}", a))).collect())));
    if let Some(tr) = tcx.trait_of_assoc(def_id) {
        o.push(("trait", J::s(&tcx.def_path_str(tr))));
        // self type of the trait call
        if let Some(st) = args.types().next() {
            o.push(("self_ty", J::s(&ty_str(st))));
            o.push(("self_adt", adt_path_of(tcx, st)));
        }
    }
    if let Some(imp) = tcx.impl_of_assoc(def_id) {
        let st = tcx.type_of(imp).instantiate_identity().skip_norm_wip();
        o.push(("impl_self_ty", J::s(&ty_str(st))));
        o.push(("impl_self_adt", adt_path_of(tcx, st)));
        if let Some(t) = tcx.impl_opt_trait_ref(imp) {
            o.push(("impl_trait", J::s(&tcx.def_path_str(t.instantiate_identity().skip_norm_wip().def_id))));
        }
    }
    if matches!(tcx.def_kind(def_id), DefKind::Fn | DefKind::AssocFn) {
        let sig = tcx.fn_sig(def_id).skip_binder().skip_binder();
        o.push(("unsafe", J::Bool(matches!(sig.safety(), rustc_hir::Safety::Unsafe))));
    }
    if tcx.intrinsic(def_id).is_some() {
        o.push(("intrinsic", J::Bool(true)));
    }
    // resolve trait calls to a concrete instance when possible
    if let Ok(Some(inst)) = ty::Instance::try_resolve(tcx, tenv, def_id, args) {
        let rd = inst.def_id();
        if rd != def_id {
            o.push(("resolved", J::s(&tcx.def_path_str(rd))));
            o.push(("resolved_local", J::Bool(rd.is_local())));
        }
    }
    J::obj(o)
}

fn op_json<'tcx>(tcx: TyCtxt<'tcx>, body: &Body<'tcx>, tenv: TypingEnv<'tcx>, op: &Operand<'tcx>) -> J {
    match op {
        Operand::Copy(p) => J::obj(vec![("c", place_json(tcx, body, p.as_ref()))]),
        Operand::Move(p) => J::obj(vec![("m", place_json(tcx, body, p.as_ref()))]),
        Operand::Constant(c) => const_json(tcx, tenv, c),
        #[allow(unreachable_patterns)]
        _ => J::obj(vec![("unknown", J::s(&format!("{:?}", op)))]),
    }
}

fn rvalue_json<'tcx>(tcx: TyCtxt<'tcx>, body: &Body<'tcx>, tenv: TypingEnv<'tcx>, rv: &Rvalue<'tcx>) -> J {
    match rv {
        Rvalue::Use(op, _) => J::obj(vec![("r", J::s("use")), ("o", op_json(tcx, body, tenv, op))]),
        Rvalue::Repeat(op, n) => J::obj(vec![
            ("r", J::s("repeat")),
            ("o", op_json(tcx, body, tenv, op)),
            ("n", match n.try_to_target_usize(tcx) { Some(v) => J::n(v as i128), None => J::Null }),
        ]),
        Rvalue::Ref(_, bk, p) => J::obj(vec![
            ("r", J::s("ref")),
            ("mut", J::Bool(matches!(bk, BorrowKind::Mut { .. }))),
            ("p", place_json(tcx, body, p.as_ref())),
        ]),
        Rvalue::RawPtr(k, p) => J::obj(vec![
            ("r", J::s("rawptr")),
            ("mut", J::Bool(matches!(k, RawPtrKind::Mut))),
            ("p", place_json(tcx, body, p.as_ref())),
        ]),
        Rvalue::Cast(kind, op, ty) => J::obj(vec![
            ("r", J::s("cast")),
            ("kind", J::s(&format!("{:?}", kind))),
            ("o", op_json(tcx, body, tenv, op)),
            ("ty", J::s(&ty_str(*ty))),
            ("from_ty", J::s(&ty_str(op.ty(body, tcx)))),
        ]),
        Rvalue::BinaryOp(bop, ab) => J::obj(vec![
            ("r", J::s("bin")),
            ("op", J::s(&format!("{:?}", bop))),
            ("a", op_json(tcx, body, tenv, &ab.0)),
            ("b", op_json(tcx, body, tenv, &ab.1)),
            ("aty", J::s(&ty_str(ab.0.ty(body, tcx)))),
        ]),
        Rvalue::UnaryOp(uop, op) => J::obj(vec![
            ("r", J::s("un")),
            ("op", J::s(&format!("{:?}", uop))),
            ("o", op_json(tcx, body, tenv, op)),
        ]),
        Rvalue::Discriminant(p) => J::obj(vec![("r", J::s("discr")), ("p", place_json(tcx, body, p.as_ref()))]),
        Rvalue::Aggregate(kind, ops) => {
            let mut o: Vec<(&'static str, J)> = vec![("r", J::s("agg"))];
            match &**kind {
                AggregateKind::Array(t) => {
                    o.push(("kind", J::s("array")));
                    o.push(("elem", J::s(&ty_str(*t))));
                }
                AggregateKind::Tuple => o.push(("kind", J::s("tuple"))),
                AggregateKind::Adt(did, vi, _, _, _) => {
                    o.push(("kind", J::s("adt")));
                    o.push(("adt", J::s(&tcx.def_path_str(*did))));
                    o.push(("variant", J::n(vi.as_u32() as i128)));
                    let def = tcx.adt_def(*did);
                    let v = def.variant(*vi);
                    o.push(("variant_name", J::s(v.name.as_str())));
                    o.push(("fields", J::Arr(v.fields.iter().map(|f| J::s(f.name.as_str())).collect())));
                }
                AggregateKind::Closure(did, _) => {
                    o.push(("kind", J::s("closure")));
                    o.push(("closure", J::s(&tcx.def_path_str(*did))));
                }
                _ => o.push(("kind", J::s("other"))),
            }
            o.push(("ops", J::Arr(ops.iter().map(|x| op_json(tcx, body, tenv, x)).collect())));
            J::obj(o)
        }
        Rvalue::CopyForDeref(p) => J::obj(vec![
            ("r", J::s("use")),
            ("o", J::obj(vec![("c", place_json(tcx, body, p.as_ref()))])),
        ]),
        Rvalue::ThreadLocalRef(d) => J::obj(vec![("r", J::s("tls")), ("item", J::s(&tcx.def_path_str(*d)))]),
        _ => J::obj(vec![("r", J::s("other")), ("dbg", J::s(&format!("{:?}", rv)))]),
    }
}

fn stmt_json<'tcx>(tcx: TyCtxt<'tcx>, body: &Body<'tcx>, tenv: TypingEnv<'tcx>, st: &Statement<'tcx>) -> Option<J> {
    let line = line_of(tcx, st.source_info.span);
    match &st.kind {
        StatementKind::Assign(b) => {
            let (p, rv) = &**b;
            Some(J::obj(vec![
                ("k", J::s("assign")),
                ("lhs", place_json(tcx, body, p.as_ref())),
                ("rv", rvalue_json(tcx, body, tenv, rv)),
                ("line", line),
                ("exp", J::Bool(st.source_info.span.from_expansion())),
            ]))
        }
        StatementKind::SetDiscriminant { place, variant_index } => Some(J::obj(vec![
            ("k", J::s("setdiscr")),
            ("lhs", place_json(tcx, body, place.as_ref().as_ref())),
            ("variant", J::n(variant_index.as_u32() as i128)),
            ("line", line),
        ])),
        StatementKind::StorageDead(l) => Some(J::obj(vec![("k", J::s("dead")), ("l", J::n(l.as_u32() as i128))])),
        StatementKind::StorageLive(l) => Some(J::obj(vec![("k", J::s("live")), ("l", J::n(l.as_u32() as i128))])),
        StatementKind::Intrinsic(i) => Some(J::obj(vec![
            ("k", J::s("intrinsic")),
            ("dbg", J::s(&format!("{:?}", i))),
            ("line", line),
        ])),
        _ => None,
    }
}

fn unwind_json(u: &UnwindAction) -> J {
    match u {
        UnwindAction::Cleanup(bb) => J::n(bb.as_u32() as i128),
        _ => J::Null,
    }
}

fn term_json<'tcx>(tcx: TyCtxt<'tcx>, body: &Body<'tcx>, tenv: TypingEnv<'tcx>, t: &Terminator<'tcx>) -> J {
    let line = line_of(tcx, t.source_info.span);
    let exp = J::Bool(t.source_info.span.from_expansion());
    let mut o: Vec<(&'static str, J)> = Vec::new();
    match &t.kind {
        TerminatorKind::Goto { target } => {
            o.push(("k", J::s("goto")));
            o.push(("target", J::n(target.as_u32() as i128)));
        }
        TerminatorKind::SwitchInt { discr, targets } => {
            o.push(("k", J::s("switch")));
            o.push(("discr", op_json(tcx, body, tenv, discr)));
            o.push(("discr_ty", J::s(&ty_str(discr.ty(body, tcx)))));
            let mut arms = Vec::new();
            for (v, bb) in targets.iter() {
                arms.push(J::Arr(vec![J::s(&format!("{}", v)), J::n(bb.as_u32() as i128)]));
            }
            o.push(("arms", J::Arr(arms)));
            o.push(("otherwise", J::n(targets.otherwise().as_u32() as i128)));
        }
        TerminatorKind::UnwindResume => o.push(("k", J::s("resume"))),
        TerminatorKind::UnwindTerminate(_) => o.push(("k", J::s("terminate"))),
        TerminatorKind::Return => o.push(("k", J::s("return"))),
        TerminatorKind::Unreachable => o.push(("k", J::s("unreachable"))),
        TerminatorKind::Drop { place, target, unwind, .. } => {
            o.push(("k", J::s("drop")));
            o.push(("place", place_json(tcx, body, place.as_ref())));
            o.push(("target", J::n(target.as_u32() as i128)));
            o.push(("unwind", unwind_json(unwind)));
        }
        TerminatorKind::Call { func, args, destination, target, unwind, fn_span, .. } => {
            o.push(("k", J::s("call")));
            o.push(("func", op_json(tcx, body, tenv, func)));
            o.push(("args", J::Arr(args.iter().map(|a| op_json(tcx, body, tenv, &a.node)).collect())));
            o.push(("dest", place_json(tcx, body, destination.as_ref())));
            o.push(("target", match target { Some(b) => J::n(b.as_u32() as i128), None => J::Null }));
            o.push(("unwind", unwind_json(unwind)));
            o.push(("fn_line", line_of(tcx, *fn_span)));
        }
        TerminatorKind::TailCall { func, args, .. } => {
            o.push(("k", J::s("tailcall")));
            o.push(("func", op_json(tcx, body, tenv, func)));
            o.push(("args", J::Arr(args.iter().map(|a| op_json(tcx, body, tenv, &a.node)).collect())));
        }
        TerminatorKind::Assert { cond, expected, msg, target, unwind } => {
            o.push(("k", J::s("assert")));
            o.push(("cond", op_json(tcx, body, tenv, cond)));
            o.push(("expected", J::Bool(*expected)));
            let (mk, mops): (String, Vec<J>) = match &**msg {
                AssertKind::BoundsCheck { len, index } => (
                    "BoundsCheck".into(),
                    vec![op_json(tcx, body, tenv, len), op_json(tcx, body, tenv, index)],
                ),
                AssertKind::Overflow(op, a, b) => (
                    format!("Overflow:{:?}", op),
                    vec![op_json(tcx, body, tenv, a), op_json(tcx, body, tenv, b)],
                ),
                AssertKind::OverflowNeg(a) => ("OverflowNeg".into(), vec![op_json(tcx, body, tenv, a)]),
                AssertKind::DivisionByZero(a) => ("DivisionByZero".into(), vec![op_json(tcx, body, tenv, a)]),
                AssertKind::RemainderByZero(a) => ("RemainderByZero".into(), vec![op_json(tcx, body, tenv, a)]),
                other => (format!("{:?}", other).split('(').next().unwrap_or("Other").to_string(), vec![]),
            };
            o.push(("msg", J::s(&mk)));
            o.push(("msg_ops", J::Arr(mops)));
            o.push(("target", J::n(target.as_u32() as i128)));
            o.push(("unwind", unwind_json(unwind)));
        }
        TerminatorKind::FalseEdge { real_target, .. } => {
            o.push(("k", J::s("goto")));
            o.push(("target", J::n(real_target.as_u32() as i128)));
        }
        TerminatorKind::FalseUnwind { real_target, .. } => {
            o.push(("k", J::s("goto")));
            o.push(("target", J::n(real_target.as_u32() as i128)));
        }
        TerminatorKind::InlineAsm { template, operands, targets, unwind, .. } => {
            o.push(("k", J::s("asm")));
            let tpl = rustc_ast::InlineAsmTemplatePiece::to_string(template);
            o.push(("template", J::s(&tpl)));
            let mut ops = Vec::new();
            for op in operands.iter() {
                let j = match op {
                    InlineAsmOperand::In { reg, value } => J::obj(vec![
                        ("dir", J::s("in")),
                        ("reg", J::s(&format!("{:?}", reg))),
                        ("value", op_json(tcx, body, tenv, value)),
                    ]),
                    InlineAsmOperand::Out { reg, late, place } => J::obj(vec![
                        ("dir", J::s(if *late { "lateout" } else { "out" })),
                        ("reg", J::s(&format!("{:?}", reg))),
                        ("place", match place { Some(p) => place_json(tcx, body, p.as_ref()), None => J::Null }),
                    ]),
                    InlineAsmOperand::InOut { reg, late, in_value, out_place } => J::obj(vec![
                        ("dir", J::s(if *late { "inlateout" } else { "inout" })),
                        ("reg", J::s(&format!("{:?}", reg))),
                        ("value", op_json(tcx, body, tenv, in_value)),
                        ("place", match out_place { Some(p) => place_json(tcx, body, p.as_ref()), None => J::Null }),
                    ]),
                    other => J::obj(vec![("dir", J::s("other")), ("dbg", J::s(&format!("{:?}", other)))]),
                };
                ops.push(j);
            }
            o.push(("operands", J::Arr(ops)));
            o.push(("targets", J::Arr(targets.iter().map(|b| J::n(b.as_u32() as i128)).collect())));
            o.push(("unwind", unwind_json(unwind)));
        }
        other => {
            o.push(("k", J::s("other")));
            o.push(("dbg", J::s(&format!("{:?}", other))));
        }
    }
    o.push(("line", line));
    o.push(("exp", exp));
    J::obj(o)
}
